"""C09 -- python-format and placeholder templaters render faithfully.   BOUNDED stand-in (labelled): nothing is proved.

   sqlfluff.core.templaters.placeholder: PlaceholderTemplater.process / get_context / KNOWN_STYLES
   sqlfluff.core.templaters.python:      PythonTemplater.process / render_func (dot notation) / slice_file and helpers

Executable contracts written from the property statement, evaluated on the REAL functions:
  placeholder  templated_str == subst(in_str, params, repl),  repl = quotation + (str(ctx[name]) if name in ctx else name) + quotation,
               name = named group or 1-based counter; `params` come from a hand-written, regex-free scanner of the documented
               style syntax (so the regular expressions in KNOWN_STYLES are under test too); errors == []; source map valid (C07's
               executable `valid`) and its non-literal slices are exactly the parameters.
  python       valid format string (string.Formatter().parse, recursively) with every field resolvable  ==>  process() renders
               exactly what str.format renders with dotted field names looked up as one key in ctx['sqlfluff']; source map valid
               on process() and on every variant of process_with_variants().

A real pyvc contract for PlaceholderTemplater.process was attempted first and abandoned: the engine cannot execute the function
(ENGINE_LIMITS below lists construct, file:line and the engine's own message).
"""
import itertools
import json
import os
import random
import re
import string
import time

from .c07 import valid, raw_tiles

PROP = "C09"
LEVEL = "exploration"
NATIVE_TRIES = {"quick": 0, "thorough": 0}
EXHAUSTIVE = False          # exhaustive sub-spaces are mixed with seeded samples; see bounded_stand_ins[*].exhaustive_part

# Constructs of PlaceholderTemplater.process the engine does not model (pyvc is not edited; reported to the engine owner).
ENGINE_LIMITS = [
    "placeholder.py:155 `regex.finditer(in_str)`: method of a C-implemented class (method_descriptor): Executor.class_attr binds only "
    "Python functions, the descriptor is lifted as a bare PyObj and the receiver is dropped -> 'call to None: no contract, not inlined, "
    "not in the external table (line 155)' (an alias_external() registration gets past it, but the contract then cannot mention the pattern)",
    "placeholder.py:161 and :168 `found_param[\"param_name\"]` / `found_param[\"quotation\"]`: __getitem__ on an object of a class type -> "
    "'subscript on V(Ref[Match], ...) [line 161]' / '[line 168]' (Executor.subscript knows tuples, lists, strings, TDict, structural dicts only)",
    "placeholder.py:174 `slice(last_pos_raw, span[0], None)`: three-argument slice() -> 'slice() arity [line 172]'",
    "placeholder.py:158 `str(param_counter)` and :164 `str(context[param_name])`: builtin str() of a non-string is a FRESH Text on every call "
    "(not a function of its argument), so `templated_str == subst(...)` with repl = str(ctx[name]) cannot be stated against it",
    "placeholder.py:152/:163/:164 `context`: one dict holding a compiled pattern under '__bind_param_regex' and arbitrary values under the "
    "other keys; TDict has a single value type and `in` / subscript on structural dicts need constant keys (param_name is symbolic)",
    "placeholder.py:157/:167 `\"param_name\" not in found_param.groupdict()`: same method_descriptor limitation as :155 for Match.groupdict / Match.span",
]

_ROOT = os.path.dirname(os.path.dirname(os.path.abspath(__file__)))


# ===================================================================================================== shared helpers
def _cfg(section=None):
    from sqlfluff.core import FluffConfig
    if section is None:
        return FluffConfig(overrides={"dialect": "ansi"})
    return FluffConfig(configs={"core": {"dialect": "ansi"}, "templater": section})


def source_map_ok(tf):
    """C07's executable `valid`; a file that renders to nothing with NO slices is accepted as the (vacuous) empty tiling --
    c07.valid demands at least one rendered slice, which every templater violates on the empty file (reported to C07)."""
    if len(tf.sliced_file) == 0:
        return len(tf.templated_str) == 0 and raw_tiles(tf.raw_sliced, len(tf.source_str))
    return bool(valid(tf))


def _size(s):
    return (len(s), s)


class _Failures:
    """one failed entry per id, carrying the smallest witness of that id (and how many inputs failed)"""

    def __init__(self, function):
        self.function = function
        self.best = {}
        self.count = {}

    def add(self, fid, witness, detail):
        self.count[fid] = self.count.get(fid, 0) + 1
        cur = self.best.get(fid)
        if cur is None or _size(witness) < _size(cur[0]):
            self.best[fid] = (witness, detail)

    def entries(self):
        out = []
        for fid in sorted(self.best):
            w, d = self.best[fid]
            out.append({"name": fid, "id": fid, "kind": "bounded", "status": "failed", "function": self.function,
                        "detail": dict(d, witness=w, failing_inputs_of_this_class=self.count[fid]), "reproduced": True})
        return out


# ===================================================================================================== placeholder: specification
# The documented syntax of each style (comments above KNOWN_STYLES and the placeholder templater documentation), written
# as a scanner WITHOUT regular expressions.  word = letter / digit / underscore.
def _w(c):
    return c.isalnum() or c == "_"


def _run(s, i, pred):
    j = i
    while j < len(s) and pred(s[j]):
        j += 1
    return j


def _free(s, i):
    """not glued to a preceding identifier, colon (`::` casts) or backslash (escape)"""
    return i == 0 or not (s[i - 1] == ":" or s[i - 1] == "\\" or _w(s[i - 1]))


def _braced(s, i, pred):
    """[{] name [}] starting at i: (end, name) or None"""
    j = i + 1 if s[i:i + 1] == "{" else i
    k = _run(s, j, pred)
    if k == j:
        return None
    return (k + 1 if s[k:k + 1] == "}" else k), s[j:k]


def scan_at(style, s, i):
    """a parameter of `style` starting exactly at i: (end, name or None, quotation or None) / None"""
    c = s[i]
    if style in ("colon", "numeric_colon"):
        if c == ":" and _free(s, i):
            k = _run(s, i + 1, _w if style == "colon" else str.isdecimal)
            if k > i + 1:
                return k, s[i + 1:k], None
    elif style == "colon_nospaces":
        if c == ":" and not (i > 0 and s[i - 1] == ":"):
            k = _run(s, i + 1, _w)
            if k > i + 1:
                return k, s[i + 1:k], None
    elif style == "colon_optional_quotes":
        if c == ":" and not (i > 0 and s[i - 1] == ":"):
            q = s[i + 1:i + 2]
            if q in ("'", '"') and q:
                k = _run(s, i + 2, _w)
                if k > i + 2 and s[k:k + 1] == q:
                    return k + 1, s[i + 2:k], q
                return None
            k = _run(s, i + 1, _w)
            if k > i + 1:
                return k, s[i + 1:k], ""
    elif style == "pyformat":
        if s.startswith("%(", i) and _free(s, i):
            k = _run(s, i + 2, _w)
            if k > i + 2 and s.startswith(")s", k):
                return k + 2, s[i + 2:k], None
    elif style in ("dollar", "numeric_dollar"):
        if c == "$" and _free(s, i) and i + 1 < len(s):
            r = _braced(s, i + 1, _w if style == "dollar" else str.isdecimal)
            if r:
                return r[0], r[1], None
    elif style == "dollar_surround":
        if c == "$" and _free(s, i):
            k = _run(s, i + 1, lambda ch: _w(ch) or ch == "-")
            if k > i + 1 and s[k:k + 1] == "$":
                return k + 1, s[i + 1:k], None
    elif style == "flyway_var":
        if s.startswith("${", i):
            k = _run(s, i + 2, lambda ch: _w(ch) or ch == ":")
            if k - (i + 2) >= 2 and _w(s[i + 2]) and s[k:k + 1] == "}":
                return k + 1, s[i + 2:k], None
    elif style == "question_mark":
        if c == "?" and _free(s, i):
            return i + 1, None, None
    elif style == "percent":
        if s.startswith("%s", i) and _free(s, i):
            return i + 2, None, None
    elif style == "ampersand":
        if c == "&" and not (i > 0 and s[i - 1] == "&") and i + 1 < len(s):
            r = _braced(s, i + 1, _w)
            if r:
                return r[0], r[1], None
    else:
        raise KeyError(style)
    return None


def scan(style, s):
    """the parameters of s, left to right, non-overlapping: [(start, end, name|None, quotation|None)]"""
    out, i = [], 0
    while i < len(s):
        m = scan_at(style, s, i)
        if m:
            out.append((i, m[0], m[1], m[2]))
            i = m[0]
        else:
            i += 1
    return out


def placeholder_oracle(style, s, ctx):
    """the property: every matched parameter replaced by its configured value, or by its name when none is configured"""
    out, last, counter = [], 0, 1
    for a, b, name, q in scan(style, s):
        if name is None:
            name = str(counter)
            counter += 1
        val = str(ctx[name]) if name in ctx else name
        if q is not None:
            val = q + val + q
        out.append(s[last:a])
        out.append(val)
        last = b
    out.append(s[last:])
    return "".join(out)


STYLES = ["colon", "colon_optional_quotes", "colon_nospaces", "numeric_colon", "pyformat", "dollar", "dollar_surround", "flyway_var",
          "question_mark", "numeric_dollar", "percent", "ampersand"]
# configured values: `$`, `:`, quotes, newline, empty, a non-string, text that itself looks like a parameter
PH_VALUES = {"a": "X", "ab": "", "b_1": "v$1:x", "1": "'q'", "12": "l1\nl2", "2": 7, "x-y": "\"d\" %s ?", "flyway:database": "db",
             "a:b": ":a $a &a", "é": "e"}
_NAMES = {
    "colon": ["a", "ab", "b_1", "1", "missing", "é"], "colon_nospaces": ["a", "ab", "b_1", "1", "missing"],
    "colon_optional_quotes": ["a", "ab", "1", "missing"], "numeric_colon": ["1", "12", "2", "3"],
    "pyformat": ["a", "ab", "b_1", "1", "missing"], "dollar": ["a", "ab", "1", "missing"], "dollar_surround": ["a", "ab", "x-y", "12", "missing"],
    "flyway_var": ["ab", "flyway:database", "a:b", "12", "missing", "a"], "numeric_dollar": ["1", "12", "2", "3"], "ampersand": ["a", "ab", "1", "missing"],
    "question_mark": [None], "percent": [None],
}
_FORMS = {
    "colon": [":{n}"], "colon_nospaces": [":{n}"], "numeric_colon": [":{n}"], "pyformat": ["%({n})s"],
    "colon_optional_quotes": [":{n}", ":'{n}'", ':"{n}"', ":'{n}\""], "dollar": ["${n}", "${{{n}}}", "${{{n}", "${n}}}"],
    "dollar_surround": ["${n}$"], "flyway_var": ["${{{n}}}"], "numeric_dollar": ["${n}", "${{{n}}}"], "ampersand": ["&{n}", "&{{{n}}}"],
    "question_mark": ["?"], "percent": ["%s"],
}
_LIT_COMMON = ["", " ", "select ", "\n", ",", "x1", "\\"]
_LIT_STYLE = {
    "colon": [":", "::"], "colon_nospaces": [":", "::"], "colon_optional_quotes": [":", "'", '"'], "numeric_colon": [":", "9"],
    "pyformat": ["%", "(", ")s"], "dollar": ["$", "{", "}"], "dollar_surround": ["$", "-"], "flyway_var": ["$", "{", "}"],
    "question_mark": ["?", "_"], "numeric_dollar": ["$", "}", "9"], "percent": ["%", "s"], "ampersand": ["&", "{", "}"],
}
_RAW_ALPHA = list(":$%?&{}()s1ab_ '\"\\\n-")


def _param_spellings(style):
    return [f.format(n=n) for n in _NAMES[style] for f in _FORMS[style]]


def _ph_templates_exact(style, k):
    """every template with exactly k parameter chunks: lit (param lit)^k over the style's pools"""
    lits = _LIT_COMMON + _LIT_STYLE[style]
    pars = _param_spellings(style)
    for ls in itertools.product(lits, repeat=k + 1):
        for ps in itertools.product(pars, repeat=k):
            yield "".join(a + b for a, b in zip(ls, ps + ("",)))


def _ph_template_random(style, rng, k):
    lits = _LIT_COMMON + _LIT_STYLE[style]
    pars = _param_spellings(style)
    return "".join(rng.choice(lits) + rng.choice(pars) for _ in range(k)) + rng.choice(lits)


PH_RESERVED = ("__bind_param_regex", "test_value")


def _ph_check(style, s, templater, cfg, ctx, fails, stats):
    """one evaluation of the executable contract of PlaceholderTemplater.process"""
    from sqlfluff.core.templaters.base import TemplatedFile
    want = placeholder_oracle(style, s, ctx)
    params = scan(style, s)
    sub_id, map_id = f"C09/placeholder/{style}/substitution", f"C09/placeholder/{style}/valid-source-map"
    try:
        variants = list(templater.process_with_variants(in_str=s, fname="<c09>", config=cfg))
    except Exception as e:      # the property has no exceptional case for the placeholder templater
        fails.add(sub_id, s, {"style": style, "expected": want, "observed": f"raises {type(e).__name__}: {str(e)[:160]}"})
        return params
    if len(variants) != 1:
        fails.add(sub_id, s, {"style": style, "expected": "exactly one variant", "observed": f"{len(variants)} variants"})
    for tf, errs in variants:
        if not isinstance(tf, TemplatedFile) or tf.source_str != s:
            fails.add(sub_id, s, {"style": style, "expected": "a TemplatedFile of the source", "observed": repr(tf)[:100]})
            continue
        if tf.templated_str != want:
            fails.add(sub_id, s, {"style": style, "expected": want, "observed": tf.templated_str})
        if list(errs) != []:
            fails.add(sub_id, s, {"style": style, "expected": "errors == []", "observed": [str(e)[:80] for e in errs]})
        if not source_map_ok(tf):
            fails.add(map_id, s, {"style": style, "clause": "c07.valid(result)", "sliced_file": [str(x) for x in tf.sliced_file][:8],
                                  "raw_sliced": [str(x) for x in tf.raw_sliced][:8]})
        else:
            # the map says which parts are parameters: the non-literal slices are exactly the matched parameters, in order,
            # each rendered as its replacement; everything else is literal
            spans = [(a, b) for a, b, _, _ in params]
            got_t = [(x.source_slice.start, x.source_slice.stop) for x in tf.sliced_file if x.slice_type != "literal"]
            got_r = [(x.source_idx, x.source_idx + len(x.raw)) for x in tf.raw_sliced if x.slice_type != "literal"]
            if got_t != spans or got_r != spans:
                fails.add(map_id, s, {"style": style, "clause": "non-literal slices == matched parameters", "parameters": spans,
                                      "templated_slices": got_t, "raw_slices": got_r})
    stats["evaluations"] += 1
    return params


def placeholder_substitution(tier, seed):
    """BOUNDED: PlaceholderTemplater.process against the substitution oracle, every KNOWN_STYLES style"""
    from sqlfluff.core.templaters.placeholder import PlaceholderTemplater, KNOWN_STYLES
    t0 = time.time()
    fails = _Failures("sqlfluff.core.templaters.placeholder:PlaceholderTemplater.process")
    stats = {"evaluations": 0}
    rng = random.Random(f"c09-ph-{seed}")
    cfg = _cfg()
    exact_k = 2 if tier == "thorough" else 1
    n_sample = 30000 if tier == "thorough" else 250
    n_raw = 20000 if tier == "thorough" else 250
    distinct, nontrivial, samples, per_style = set(), 0, [], {}
    if sorted(KNOWN_STYLES) != sorted(STYLES):
        fails.add("C09/placeholder/styles-enumerated", ",".join(sorted(set(KNOWN_STYLES) ^ set(STYLES))),
                  {"expected": "the check knows every style of KNOWN_STYLES", "observed": sorted(KNOWN_STYLES)})
    for style in STYLES:
        if style not in KNOWN_STYLES:
            continue
        ctx = dict(PH_VALUES, param_style=style)
        tpl = PlaceholderTemplater(override_context=ctx)
        n0 = stats["evaluations"]

        def one(s, kind):
            nonlocal nontrivial
            key = (style, s)
            if key in distinct:
                return
            distinct.add(key)
            params = _ph_check(style, s, tpl, cfg, ctx, fails, stats)
            if params:
                nontrivial += 1
            if kind == "sample" and len(params) >= 3 and len([x for x in samples if x["style"] == style]) < 1:
                samples.append({"style": style, "template": s, "parameters": [[a, b, n, q] for a, b, n, q in params],
                                "expected_and_observed": placeholder_oracle(style, s, ctx)})
        for k in range(0, exact_k + 1):
            for s in _ph_templates_exact(style, k):
                one(s, "exact")
        for _ in range(n_sample):
            one(_ph_template_random(style, rng, rng.choice((2, 3, 3, 4, 4))), "sample")
        for _ in range(n_raw):
            one("".join(rng.choice(_RAW_ALPHA) for _ in range(rng.randint(0, 14))), "raw")
        per_style[style] = stats["evaluations"] - n0
    # context supplied through the config section [sqlfluff:templater:placeholder] instead of override_context
    n_cfg = 0
    for style in STYLES:
        if style not in KNOWN_STYLES:
            continue
        ctx = dict(PH_VALUES, param_style=style)
        cfg2 = _cfg({"placeholder": dict(ctx)})
        tpl = PlaceholderTemplater()
        for s in itertools.islice(_ph_templates_exact(style, 1), 0, None, 7):
            _ph_check(style, s, tpl, cfg2, ctx, fails, stats)
            n_cfg += 1
    # names that are NOT configured by the user must render as their name -- including the templater's internal keys
    leak = _Failures(fails.function)
    for name in PH_RESERVED:
        for style in ("colon", "pyformat", "dollar", "ampersand"):
            s = "x = " + _FORMS[style][0].format(n=name)
            ctx = {"param_style": style, "a": "X"}
            tf, _ = PlaceholderTemplater(override_context=ctx).process(in_str=s, fname="<c09>", config=cfg)
            stats["evaluations"] += 1
            want = placeholder_oracle(style, s, ctx)
            if tf.templated_str != want:
                leak.add("C09/placeholder/unconfigured-name-renders-as-name", s,
                         {"style": style, "configured": ctx, "expected": want, "observed": tf.templated_str[:60],
                          "cause": "templater-internal context keys (default_context test_value, __bind_param_regex) are visible as parameter values"})
    return {"name": "placeholder-substitution", "evaluations": stats["evaluations"], "distinct_nontrivial": nontrivial,
            "bound": (f"{len(STYLES)} styles x [all templates lit (param lit)^k, k <= {exact_k}, over 9-10 literal chunks and 4-16 parameter spellings per style "
                      f"(exhaustive) + {n_sample} seeded templates with 2-4 parameters + {n_raw} seeded raw strings of length <= 14 over {len(_RAW_ALPHA)} characters]; "
                      f"one fixed context with {len(PH_VALUES)} configured names (override_context) + {n_cfg} templates with the context in the config section"),
            "rule": "one evaluation = one process_with_variants() call of the real templater checked against the oracle; distinct = distinct (style, template); "
                    "non-trivial = the regex-free scanner finds at least one parameter in the template",
            "exhaustive_part": f"k <= {exact_k}", "evaluations_per_style": per_style, "wall_s": round(time.time() - t0, 2),
            "samples": samples[:4], "failed": fails.entries() + leak.entries()}


# ===================================================================================================== python: specification
PY_ALPHA = "{}ab.:! 0"
_DOT_KEYS = ["".join(t) for n in range(1, 6) for t in itertools.product("ab.0 ", repeat=n) if "." in t]


def _py_context():
    sq = {k: f"<{k}>" for k in _DOT_KEYS}
    sq.update({"b.a": 3, "a.a": 2.5, "b.b": ""})
    return {"a": "X", "b": 2.5, "w": 5, "h": "-- hdr\n", "sqlfluff": sq}


class _Reference(string.Formatter):
    """str.format with the property's one deviation: a dotted field name is ONE key of the `sqlfluff` mapping"""

    def get_field(self, field_name, args, kwargs):
        if "." in field_name:
            return kwargs["sqlfluff"][field_name], field_name
        return super().get_field(field_name, args, kwargs)


_REF = _Reference()


def python_reference(s, ctx):
    """("ok", text) when s is a valid format string whose fields all resolve, else ("raises", ExceptionName)"""
    try:
        return "ok", _REF.vformat(s, (), ctx)
    except Exception as e:     # ValueError: not a format string; KeyError/IndexError/AttributeError...: a field does not resolve
        return "raises", type(e).__name__


def _reconstruct(s):
    """s re-assembled from string.Formatter().parse(s); differs from s exactly when parse() loses text (an empty `:` spec)"""
    out = []
    for lit, name, spec, conv in string.Formatter().parse(s):
        out.append(lit.replace("{", "{{").replace("}", "}}"))
        if name is not None:
            out.append("{" + name + ("!" + conv if conv else "") + (":" + spec if spec else "") + "}")
    return "".join(out)


_KNOWN_DOT_REWRITE = re.compile(r"{([^:}]*\.[^:}]*)(:\S*)?}")


def _literal_pieces(s):
    out = []
    for lit, name, spec, conv in string.Formatter().parse(s):
        out.extend(x for x in re.split(r"[{}]", lit) if x)
    return out


def _literal_inside_field(s):
    """some literal piece of s (maximal brace-free run of literal text) also occurs inside the source text of a replacement field"""
    fields = ["{" + name + ("!" + conv if conv else "") + ":" + spec + "}" for _, name, spec, conv in string.Formatter().parse(s) if name is not None]
    return any(l in f for l in _literal_pieces(s) for f in fields)


def _literal_overlaps_itself(s, rendered):
    """some literal piece of s occurs at two overlapping positions of the rendered text (`aa` in `aaa`, two newlines in three)"""
    for l in set(_literal_pieces(s)):
        i = rendered.find(l)
        while i >= 0:
            j = rendered.find(l, i + 1)
            if 0 <= j < i + len(l):
                return True
            i = j
    return False


def _known_defect(s, ctx, observed, expected):
    """Triage ONLY (never used to accept a result): is this failure what one of the recorded defects predicts?
       empty-format-spec          _slice_template rebuilds `{name:}` as `{name}`, the raw slices come out short and TemplatedFile asserts
                                  (exact: the assertion message carries the two lengths)
       dot-notation-regex         render_func rewrites dotted names with a regular expression over the RAW text ({...} after an escaped brace,
                                  `!conv` swallowed into the key, whitespace in the spec not recognised) instead of over parsed fields
                                  (exact: the outcome equals that of `regex-rewrite then str.format`)
       slicer-literal-occurrences slice_file anchors on naive substring occurrences of the literals: occurrences INSIDE replacement fields of the
                                  source (`.` of a dotted name, ` ` of a spec) and OVERLAPPING occurrences in the rendered text (`aa` in `aaa`) are
                                  counted, the slices come out wrong, and _check_for_wrapped trims the rendered text to them / TemplatedFile refuses
                                  them with SQLFluffSkipFile (by feature: such a literal exists, and the outcome is a trimmed piece of the expected
                                  text or SQLFluffSkipFile)"""
    if observed[0] == "raises" and observed[1] == "AssertionError" and "Consistency fail on total source length" in observed[2] \
            and f"{len(_reconstruct(s))} != {len(s)}" in observed[2]:
        return "empty-format-spec"
    try:
        model = ("ok", _KNOWN_DOT_REWRITE.sub(r"{sqlfluff[\1]\2}", s).format(**ctx))
    except (KeyError, ValueError, IndexError, TypeError, AttributeError):
        model = ("raises", "SQLTemplaterError")      # the classes render_func turns into a templating error (3a3767c)
    except Exception as e:
        model = ("raises", type(e).__name__)
    if "." in s and model == tuple(observed[:2]) and model != ("ok", expected):
        return "dot-notation-regex"
    if (_literal_inside_field(s) or _literal_overlaps_itself(s, expected)) \
            and (tuple(observed[:2]) == ("raises", "SQLFluffSkipFile") or (observed[0] == "ok" and observed[1] in expected)):
        return "slicer-literal-occurrences"
    return None


PY_CURATED = [
    "select {a} from t", "select '{{' , {a.b}", "{{}}", "{{a}}", "{{{a}}}", "{{{a.b}}}", "{a.b}", "{a.b.a}", "{b.a:>5}", "{a:>5}", "{a:<5}|", "{a!r}",
    "{a.b!r}", "{a!s:>4}", "{0}", "{}", "{a:{w}}", "{a:>{w}}", "{a.b:>{w}}", "{w:{a.a}}", "{", "}", "{a", "a}", "{a}}", "{{a}", "{a:}", "{b: }", "{b.a: }",
    "{w:03d}", "{b:.1f}", "{b:.0f} {a.a:.1f}", "{a}{a}", "{a} {a.b} {a}", "x {a}\n y {b}\n", "{missing}", "{a.missing}", "{a[0]}", "{sqlfluff[a.b]}",
    "select {a}, {a} from {a.b} where {a.b} = '{{x}}'", "SELECT {a} FROM {a.b} WHERE x = {w:>{w}}\n", "{{ {a} }}", "a.b {a}", "{{a.b}} {a}", "{a} }} . {{ {a}",
    "{a!s}{b!r}{w!a}", "{a:{w}}{a.b:{w}}", "-- {a.b: >9}\nselect 1", "{a.b:{w}.{w}}", "{b.b}{b.b}", "{b.b}", "", "no fields at all\n", "{a}é{a.b}",
    "{h}\n\n{a}", "{h}\nselect {a}\n", "{w}  {b: }", "{a.a}{b: }.", ".{b.a:0}{b: }",
]
_PY_TOKENS = ["a", "b", " ", ".", ":", "!", "0", "{{", "}}", "{a}", "{b}", "{w}", "{a.b}", "{b.a}", "{a.a}", "{a!r}", "{a.b!s}", "{b:0}", "{b: }", "{a:}", "{a.b:}",
              "{b.a:0}", "{a:{w}}", "{a.b:>{w}}", "{b:.0f}", "{a.a:.0f}", "\n", "select ", "{missing}", "{a.x}"]


def _py_check(s, templater, cfg, ctx, fails, stats, always=False):
    """one evaluation of the executable contract of PythonTemplater.process (returns the reference verdict)"""
    ref = python_reference(s, ctx)
    stats["strings"] += 1
    if ref[0] != "ok":
        stats["reference_raises"][ref[1]] = stats["reference_raises"].get(ref[1], 0) + 1
        if not always and stats["strings"] % 16:
            return ref
    try:
        variants = list(templater.process_with_variants(in_str=s, fname="<c09>", config=cfg))
        obs = ("ok", variants[0][0].templated_str, "")
    except Exception as e:
        variants = []
        obs = ("raises", type(e).__name__ if type(e).__name__ != "SQLTemplaterError" else "SQLTemplaterError", str(e)[:200])
    stats["evaluations"] += 1
    if ref[0] != "ok":
        # not a valid format string / a field does not resolve: the property allows any outcome; what happens is recorded
        k = "renders" if obs[0] == "ok" else obs[1]
        stats["outcome_when_reference_raises"][k] = stats["outcome_when_reference_raises"].get(k, 0) + 1
        return ref
    stats["valid"] += 1
    if obs[0] == "raises":
        cause = _known_defect(s, ctx, obs, ref[1])
        fid = "C09/python/valid-format-string-renders" + (f"[{cause}]" if cause else "")
        fails.add(fid, s, {"expected": ref[1], "observed": f"raises {obs[1]}: {obs[2]}", "cause": cause or "unexplained"})
        return ref
    if obs[1] != ref[1]:
        cause = _known_defect(s, ctx, obs, ref[1])
        fid = "C09/python/equals-str.format" + (f"[{cause}]" if cause else "")
        fails.add(fid, s, {"expected": ref[1], "observed": obs[1], "cause": cause or "unexplained"})
    for i, (tf, errs) in enumerate(variants):
        if tf.source_str != s or (i > 0 and tf.templated_str != ref[1]) or list(errs) != []:
            fails.add("C09/python/equals-str.format", s, {"expected": ref[1], "observed": f"variant {i}: {tf.templated_str!r}, errors {[str(e)[:60] for e in errs]}",
                                                            "cause": "unexplained"})
        if not source_map_ok(tf):
            fails.add("C09/python/valid-source-map", s, {"variant": i, "clause": "c07.valid(result)", "templated": tf.templated_str,
                                                           "sliced_file": [str(x) for x in tf.sliced_file][:8], "raw_sliced": [str(x) for x in tf.raw_sliced][:8]})
    return ref


def python_format(tier, seed):
    """BOUNDED: PythonTemplater.process against str.format-with-dotted-lookup, format strings over a 9-letter alphabet"""
    from sqlfluff.core.templaters.python import PythonTemplater
    t0 = time.time()
    fails = _Failures("sqlfluff.core.templaters.python:PythonTemplater.process")
    stats = {"evaluations": 0, "strings": 0, "valid": 0, "reference_raises": {}, "outcome_when_reference_raises": {}}
    rng = random.Random(f"c09-py-{seed}")
    cfg, ctx = _cfg(), _py_context()
    tpl = PythonTemplater(override_context=ctx)
    exact_n = 7 if tier == "thorough" else 5
    n_sample = 0 if tier == "thorough" else 20000
    exact_tok = 3
    n_grammar = 150000 if tier == "thorough" else 4000
    seen_valid, nontrivial, samples = set(), 0, []

    def one(s, always=False):
        nonlocal nontrivial
        if s in seen_valid:
            return
        ref = _py_check(s, tpl, cfg, ctx, fails, stats, always)
        if ref[0] == "ok":
            seen_valid.add(s)
            if "{" in s or "}" in s:
                nontrivial += 1
                if len(samples) < 4 and len(s) >= 6 and "." in s and s.count("{") >= 2 and rng.random() < 0.02:
                    samples.append({"format_string": s, "reference": ref[1]})
    for n in range(0, exact_n + 1):
        for tup in itertools.product(PY_ALPHA, repeat=n):
            one("".join(tup))
    for _ in range(n_sample):
        one("".join(rng.choice(PY_ALPHA) for _ in range(rng.choice((6, 7, 7)))))
    for n in range(1, exact_tok + 1):
        for tup in itertools.product(_PY_TOKENS, repeat=n):
            one("".join(tup))
    for _ in range(n_grammar):
        one("".join(rng.choice(_PY_TOKENS) for _ in range(rng.randint(exact_tok + 1, exact_tok + 2))))
    for s in PY_CURATED:
        one(s, always=True)
    # the context supplied through [sqlfluff:templater:python:context] (string values, type-inferred by the templater)
    cfg2 = _cfg({"python": {"context": {"a": "X", "b": "2.5", "w": "5", "sqlfluff": {"a.b": "<a.b>", "b.a": "3", "a.a": "2.5"}}}})
    # (top-level values are type-inferred by PythonTemplater.get_context, values nested in `sqlfluff` are not)
    ctx2 = {"a": "X", "b": 2.5, "w": 5, "sqlfluff": {"a.b": "<a.b>", "b.a": "3", "a.a": "2.5"}}
    tpl2 = PythonTemplater()
    for s in PY_CURATED:
        _py_check(s, tpl2, cfg2, ctx2, fails, stats, always=True)
    total = (len(PY_ALPHA) ** (exact_n + 1) - 1) // (len(PY_ALPHA) - 1)
    return {"name": "python-format", "evaluations": stats["evaluations"], "distinct_nontrivial": nontrivial,
            "bound": (f"all {total} strings over {{ {' '.join(repr(c) for c in PY_ALPHA)} }} up to length {exact_n} (exhaustive)"
                      + (f" + {n_sample} seeded strings of length 6-7" if n_sample else "")
                      + f" + all concatenations of 1-{exact_tok} tokens from {len(_PY_TOKENS)} literal/field tokens (exhaustive) + {n_grammar} seeded ones of {exact_tok + 1}-{exact_tok + 2} tokens + {len(PY_CURATED)} curated format strings "
                      "(escaped braces, dotted names, specs, conversions, positional, nested, unmatched) x 2 ways of supplying the context; context a='X', b=2.5, w=5, "
                      f"sqlfluff = {len(_DOT_KEYS)} dotted keys"),
            "rule": "every string is classified by the reference (string.Formatter with dotted names looked up in ctx['sqlfluff']); one evaluation = one real "
                    "process_with_variants() call: every string the reference renders, and every 16th of the others (outcome recorded, nothing required); "
                    "distinct = distinct format string; non-trivial = the reference renders it and it contains a brace",
            "exhaustive_part": f"alphabet strings of length <= {exact_n}; token concatenations of <= {exact_tok} tokens", "strings_classified": stats["strings"], "valid_and_resolvable": stats["valid"],
            "reference_raises": stats["reference_raises"], "outcome_when_reference_raises": stats["outcome_when_reference_raises"],
            "wall_s": round(time.time() - t0, 2), "samples": samples or [{"format_string": "{a.b:>{w}}", "reference": python_reference("{a.b:>{w}}", ctx)[1]}],
            "failed": fails.entries()}


# ===================================================================================================== self-checks (EXTRA)
_DOC_EXAMPLES = [   # the example in the comment above each KNOWN_STYLES entry, with a hand-written expectation
    ("colon", "WHERE bla = :name", {"name": "'john'"}, "WHERE bla = 'john'"),
    ("colon_optional_quotes", "SELECT :\"column\" FROM :table WHERE bla = :'name'", {"column": "c", "table": "t", "name": "n"}, "SELECT \"c\" FROM t WHERE bla = 'n'"),
    ("colon_nospaces", "WHERE bla = table:name", {"name": "x"}, "WHERE bla = tablex"),
    ("numeric_colon", "WHERE bla = :2", {"2": "two"}, "WHERE bla = two"),
    ("pyformat", "WHERE bla = %(name)s", {"name": "5"}, "WHERE bla = 5"),
    ("dollar", "WHERE bla = $name or WHERE bla = ${name}", {"name": "v"}, "WHERE bla = v or WHERE bla = v"),
    ("dollar_surround", "WHERE bla = $name$", {"name": "v"}, "WHERE bla = v"),
    ("flyway_var", "USE ${flyway:database}.schema_name;", {"flyway:database": "db"}, "USE db.schema_name;"),
    ("question_mark", "WHERE bla = ? AND x = ?", {"1": "p", "2": "q"}, "WHERE bla = p AND x = q"),
    ("numeric_dollar", "WHERE bla = $3 or WHERE bla = ${3}", {"3": "t"}, "WHERE bla = t or WHERE bla = t"),
    ("percent", "WHERE bla = %s AND y = %s", {"2": "q"}, "WHERE bla = 1 AND y = q"),
    ("ampersand", "WHERE bla = &s or WHERE bla = &{s} or USE DATABASE &{ENV}_MARKETING", {"s": "v", "ENV": "E"}, "WHERE bla = v or WHERE bla = v or USE DATABASE E_MARKETING"),
]


def _faulty_placeholder(style, s, ctx, fault):
    """deliberately wrong substitutions (checker sensitivity only)"""
    out, last, counter = [], 0, (0 if fault == "counter-from-0" else 1)
    for a, b, name, q in scan(style, s):
        if name is None:
            name = str(counter)
            counter += 1
        val = str(ctx[name]) if name in ctx else ("" if fault == "name-fallback-empty" else name)
        if q is not None:
            val = q + val + (q if fault != "quotation-once" else "")
        out.append(s[last:a])
        out.append(val)
        last = b if fault != "eats-next-char" else b + 1
    out.append(s[last:])
    return "".join(out)


def self_checks(tier, seed):
    """Obligations about THIS CHECKER only (decided by evaluation): the oracles agree with hand-written expectations, the generated
    inputs tell seeded faults apart, the reference formatter coincides with str.format where no dotted name occurs.  Nothing about
    sqlfluff is counted as discharged here."""
    failed, n, ok, samples = [], 0, 0, []

    def ob(oid, good, detail):
        nonlocal n, ok
        n += 1
        if good:
            ok += 1
            if len(samples) < 6:
                samples.append({"obligation": oid, "backend": "evaluation (checker self-check)", **detail})
        else:
            failed.append({"name": oid, "id": oid, "kind": "self-check", "status": "failed", "function": "contracts.c09", "detail": detail, "reproduced": True})
    for style, s, ctx, want in _DOC_EXAMPLES:
        got = placeholder_oracle(style, s, ctx)
        ob(f"C09/self-check/placeholder-oracle-doc-example[{style}]", got == want, {"template": s, "context": ctx, "oracle": got, "hand_written": want})
    for fault in ("counter-from-0", "name-fallback-empty", "quotation-once", "eats-next-char"):
        hits = 0
        for style in STYLES:
            ctx = dict(PH_VALUES, param_style=style)
            for s in _ph_templates_exact(style, 1):
                if _faulty_placeholder(style, s, ctx, fault) != placeholder_oracle(style, s, ctx):
                    hits += 1
                    break
        need = {"counter-from-0": 2, "quotation-once": 1}.get(fault, 8)
        ob(f"C09/self-check/placeholder-inputs-distinguish[{fault}]", hits >= need, {"fault": fault, "styles_with_a_distinguishing_template": hits})
    ctx = _py_context()
    agree, total, bad = 0, 0, None
    for k in range(0, 5):
        for tup in itertools.product(PY_ALPHA.replace(".", ""), repeat=k):
            s = "".join(tup)
            total += 1
            try:
                want = ("ok", s.format(**ctx))
            except Exception as e:
                want = ("raises", type(e).__name__)
            if python_reference(s, ctx) == want:
                agree += 1
            elif bad is None:
                bad = s
    ob("C09/self-check/python-reference-equals-str.format-without-dots", agree == total, {"strings": total, "agree": agree, "first_disagreement": bad})
    hand = [("{a.b}", "<a.b>"), ("select '{{' , {a.b}", "select '{' , <a.b>"), ("{b.a:>5}", "    3"), ("{a.b!r}", "'<a.b>'"), ("{{a.b}}", "{a.b}"),
            ("{a:>{w}}", "    X"), ("{a.a:.0f}|{b:.0f}", "2|2"), ("{a:}", "X"), ("{a.missing}", None), ("{0}", None), ("{a", None), ("}", None)]
    for s, want in hand:
        got = python_reference(s, ctx)
        ob(f"C09/self-check/python-reference-hand-written[{s}]", (got == ("ok", want)) if want is not None else got[0] == "raises",
           {"format_string": s, "reference": list(got), "hand_written": want})
    cnt = sum(1 for k in range(0, 4) for _ in itertools.product(PY_ALPHA, repeat=k))
    ob("C09/self-check/enumerator-count", cnt == (9 ** 4 - 1) // 8 and len(set(PY_ALPHA)) == 9, {"strings_up_to_length_3": cnt, "closed_form": (9 ** 4 - 1) // 8})
    ob("C09/self-check/triage-does-not-explain-correct-behaviour", _known_defect("{a}", ctx, ("raises", "SQLTemplaterError", ""), "X") is None
       and _known_defect("{a.b}", ctx, ("raises", "SQLTemplaterError", ""), "<a.b>") is None and _known_defect("{a.b}", ctx, ("ok", "<a.b", ""), "<a.b>") is None
       and _known_defect("{a}", ctx, ("raises", "AssertionError", "Consistency fail on total source length: 2 != 3"), "X") is None
       and _known_defect("select {a} from {b}", ctx, ("ok", "select X", ""), "select X from 2.5") is None
       and _known_defect("{{.}}", ctx, ("raises", "SQLTemplaterError", ""), "{.}") == "dot-notation-regex", {"note": "known-defect triage only matches what the recorded defects predict"})
    return {"name": "C09-checker-self-checks", "obligations": n, "discharged": ok, "failed": failed, "undecided": [], "samples": samples,
            "backend": "evaluation (checker self-checks only; the property is bounded, not proved)", "trusted": []}


EXTRA = [self_checks]
BOUNDED = [placeholder_substitution, python_format]

RULE = ("bounded stand-ins (see bounded_stand_ins[*].rule/bound): [0] placeholder templater: one evaluation = one real process_with_variants() call on a (style, template) "
        "pair, templates = literal chunks and parameter spellings of the style (exhaustive for <= 1 parameter in the quick tier, <= 2 in the thorough tier, seeded "
        "beyond, plus seeded raw strings); non-trivial = the regex-free scanner finds a parameter; [1] python templater: all strings over a 9-letter alphabet up to "
        "length 5 (quick) / 7 (thorough), seeded longer ones, token concatenations and a curated list; non-trivial = a valid, resolvable format string containing a brace. "
        "distinct_nontrivial counts distinct inputs only.")

EXPLANATION = (
    "BOUNDED stand-in for C09; nothing is proved (coverage.obligations/discharged count ONLY self-checks of this checker). A pyvc contract for "
    "PlaceholderTemplater.process was written (finditer havocked as an ordered list of in-range match records, the C07 loop invariant) and abandoned because the "
    "engine cannot execute the function: see ENGINE_LIMITS in contracts/c09.py (method calls and __getitem__ on regex match objects, 3-argument slice(), str() of "
    "context values, heterogeneous context dict). Instead the property is an executable contract evaluated on the real functions. Placeholder: the parameters of a "
    "template are found by a hand-written scanner of the documented style syntax that uses no regular expression, the expected text is the source with each of them "
    "replaced by quotation + (str(ctx[name]) if name in ctx else name) + quotation (name = group or 1-based counter); required: templated_str equal to it, no errors, "
    "c07.valid(result), and the non-literal slices of both slice lists are exactly the parameters. Python: a string.Formatter subclass that looks a dotted field name "
    "up as one key of ctx['sqlfluff'] is the reference (checked to coincide with str.format on every dot-free string up to length 4); when it renders, process() must "
    "return exactly that text and c07.valid must hold for every variant; when it raises (not a format string, or a field does not resolve) nothing is required and the "
    "observed outcome is only tallied. Each failing clause yields one failed entry with its smallest witness; failures that are exactly what a recorded defect "
    "predicts are reported under the clause id suffixed with the defect ([dot-notation-regex], [empty-format-spec]) so that any other failure of the same clause "
    "keeps the bare id and is never masked by a known finding.")

TRUSTED = [
    "the regex-free scanner `scan_at` is this checker's reading of the documented placeholder styles (self-checked on the 12 documented examples; any disagreement with KNOWN_STYLES on a generated input is reported as a failure, not resolved in favour of either)",
    "string.Formatter (CPython) as the definition of 'valid format string' and of str.format's field semantics; self-checked equal to str.format on all dot-free strings up to length 4",
    "contracts.c07.valid / raw_tiles as the definition of a consistent source map (empty tiling of an empty rendering accepted)",
    "FluffConfig(overrides=...) / FluffConfig(configs=...) deliver the context as a .sqlfluff file would",
]
NOT_COVERED = [
    "anything outside the stated bounds: other alphabets, longer templates, more than 4 parameters, param_regex (user-supplied pattern), non-ASCII word characters other than one accented letter",
    "PlaceholderTemplater.get_context error paths (unknown style, both param_style and param_regex): only that every KNOWN_STYLES style is accepted",
    "PythonTemplater with ignore=templating (_FallbackDict path), infer_type conversions of string context values beyond the one config-section context used here",
    "what is raised for strings that are not valid format strings or whose fields do not resolve (tallied in bounded_stand_ins[1].outcome_when_reference_raises: "
    "ValueError / IndexError / AttributeError escape process() un-wrapped; the property does not say what should happen)",
    "no clause of C09 is proved: PlaceholderTemplater.process could not be executed by pyvc (ENGINE_LIMITS), render_func's regex rewrite and slice_file are outside the subset",
]

# ===================================================================================================== must-fail mutants
_PH = "sqlfluff/core/templaters/placeholder.py"
_PY = "sqlfluff/core/templaters/python.py"
MUTANTS = [
    ("ph_last_pos_templated_off_by_one", _PH, "            last_pos_templated = start_template_pos + len(replacement)", "            last_pos_templated = start_template_pos + len(replacement) + 1"),
    ("ph_quotation_applied_once", _PH, "                replacement = quotation + replacement + quotation", "                replacement = quotation + replacement"),
    ("ph_counter_starts_at_0", _PH, "        param_counter = 1", "        param_counter = 0"),
    ("ph_name_fallback_empty", _PH, "            else:\n                replacement = param_name", "            else:\n                replacement = \"\""),
    ("ph_literal_slice_typed_templated", _PH, "                    slice_type=\"literal\",\n                    source_slice=slice(last_pos_raw, span[0], None),",
     "                    slice_type=\"templated\",\n                    source_slice=slice(last_pos_raw, span[0], None),"),
    ("ph_parameter_slice_typed_literal", _PH, "                    slice_type=\"templated\",\n                    source_slice=slice(span[0], span[1]),",
     "                    slice_type=\"literal\",\n                    source_slice=slice(span[0], span[1]),"),
    ("ph_trailing_literal_dropped", _PH, "        if len(in_str) > last_pos_raw:", "        if len(in_str) > last_pos_raw + 1:"),
    ("ph_value_not_stringified_but_repr", _PH, "                replacement = str(context[param_name])", "                replacement = repr(context[param_name])"),
    ("ph_dollar_regex_requires_brace_pair", _PH, "        r\"(?<![:\\w\\x5c])\\${?(?P<param_name>[\\w_]+)}?\", regex.UNICODE", "        r\"(?<![:\\w\\x5c])\\$(?P<param_name>[\\w_]+)\", regex.UNICODE"),
    ("py_dot_regex_overmatches_spec", _PY, "r\"{([^:}]*\\.[^:}]*)(:\\S*)?}\"", "r\"{([^}]*\\.[^}]*)(:\\S*)?}\""),
    ("py_slice_template_drops_last_literal", _PY, "                if literal_text[idx:]:\n                    yield RawFileSlice(literal_text[idx:], \"literal\", in_idx)",
     "                if literal_text[idx:] and field_name:\n                    yield RawFileSlice(literal_text[idx:], \"literal\", in_idx)"),
    ("py_escaped_brace_not_doubled", _PY, "literal_text[first_char[1] : idx] * 2, \"escaped\", in_idx", "literal_text[first_char[1] : idx], \"escaped\", in_idx"),
    ("py_renders_without_override_context", _PY, "                rendered_str = raw_str_with_dot_notation_hack.format(**live_context)",
     "                rendered_str = raw_str_with_dot_notation_hack.format(**{**live_context, \"b\": live_context.get(\"a\")})"),
    ("py_wrapped_check_trims_first_slice", _PY, "                    first_slice.templated_slice.start : last_slice.templated_slice.stop\n", "                    first_slice.templated_slice.stop : last_slice.templated_slice.stop\n"),
]
