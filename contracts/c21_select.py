"""C21, pyvc part -- helper module of contracts/c21.py (imported at its top; the bounded / syntactic parts live there).

Functions under contract, in their real source:
   sqlfluff.core.rules.base:    RuleSet._expand_rule_refs                  (pyvc: whole function, both loops)
                                RuleSet.rule_reference_map                 (pyvc: whole function, 4 loops, dict comprehensions, merges)
                                RuleSet.get_rulepack#selection             (pyvc region contract: selector lists -> code list)
   sqlfluff.core.linter.linter: Linter.lint_fix_parsed#rule-loop           (pyvc region contract: the phase / pass / rule loop nest)

Vocabulary.  `glob(pat, name)` (uninterpreted: fnmatch decides which names a pattern matches); `hit(r, m, c)`: selector r stands for
rule code c under reference map m; `selects(sels, m, c)`: some selector of a list does; `wanted(config, m, c)`: the configuration
selects c (rules, default every rule, minus exclude_rules); is_code / is_name / is_group / is_alias / refers over the register;
ghost crawl counters `crawls` / `found` and `origin(e)` for the rule loop.
"""
import fnmatch

from pyvc.dsl import contract, external, spec, implies, iff, ref_class, rec_class
from pyvc.ty import INT, BOOL, StrN, TList, TSet, TDict, TOpt, TOpaque

PROP = "C21"

RefMap = TDict(StrN, TSet(StrN))       # rule reference map: reference (code, name, group, alias) -> set of rule codes
RuleClass = TOpaque("RuleClass")
RuleManifest = rec_class("sqlfluff.core.rules.base:RuleManifest", code=StrN, name=StrN, description=StrN,
                         groups=TList(StrN), aliases=TList(StrN), rule_class=RuleClass)
RuleSet = ref_class("sqlfluff.core.rules.base:RuleSet", name=StrN, _register=TDict(StrN, RuleManifest))

BASE = "sqlfluff.core.rules.base:RuleSet."
K_EXPAND, K_REFMAP = BASE + "_expand_rule_refs", BASE + "rule_reference_map"


# ================================================================== vocabulary (from the property text)
@spec(uninterpreted=True)
def glob(pat: StrN, name: StrN) -> BOOL:
    """`name` is matched by the glob `pat` (shell-style wildcards, case sensitive: what fnmatch.filter applies to one name on
    posix, where normcase is the identity).  Uninterpreted in the proofs: WHICH names a pattern matches is fnmatch's."""
    return fnmatch.fnmatchcase(name, pat)


@external("fnmatch:filter")
class fnmatch_filter:
    """ASSUMED of the standard library (compared with the library on random inputs by BOUNDED[0] of c21.py):
    the names that match, each a member of `names`, none left out."""
    types = {"names": TSet(StrN), "pat": StrN}
    ret = TList(StrN)
    functional = True

    def ensures(names, pat, result):
        return (all(result[i] in names and glob(pat, result[i]) for i in range(len(result)))
                and all(implies(glob(pat, k), k in result) for k in names))


@spec
def hit(r, m, c):
    """selector r stands for rule code c under reference map m: through the reference r itself when r is one, otherwise
    through every reference that r matches as a glob"""
    return (c in m[r]) if r in m else any(glob(r, k) and c in m[k] for k in m.keys())


@spec
def contributes(r, m, out):
    """everything selector r stands for is in `out`"""
    return (all(c in out for c in m[r]) if r in m
            else all(implies(glob(r, k), all(c in out for c in m[k])) for k in m.keys()))


@spec
def selects(sels, m, c):
    """some selector of the list stands for rule code c"""
    return any(hit(sels[i], m, c) for i in range(len(sels)))


# ================================================================== 1. RuleSet._expand_rule_refs (the selection kernel)
@contract(K_EXPAND, PROP)
class expand_rule_refs:
    """result == U_{r in glob_list} (reference_map[r] if r in reference_map else U{reference_map[k] | k a key, glob(r, k)}),
    stated as two inclusions."""
    types = {"self": RuleSet, "glob_list": TList(StrN), "reference_map": RefMap, "expanded_rule_set": TSet(StrN),
             "matched_refs": TList(StrN)}
    ret = TSet(StrN)
    opts = {"alphabet": "ab*?", "max_len": 2, "timeout_ms": 5000, "max_unknown": 2}

    def ensures(glob_list, reference_map, result):
        return (
            # nothing but what some selector stands for
            all(selects(glob_list, reference_map, c) for c in result)
            # everything a selector stands for
            and all(contributes(glob_list[i], reference_map, result) for i in range(len(glob_list))))

    def inv_1(glob_list, reference_map, expanded_rule_set, _i):
        return (all(any(hit(glob_list[i], reference_map, c) for i in range(0, _i)) for c in expanded_rule_set)
                and all(contributes(glob_list[i], reference_map, expanded_rule_set) for i in range(0, _i)))

    def inv_2(glob_list, reference_map, expanded_rule_set, matched_refs, r, _i1, _i2):
        return (0 <= _i1 < len(glob_list) and r == glob_list[_i1] and not (r in reference_map)
                and all(any(hit(glob_list[i], reference_map, c) for i in range(0, _i1))
                        or any(c in reference_map[matched_refs[j]] for j in range(0, _i2)) for c in expanded_rule_set)
                and all(contributes(glob_list[i], reference_map, expanded_rule_set) for i in range(0, _i1))
                and all(c in expanded_rule_set for j in range(0, _i2) for c in reference_map[matched_refs[j]]))


# ================================================================== 2. RuleSet.rule_reference_map
from pyvc.ty import TDefaultDict  # noqa: E402
import z3 as _z3  # noqa: E402

Register = TDict(StrN, RuleManifest)
GroupMap = TDefaultDict(StrN, TSet(StrN), _z3.K(_z3.StringSort(), False))      # defaultdict(set)


@spec
def is_code(reg, k):
    """k is the code of a registered rule (the register is keyed by code)"""
    return k in reg


@spec
def is_name(reg, k):
    return len(k) > 0 and any(reg[c].name == k for c in reg.keys())


@spec
def is_group(reg, k):
    return any(k in reg[c].groups for c in reg.keys())


@spec
def is_alias(reg, k):
    return any(k in reg[c].aliases for c in reg.keys())


@spec(uninterpreted=True)
def owner(reg: Register, name: StrN) -> StrN:
    """the code of a registered rule with that name ("" when there is none)"""
    return next((c for c in sorted(reg) if reg[c].name == name), "")


@spec
def refers(reg, k, m):
    """rule m is one of the rules the reference k stands for; a string that is a reference of several kinds is read
    with the precedence codes > names > groups > aliases"""
    return ((m.code == k) if is_code(reg, k) else ((m.name == k) if is_name(reg, k)
            else ((k in m.groups) if is_group(reg, k) else (k in m.aliases))))


@contract(K_REFMAP, PROP)
class rule_reference_map:
    """keys = codes U names U groups U aliases; values by precedence codes > names > groups > aliases;
    map[code] == {code}; values are sets of codes."""
    types = {"self": RuleSet, "valid_codes": TSet(StrN), "reference_map": RefMap, "name_map": RefMap, "name_collisions": TSet(StrN),
             "group_map": GroupMap, "alias_map": GroupMap}
    ret = RefMap
    opts = {"timeout_ms": 8000, "max_unknown": 2, "alphabet": "AB1", "max_len": 2}

    def requires(self):
        reg = self._register
        # from the code: RuleSet.register stores each manifest under its own code (and refuses a second rule with the same code);
        # rule names are assumed unique (true of the bundled rules, checked on every run; NOT enforced by register())
        # (uniqueness stated through `owner`: every named rule is THE owner of its name)
        return (all(reg[c].code == c for c in reg.keys())
                and all(implies(len(reg[c].name) > 0, owner(reg, reg[c].name) == c) for c in reg.keys()))

    def ensures(self, result):
        reg = self._register
        return (
            # keys: nothing but references ...
            all(is_code(reg, k) or is_name(reg, k) or is_group(reg, k) or is_alias(reg, k) for k in result.keys())
            # ... and every reference
            and all(c in result for c in reg.keys())
            and all(implies(len(reg[c].name) > 0, reg[c].name in result) for c in reg.keys())
            and all(g in result for c in reg.keys() for g in reg[c].groups)
            and all(a in result for c in reg.keys() for a in reg[c].aliases)
            # values: exactly the rules the reference stands for, under the precedence codes > names > groups > aliases
            # (`refers`, spelled out kind by kind and direction by direction: one proof obligation each)
            and all(implies(is_code(reg, k) and c in result[k], reg[c].code == k) for k in result.keys() for c in reg.keys())
            and all(implies(is_code(reg, k) and reg[c].code == k, c in result[k]) for k in result.keys() for c in reg.keys())
            and all(implies(not is_code(reg, k) and is_name(reg, k) and c in result[k], reg[c].name == k)
                    for k in result.keys() for c in reg.keys())
            and all(implies(not is_code(reg, k) and is_name(reg, k) and reg[c].name == k, c in result[k])
                    for k in result.keys() for c in reg.keys())
            and all(implies(not is_code(reg, k) and not is_name(reg, k) and is_group(reg, k) and c in result[k], k in reg[c].groups)
                    for k in result.keys() for c in reg.keys())
            and all(implies(not is_code(reg, k) and not is_name(reg, k) and is_group(reg, k) and k in reg[c].groups, c in result[k])
                    for k in result.keys() for c in reg.keys())
            and all(implies(not is_code(reg, k) and not is_name(reg, k) and not is_group(reg, k) and c in result[k], k in reg[c].aliases)
                    for k in result.keys() for c in reg.keys())
            and all(implies(not is_code(reg, k) and not is_name(reg, k) and not is_group(reg, k) and k in reg[c].aliases, c in result[k])
                    for k in result.keys() for c in reg.keys())
            # values contain codes only
            and all(is_code(reg, c) for k in result.keys() for c in result[k])
            # map[code] == {code}
            and all(c in result[c] and all(d == c for d in result[c]) for c in reg.keys()))

    # group loop: what has been collected is sound (a, b); the rules already visited are covered (c)
    def inv_1(self, reference_map, group_map, _iter, _i):
        reg = self._register
        a = all(not (g in reference_map) and is_group(reg, g) for g in group_map.keys())
        b = all(c in reg and g in reg[c].groups for g in group_map.keys() for c in group_map[g])
        c = all(implies(not (g in reference_map), g in group_map and _iter[j].code in group_map[g])
                for j in range(0, _i) for g in _iter[j].groups)
        # checkpoint: what the map of codes and names (built before this loop, not written by it) is
        C = all(k in reference_map and k in reference_map[k] and all(d == k for d in reference_map[k]) for k in reg.keys())
        N1 = all(implies(len(reg[k].name) > 0, reg[k].name in reference_map) for k in reg.keys())
        N2 = all(implies(len(reg[k].name) > 0 and not (reg[k].name in reg), k in reference_map[reg[k].name]) for k in reg.keys())
        N3 = all(implies(len(reg[k].name) > 0 and not (reg[k].name in reg), d == k) for k in reg.keys() for d in reference_map[reg[k].name])
        K = all(k in reg or is_name(reg, k) for k in reference_map.keys())
        return a and b and c and C and N1 and N2 and N3 and K

    def inv_2(self, reference_map, group_map, manifest, _iter, _i2, _head1):
        reg = self._register
        H = _head1.group_map
        a = all(not (g in reference_map) and is_group(reg, g) for g in group_map.keys())
        b = all(c in reg and g in reg[c].groups for g in group_map.keys() for c in group_map[g])
        m = all(g in group_map for g in H.keys())      # the map only grows: keys ...
        m2 = all(c in group_map[g] for g in H.keys() for c in H[g])      # ... and values
        q = all(implies(not (_iter[k] in reference_map), _iter[k] in group_map and manifest.code in group_map[_iter[k]])
                for k in range(0, _i2))
        return a and b and m and m2 and q

    # alias loop: the same, over the map that already holds codes, names and groups
    def inv_3(self, reference_map, alias_map, _iter, _i):
        reg = self._register
        a = all(not (g in reference_map) and is_alias(reg, g) for g in alias_map.keys())
        b = all(c in reg and g in reg[c].aliases for g in alias_map.keys() for c in alias_map[g])
        c = all(implies(not (g in reference_map), g in alias_map and _iter[j].code in alias_map[g])
                for j in range(0, _i) for g in _iter[j].aliases)
        return a and b and c

    def inv_4(self, reference_map, alias_map, manifest, _iter, _i4, _head3):
        reg = self._register
        H = _head3.alias_map
        a = all(not (g in reference_map) and is_alias(reg, g) for g in alias_map.keys())
        b = all(c in reg and g in reg[c].aliases for g in alias_map.keys() for c in alias_map[g])
        m = all(g in alias_map for g in H.keys())
        m2 = all(c in alias_map[g] for g in H.keys() for c in H[g])
        q = all(implies(not (_iter[k] in reference_map), _iter[k] in alias_map and manifest.code in alias_map[_iter[k]])
                for k in range(0, _i4))
        return a and b and m and m2 and q


# ================================================================== 3. RuleSet.get_rulepack: the selection arithmetic
FluffConfig = ref_class("sqlfluff.core.config.fluffconfig:FluffConfig")
OptSels = TOpt(TList(StrN))


@spec(uninterpreted=True)
def cfg_list(cfg: FluffConfig, key: StrN) -> OptSels:
    """the value of a comma separated option as FluffConfig parsed it: a list of selectors, or None when the option is not
    given (config objects are not written by the code under contract)"""
    return cfg.get(key)


@external("sqlfluff.core.config.fluffconfig:FluffConfig.get", PROP)
class config_get:
    types = {"self": FluffConfig, "val": StrN, "section": StrN}
    ret = OptSels
    functional = True

    def requires(self, val, section="core", default=None):
        return val == "rule_allowlist" or val == "rule_denylist"

    def ensures(self, val, section="core", default=None, result=None):
        return result == cfg_list(self, val)


@spec
def given(sels):
    """the option configures at least one selector"""
    return sels is not None and len(sels) > 0


@spec
def wanted(config, m, c):
    """rule code c is selected by the configuration: matched by `rules` -- every rule when `rules` is not given -- and not
    matched by `exclude_rules`"""
    allow = cfg_list(config, "rule_allowlist")
    deny = cfg_list(config, "rule_denylist")
    a = selects(allow, m, c) if given(allow) else True
    d = selects(deny, m, c) if given(deny) else False
    return a and not d


@contract(BASE + "get_rulepack#selection", PROP)
class get_rulepack_selection:
    """the statements of get_rulepack that turn the two configured selector lists into the list of rule codes to instantiate"""
    region = ('allowlist = config.get("rule_allowlist") or list(valid_codes)', "instantiated_rules = []")
    region_params = ["self", "config", "valid_codes", "reference_map"]
    types = {"self": RuleSet, "config": FluffConfig, "valid_codes": TSet(StrN), "reference_map": RefMap,
             "allowlist": TList(StrN), "denylist": TList(StrN), "keylist": TList(StrN),
             "allowlisted_unknown_rule_codes": TList(StrN), "denylisted_unknown_rule_codes": TList(StrN),
             "expanded_allowlist": TSet(StrN), "expanded_denylist": TSet(StrN)}
    ghost_out = {"keylist": TList(StrN)}
    opts = {"timeout_ms": 4000, "max_unknown": 2}

    def requires(self, valid_codes, reference_map):
        # what the statements before the range establish (EXTRA obligation `get_rulepack-region-inputs` of c21.py checks that these
        # two locals are bound there, once, by exactly these expressions, and not written afterwards):
        #   valid_codes = set(self._register.keys());  reference_map = self.rule_reference_map()  [contract: map[code] == {code}]
        return (valid_codes == self._register.keys()
                and all(c in reference_map and c in reference_map[c] for c in valid_codes))

    def ensures(self, config, reference_map, keylist):
        codes = sorted(self._register.keys())
        # only registered rules that the configuration selects ...
        c1 = all(keylist[j] in self._register and wanted(config, reference_map, keylist[j]) for j in range(len(keylist)))
        # ... and every one of them
        c2 = all(implies(wanted(config, reference_map, c), c in keylist) for c in self._register.keys())
        # in the order of the sorted register (hence each once)
        c3 = all(implies(codes[i] == keylist[a] and codes[j] == keylist[b], i < j)
                 for a in range(len(keylist)) for b in range(a + 1, len(keylist)) for i in range(len(codes)) for j in range(len(codes)))
        return c1 and c2 and c3


# ================================================================== 4. Linter.lint_fix_parsed: the rule loop
from pyvc.dsl import inline, was  # noqa: E402
from pyvc.ty import SINK, TTuple, Text  # noqa: E402
from pyvc import exec as _X  # noqa: E402
from sqlfluff.core.linter.linter import Linter as _LinterCls  # noqa: E402  (value of the `cls` parameter)
from tqdm import tqdm as _tqdm  # noqa: E402

_X.ITER_WRAPPERS.append(_tqdm)     # TRUSTED: tqdm(iterable, ...) iterates exactly the elements of `iterable`, in order

Fix = TOpaque("LintFix")
SourceFixT = TOpaque("SourceFix")
Err = ref_class("sqlfluff.core.errors:SQLBaseError", fixes=TList(Fix))
# crawls / found are GHOST fields (they do not exist on the real objects): the number of crawl calls on the rule so far and the
# violations its last crawl returned; they are written by the assumed contract of BaseRule.crawl only
Rule = ref_class("sqlfluff.core.rules.base:BaseRule", code=StrN, name=StrN, lint_phase=StrN, is_fix_compatible=BOOL,
                 crawls=INT, found=TList(Err))
RulePack = ref_class("sqlfluff.core.rules.base:RulePack", rules=TList(Rule), reference_map=RefMap)
Tree = ref_class("sqlfluff.core.parser.segments.base:BaseSegment", raw=StrN, source_fixes=TList(SourceFixT))
AnchorInfo = ref_class("sqlfluff.core.linter.fix:AnchorEditInfo", fixes=TList(Fix))
AnchorMap = TDict(INT, AnchorInfo)
Version = TTuple(StrN, TList(SourceFixT))


@spec(uninterpreted=True)
def origin(e: Err) -> TOpt(Rule):
    """the rule object whose crawl produced the violation (SQLLintError.rule; None for errors that are not lint errors)"""
    return getattr(e, "rule", None)


@spec(uninterpreted=True)
def is_lint_error(e: Err) -> BOOL:
    from sqlfluff.core.errors import SQLLintError
    return isinstance(e, SQLLintError)


def _isinstance_err(ex, st, v, cls):
    from sqlfluff.core.errors import SQLLintError
    if cls is SQLLintError:
        return ex.apply_spec(st, is_lint_error, [v], {}).z
    raise _X.Unsupported(f"isinstance(<error>, {cls.__name__})")


_X.ISINSTANCE_HOOK["SQLBaseError"] = _isinstance_err


@spec(uninterpreted=True)
def info_valid(a: AnchorInfo) -> BOOL:
    return a.is_valid


@external("sqlfluff.core.linter.fix:AnchorEditInfo.is_valid", PROP)
class anchor_is_valid:
    types = {"self": AnchorInfo}
    ret = BOOL
    functional = True

    def ensures(self, result):
        return result == info_valid(self)


@external("sqlfluff.core.rules.base:BaseRule.crawl", PROP)
class rule_crawl:
    """ASSUMED of BaseRule.crawl (every violation it builds is SQLLintError(rule=self, ...): _process_lint_result /
    to_linting_error; confirmed dynamically by BOUNDED[2]); the ghost fields record the call."""
    types = {"self": Rule, "tree": Tree, "dialect": SINK, "fix": BOOL, "templated_file": SINK, "ignore_mask": SINK,
             "fname": SINK, "config": SINK}
    ret = TTuple(TList(Err), SINK, TList(Fix), SINK)
    modifies = ["self.crawls", "self.found"]

    def ensures(self, tree, dialect, fix, templated_file, ignore_mask, fname, config, result, old):
        return (self.crawls == old.self.crawls + 1 and self.found == result[0]
                and all(origin(result[0][i]) == self and is_lint_error(result[0][i]) for i in range(len(result[0]))))


@external("sqlfluff.core.linter.fix:compute_anchor_edit_info", PROP)
class compute_anchor_edit_info_c:
    types = {"fixes": TList(Fix)}
    ret = AnchorMap

    def ensures(fixes, result):
        return True


@external("sqlfluff.core.linter.fix:apply_fixes", PROP)
class apply_fixes_c:
    types = {"segment": Tree, "dialect": SINK, "rule_code": StrN, "fixes": AnchorMap, "max_parse_depth": SINK,
             "max_parse_nodes": SINK, "fix_even_unparsable": SINK}
    ret = TTuple(Tree, SINK, SINK, BOOL)

    def ensures(segment, dialect, rule_code, fixes, max_parse_depth, max_parse_nodes=0, fix_even_unparsable=False, result=None):
        return True


@external("time:monotonic")
class time_monotonic:
    types = {}
    ret = SINK

    def ensures(result):
        return True


@external("list.set_description")
class set_description:
    """tqdm.set_description on the progress bar (modelled as the list it wraps): display only"""
    types = {"self": TList(Rule), "desc": Text}

    def ensures(self, desc):
        return True


inline("sqlfluff.core.linter.linter:Linter._report_conflicting_fixes_same_anchor")
inline("sqlfluff.core.linter.linter:Linter._warn_unfixable")


@spec
def member(x, rules):
    return any(rules[i] == x for i in range(len(rules)))


@contract("sqlfluff.core.linter.linter:Linter.lint_fix_parsed#rule-loop", PROP)
class lint_fix_parsed_rule_loop:
    """the two-phase rule loop of lint_fix_parsed (all passes, lint and fix mode)"""
    region = ('phases = ["main"]', 'if config.get("ignore_templated_areas", default=True):')
    region_params = ["cls", "tree", "config", "rule_pack", "fix", "fname", "templated_file", "ignore_mask", "initial_linting_errors",
                     "last_fixes", "previous_versions", "rule_timings", "loop_limit", "save_tree", "others"]
    types = {"cls": _LinterCls, "tree": Tree, "config": SINK, "rule_pack": RulePack, "fix": BOOL, "fname": SINK, "templated_file": SINK,
             "ignore_mask": SINK, "initial_linting_errors": TList(Err), "last_fixes": TOpt(TList(Fix)),
             "previous_versions": TSet(Version), "rule_timings": SINK, "loop_limit": INT, "save_tree": Tree,
             "others": TList(Rule),
             "phases": TList(StrN), "rules_this_phase": TList(Rule), "changed": BOOL, "linting_errors": TList(Err), "fixes": TList(Fix),
             "anchor_info": AnchorMap, "message": Text, "new_tree": Tree}
    ghost_out = {"errs": ("initial_linting_errors", TList(Err))}
    opts = {"timeout_ms": 6000, "max_unknown": 2, "feas_timeout_ms": 100}

    def requires(rule_pack, fix, loop_limit):
        R = rule_pack.rules
        # assumptions about what precedes the range: get_rulepack instantiates one rule object per selected code (the members of a
        # pack are distinct objects); loop_limit = config.get("runaway_limit") if fix else 1 (EXTRA clause lint_fix_parsed-loop-limit),
        # and FluffConfig refuses a runaway_limit below 1 (core/config/validate.py: _validate_int_config(.., "runaway_limit", 1, ..))
        return (all(R[a] != R[b] for a in range(len(R)) for b in range(a + 1, len(R)))
                and loop_limit >= 1 and implies(not fix, loop_limit == 1))

    def ensures(rule_pack, fix, others, errs, old):
        R = rule_pack.rules
        E0 = old.initial_linting_errors
        # only members of the rule pack are crawled (`others`: any rule objects whatsoever) ...
        f1 = all(implies(not member(others[k], R), others[k].crawls == was(old, others[k]).crawls) for k in range(len(others)))
        # ... every member at least once; in lint mode exactly once
        f4 = all(R[i].crawls >= was(old, R[i]).crawls + 1 for i in range(len(R)))
        f5 = implies(not fix, all(R[i].crawls == was(old, R[i]).crawls + 1 for i in range(len(R))))
        # the violations found so far are kept, what is added comes from a crawl of a member of the pack ...
        f2 = len(errs) >= len(E0) and all(errs[k] == E0[k] for k in range(len(E0)))
        f3 = all(origin(errs[k]) is not None and member(origin(errs[k]), R) for k in range(len(E0), len(errs)))
        # ... and in lint mode nothing a member's crawl returned is left out
        f6 = implies(not fix, all(e in errs for i in range(len(R)) for e in R[i].found))
        return f1 and f4 and f5 and f2 and f3 and f6

    def inv_1(rule_pack, fix, others, initial_linting_errors, _i, old):
        R = rule_pack.rules
        E0 = old.initial_linting_errors
        errs = initial_linting_errors
        f1 = all(implies(not member(others[k], R), others[k].crawls == was(old, others[k]).crawls) for k in range(len(others)))
        m0 = all(R[i].crawls >= was(old, R[i]).crawls for i in range(len(R)))      # crawl counts never go down
        f2 = len(errs) >= len(E0) and all(errs[k] == E0[k] for k in range(len(E0)))
        f3 = all(origin(errs[k]) is not None and member(origin(errs[k]), R) for k in range(len(E0), len(errs)))
        g0 = implies(_i == 0, all(R[i].crawls == was(old, R[i]).crawls for i in range(len(R))))
        f4 = all(R[i].crawls >= was(old, R[i]).crawls + 1 for i in range(len(R)))
        f5 = implies(not fix, all(R[i].crawls == was(old, R[i]).crawls + 1 for i in range(len(R))))
        f6 = implies(not fix, all(e in errs for i in range(len(R)) for e in R[i].found))
        return m0 and f1 and f2 and f3 and g0 and implies(_i >= 1, f4 and f5 and f6)

    def inv_2(rule_pack, fix, others, initial_linting_errors, phases, phase, rules_this_phase, _i1, _i2, old):
        R = rule_pack.rules
        E0 = old.initial_linting_errors
        errs = initial_linting_errors
        f1 = all(implies(not member(others[k], R), others[k].crawls == was(old, others[k]).crawls) for k in range(len(others)))
        m0 = all(R[i].crawls >= was(old, R[i]).crawls for i in range(len(R)))      # crawl counts never go down
        f2 = len(errs) >= len(E0) and all(errs[k] == E0[k] for k in range(len(E0)))
        f3 = all(origin(errs[k]) is not None and member(origin(errs[k]), R) for k in range(len(E0), len(errs)))
        h0 = 0 <= _i1 < len(phases) and phase == phases[_i1]
        h1 = all(member(rules_this_phase[j], R) for j in range(len(rules_this_phase)))
        first = _i1 == 0 and _i2 == 0
        h2 = implies(first, all(R[i].crawls == was(old, R[i]).crawls for i in range(len(R))))
        f4 = all(R[i].crawls >= was(old, R[i]).crawls + 1 for i in range(len(R)))
        f5 = implies(not fix, all(R[i].crawls == was(old, R[i]).crawls + 1 for i in range(len(R))))
        f6 = implies(not fix, all(e in errs for i in range(len(R)) for e in R[i].found))
        return m0 and f1 and f2 and f3 and h0 and h1 and h2 and implies(not first, f4 and f5 and f6)

    def inv_3(rule_pack, fix, others, initial_linting_errors, phases, phase, _iter, _i1, _i2, _i3, old):
        R = rule_pack.rules
        E0 = old.initial_linting_errors
        errs = initial_linting_errors
        f1 = all(implies(not member(others[k], R), others[k].crawls == was(old, others[k]).crawls) for k in range(len(others)))
        m0 = all(R[i].crawls >= was(old, R[i]).crawls for i in range(len(R)))      # crawl counts never go down
        f2 = len(errs) >= len(E0) and all(errs[k] == E0[k] for k in range(len(E0)))
        f3 = all(origin(errs[k]) is not None and member(origin(errs[k]), R) for k in range(len(E0), len(errs)))
        h0 = 0 <= _i1 < len(phases) and phase == phases[_i1]
        k1 = all(member(_iter[j], R) for j in range(len(_iter)))
        first = _i1 == 0 and _i2 == 0
        # the first pass goes through the whole pack, in order: the members before position _i3 have been crawled
        k2 = implies(first, len(_iter) == len(R) and all(_iter[j] == R[j] for j in range(len(R)))
                     and all(R[i].crawls >= was(old, R[i]).crawls + 1 for i in range(0, _i3)))
        k3 = implies(first and not fix,
                     all(R[i].crawls == was(old, R[i]).crawls + 1 for i in range(0, _i3))
                     and all(e in errs for i in range(0, _i3) for e in R[i].found)
                     and all(R[i].crawls == was(old, R[i]).crawls for i in range(_i3, len(R))))
        f4 = all(R[i].crawls >= was(old, R[i]).crawls + 1 for i in range(len(R)))
        f5 = implies(not fix, all(R[i].crawls == was(old, R[i]).crawls + 1 for i in range(len(R))))
        f6 = implies(not fix, all(e in errs for i in range(len(R)) for e in R[i].found))
        return m0 and f1 and f2 and f3 and h0 and k1 and k2 and k3 and implies(not first, f4 and f5 and f6)

    def inv_4(rule_pack):
        return True

    def inv_5(rule_pack):
        return True

    def inv_6(rule_pack):
        return True

    def inv_7(rule_pack):
        return True
