"""C10 -- BOUNDED stand-ins and a syntactic EXTRA for the first line of defence (not proofs; labelled as such).

* first_line_on_real_fixes: the real linter is run (fix mode, all rules) over templated snippets; every call of
  BaseRule.discard_unsafe_fixes is recorded (fixes before, templated file, fixes after) and judged with the SAME spec
  functions the pyvc contracts use (contracts/c10_fix.py), plus the clauses about the block-index loop, which pyvc does
  not carry (iteration over a set, len of a set).
  Fixes that straddle a template comment / mid-block tag and survive the first line are an OBSERVATION (weaker defence
  in depth), not a failure; what IS C10 for exactly those inputs -- the tag / comment text is byte-identical and in order
  after lint_string(fix=True).fix_string() -- is a clause of this check.
* discard_on_built_results: the real discard_unsafe_fixes on small built results (bounded random).
* wiring (EXTRA, syntactic over the real AST): fixes reach the linter only through _process_lint_result, which calls
  discard_unsafe_fixes first unless the rule declares template_safe_fixes.
"""
import ast
import inspect
import random
import textwrap

from . import c10_fix as F

TAGS = ("block_start", "block_end")
OTHER = ("block_mid", "comment")
OBSERVATION = "first-line filter does not treat template comments / mid-block tags as conflicts; the last gate (generate_source_patches) skips the patch, so template code is unchanged; upstream logs 'Please report'"


def straddled_types(fix, tf):
    """slice types (other than literal / templated) of the source-extended, non-rendering slices strictly inside the
    anchor's templated range -- for delete / replace outside the documented exceptions (native helper)"""
    if fix.anchor.pos_marker is None or fix.edit_type not in ("delete", "replace"):
        return set()
    if F.explicit_source_edit(fix) or F.zero_src_replace(fix) or F.pure_source_only(fix):
        return set()
    a = fix.anchor.pos_marker.templated_slice
    return {e.slice_type for e in tf.sliced_file
            if e.slice_type not in ("literal", "templated") and e.source_slice.start < e.source_slice.stop
            and a.start < e.templated_slice.start and e.templated_slice.stop < a.stop}


def judge(before, tf, after):
    """clause name -> bool for one recorded call of discard_unsafe_fixes (None: clause not applicable)"""
    out = {}
    out["requires"] = bool(F.fixes_ok(before, tf))
    if not out["requires"]:
        return out
    conflict = any(F.must_conflict(f, tf) for f in before)
    st = set().union(*[straddled_types(f, tf) for f in before]) if before else set()
    out["conflict-drops-all"] = (after == []) if conflict else None
    out["all-or-nothing"] = (after == [] or (len(after) == len(before) and all(x is y for x, y in zip(after, before))))
    out["block-tag-straddle-drops-all"] = (after == []) if st & set(TAGS) else None
    return out


def survives_straddling(before, tf, after):
    """OBSERVATION (not a clause): a fix whose anchor straddles a template comment / mid-block tag survived the first line"""
    st = set().union(*[straddled_types(f, tf) for f in before]) if before else set()
    return bool(st & set(OTHER)) and after != []


CASES = [
    # a template comment / {% else %} strictly inside a segment that a rule replaces as a whole
    "select case when x is null {# c #} then y else x end as z from t\n",
    "select distinct(a {# c #}) from t\n",
    "select case when x is null then y {% if true %}else x{% else %}else 0{% endif %} end as z from t\n",
    # rendered expressions inside replaced segments
    "select case when x is null then {{ 'y' }} else x end as z from t\n",
    "select a from t where a = {{ 1 }} and b  =  2\n",
    "SELECT {{ 'a' }}  ,b from t\n",
    "select distinct({{ 'a' }} + 1) from t\n",
    "select case when x then {{ 'true' }} else false end from t\n",
    "select a from t as {{ 'u' }}\n",
    "select count({{ '1' }}) , count(*) from t\n",
    # block tags inside replaced segments
    "select case when x is null {% if true %}then y{% endif %} else x end as z from t\n",
    "select distinct(a {% if true %}+ 1{% endif %}) from t\n",
    "select coalesce(a, {% for i in [1] %}b{% endfor %}) from t order by a {# c #} , b desc\n",
    # plain literal neighbourhoods of template code (fixes must survive)
    "{% if true %}select a,b from t{% endif %}\n",
    "select a from t1 join t2 {# c #} using (a)\n",
    "select ifnull(a {# c #}, 0) from t\n",
    "{% set q = 1 %}select  a from t where x =1\n",
    "select a,{{ 'b' }} from t where not(a = 1)\n",
]
MORE = [
    "select case when x is null {#- c -#} then y else x end from t\n",
    "select case when x is null then y {%- if true %} else x {%- endif %} end from t\n",
    "select a {# c #} :: int from t\n",
    "select a from (select {# c #} b from t)\n",
    "select {{ 'a' }} from t where a  = 1 {# c #}\n",
    "select case when {{ 'x' }} is null then y else {{ 'x' }} end from t\n",
    "{% for i in [1, 2] %}select distinct(a) from t{{ i }};{% endfor %}\n",
    "select a from t where {% if true %}a = 1{% else %}b = 2{% endif %}\n",
]


def first_line_on_real_fixes(tier, seed):
    from sqlfluff.core import FluffConfig, Linter
    from sqlfluff.core.rules.base import BaseRule
    rec = []
    orig = inspect.getattr_static(BaseRule, "discard_unsafe_fixes")

    def recording(lint_result, templated_file):
        before = list(lint_result.fixes)
        orig.__func__(lint_result, templated_file)
        if templated_file is not None and before:
            rec.append((before, templated_file, list(lint_result.fixes)))
    import re
    tag = re.compile(r"\{\{.*?\}\}|\{%.*?%\}|\{#.*?#\}", re.S)
    cases = CASES + (MORE if tier == "thorough" else [])
    names = ["requires", "conflict-drops-all", "all-or-nothing", "block-tag-straddle-drops-all", "straddled-template-code-unchanged"]
    counts = {n: 0 for n in names}
    failed, samples, observations, ev = {}, [], [], 0

    def fail(n, detail):
        if n not in failed:
            failed[n] = {"name": f"C10/first-line/discard_unsafe_fixes/{n}", "id": f"C10/first-line/discard_unsafe_fixes/{n}",
                         "kind": "bounded", "status": "failed", "function": "sqlfluff.core.rules.base:BaseRule.discard_unsafe_fixes",
                         "detail": detail, "reproduced": True}
    BaseRule.discard_unsafe_fixes = staticmethod(recording)
    try:
        lnt = Linter(config=FluffConfig(overrides={"dialect": "ansi"}))
        for sql in cases:
            rec.clear()
            try:
                lf = lnt.lint_string(sql, fix=True)
                fixed = lf.fix_string()[0] if lf.tree is not None else None
            except Exception as e:     # a crash of the linter is another property's business
                samples.append({"source": sql, "linter_raised": repr(e)})
                continue
            straddled = set()
            for before, tf, after in rec:
                ev += 1
                straddled |= set().union(*[straddled_types(f, tf) for f in before])
                verdict = judge(before, tf, after)
                for n, ok in verdict.items():
                    if ok is None:
                        continue
                    counts[n] += 1
                    if not ok:
                        fail(n, {"source": sql, "fixes_offered": [repr(f) for f in before],
                                 "fixes_after_discard": [repr(f) for f in after],
                                 "raw_slices": [(r.slice_type, r.source_idx, r.raw) for r in tf.raw_sliced]})
                if survives_straddling(before, tf, after) and len(observations) < 4:
                    observations.append({"observation": OBSERVATION, "source": sql,
                                         "fix_kept_by_discard_unsafe_fixes": [repr(f) for f in after][:2],
                                         "straddled": sorted(set().union(*[straddled_types(f, tf) for f in before])),
                                         "fixed_string_end_to_end": fixed,
                                         "template_code_unchanged": fixed is not None and tag.findall(fixed) == tag.findall(sql)})
                if len(samples) < 3 and verdict.get("conflict-drops-all"):
                    samples.append({"source": sql, "dropped": [repr(f) for f in before][:2]})
            # THE PROPERTY for exactly these inputs: some offered fix straddles a template comment / mid-block tag / block tag
            # => every tag / expression / comment of the source is byte-identical and in order in the fixed output
            if straddled and fixed is not None:
                counts["straddled-template-code-unchanged"] += 1
                if tag.findall(fixed) != tag.findall(sql):
                    fail("straddled-template-code-unchanged",
                         {"source": sql, "fixed": fixed, "straddled": sorted(straddled), "tags_before": tag.findall(sql),
                          "tags_after": tag.findall(fixed),
                          "patches": [(p.patch_category, p.source_slice.start, p.source_slice.stop, p.fixed_raw)
                                      for p in (lf.source_patches or [])] if hasattr(lf, "source_patches") else None})
    finally:
        BaseRule.discard_unsafe_fixes = orig
    nontrivial = sum(counts[n] for n in names[1:] if n != "all-or-nothing")
    return {"name": "first-line-on-real-fixes", "bound": f"{len(cases)} templated snippets, all rules, every discard_unsafe_fixes call",
            "rule": "non-trivial = a recorded call in which a fix conflicts / straddles template code, or a snippet with a straddling fix",
            "evaluations": ev, "distinct_nontrivial": nontrivial, "clause_applications": counts, "samples": samples,
            "observations": observations, "failed": list(failed.values())}


def discard_on_built_results(tier, seed):
    """the real discard_unsafe_fixes on small built results: the conflict loop's contract (same clauses as the region
    contract) AND the block-index loop that pyvc does not carry"""
    from sqlfluff.core.rules.base import BaseRule, LintResult
    rng = random.Random(seed)
    n = 20000 if tier == "thorough" else 3000
    names = ["conflict-drops-all", "all-or-nothing", "block-tag-straddle-drops-all", "untouched-without-file"]
    counts = {k: 0 for k in names}
    failed, ev, observations = {}, 0, []
    for _ in range(n):
        tf = F._build_file(rng)
        fixes = [F._build_fix(rng, None, tf) for _ in range(rng.choice([1, 1, 2, 3]))]
        F._PENDING_TF[:] = []
        if not F.fixes_ok(fixes, tf):
            continue
        res = LintResult(anchor=fixes[0].anchor, fixes=list(fixes))
        if rng.random() < 0.1:
            BaseRule.discard_unsafe_fixes(res, None)
            ok = len(res.fixes) == len(fixes) and all(x is y for x, y in zip(res.fixes, fixes))
            verdict = {"untouched-without-file": ok}
        else:
            try:
                BaseRule.discard_unsafe_fixes(res, tf)
            except NotImplementedError:      # allowed by the contract (several source fixes)
                continue
            verdict = judge(fixes, tf, res.fixes)
            verdict.pop("requires", None)
            if len(observations) < 2:
                for f in fixes:
                    if F.straddles_template_code(f, tf) and not f.has_template_conflicts(tf):
                        observations.append({"observation": OBSERVATION, "has_template_conflicts": False, "fix": repr(f),
                                             "anchor_templated_slice": repr(f.anchor.pos_marker.templated_slice),
                                             "sliced_file": [tuple(e) for e in tf.sliced_file],
                                             "fixes_after_discard_unsafe_fixes": len(res.fixes)})
                        break
        ev += 1
        for k, ok in verdict.items():
            if ok is None:
                continue
            counts[k] += 1
            if not ok and k not in failed:
                failed[k] = {"name": f"C10/first-line/built/{k}", "id": f"C10/first-line/built/{k}", "kind": "bounded",
                             "status": "failed", "function": "sqlfluff.core.rules.base:BaseRule.discard_unsafe_fixes",
                             "detail": {"fixes": [repr(f) for f in fixes], "after": [repr(f) for f in res.fixes],
                                        "raw_slices": [(r.slice_type, r.source_idx, r.raw, r.block_idx) for r in tf.raw_sliced],
                                        "sliced_file": [tuple(e) for e in tf.sliced_file]}, "reproduced": True}
    return {"name": "discard-on-built-results", "bound": f"{n} random results of 1-3 fixes over files of <= 9 characters",
            "rule": "non-trivial = a result in which a fix conflicts or straddles a block tag", "evaluations": ev,
            "distinct_nontrivial": counts["conflict-drops-all"] + counts["block-tag-straddle-drops-all"],
            "clause_applications": counts, "samples": [], "observations": observations, "failed": list(failed.values())}


# ------------------------------------------------------------------ EXTRA: wiring (syntactic, over the real AST)
def wiring(tier, seed):
    """Syntactic obligations (NOT proofs of behaviour) on sqlfluff.core.rules.base.BaseRule:
    W1  _process_lint_result calls self.discard_unsafe_fixes(res, templated_file) -- under no other condition than
        `not self.template_safe_fixes` -- as a top-level statement BEFORE the first statement that reads `.fixes`;
    W2  in crawl, every list added to the returned `fixes` (`fixes += x`) is a local that is only ever filled by being
        passed to self._process_lint_result (no append / extend / assignment from a rule result besides the empty literal)."""
    from sqlfluff.core.rules.base import BaseRule
    fails, done = [], 0

    def fn_ast(f):
        return ast.parse(textwrap.dedent(inspect.getsource(f))).body[0]

    def fail(oid, why):
        fails.append({"name": oid, "id": oid, "kind": "syntactic", "status": "failed",
                      "function": "sqlfluff.core.rules.base:BaseRule", "detail": {"why": why}, "reproduced": True})
    # W1
    p = fn_ast(BaseRule._process_lint_result)
    params = [a.arg for a in p.args.args]
    gate_at = reads_at = None
    for i, s in enumerate(p.body):
        calls = [c for c in ast.walk(s) if isinstance(c, ast.Call) and isinstance(c.func, ast.Attribute)
                 and c.func.attr == "discard_unsafe_fixes"]
        if calls and gate_at is None:
            c = calls[0]
            args_ok = ([a.id for a in c.args if isinstance(a, ast.Name)] == params[1:3] and not c.keywords)
            direct = isinstance(s, ast.Expr) and s.value is c
            guarded = (isinstance(s, ast.If) and not s.orelse and len(s.body) == 1 and isinstance(s.body[0], ast.Expr)
                       and s.body[0].value is c and ast.unparse(s.test) == "not self.template_safe_fixes")
            if args_ok and (direct or guarded):
                gate_at = i
        if reads_at is None and any(isinstance(x, ast.Attribute) and x.attr == "fixes" for x in ast.walk(s)) and not calls:
            reads_at = i
    done += 1
    if gate_at is None or (reads_at is not None and reads_at < gate_at):
        fail("C10/wiring/process_lint_result-discards-first",
             "no top-level `self.discard_unsafe_fixes(res, templated_file)` (optionally under `if not self.template_safe_fixes`) "
             "before the first statement of _process_lint_result that reads `.fixes`")
    # W2
    c = fn_ast(BaseRule.crawl)
    added = set()
    for n in ast.walk(c):
        if isinstance(n, ast.AugAssign) and isinstance(n.target, ast.Name) and n.target.id == "fixes":
            if isinstance(n.value, ast.Name):
                added.add(n.value.id)
            else:
                added.add("<expression: %s>" % ast.unparse(n.value))
    bad = []
    for name in sorted(added):
        if name.startswith("<"):
            bad.append(name)
            continue
        for n in ast.walk(c):
            if isinstance(n, ast.Call) and isinstance(n.func, ast.Attribute) and isinstance(n.func.value, ast.Name) \
                    and n.func.value.id == name and n.func.attr in ("append", "extend", "insert", "__iadd__"):
                bad.append(f"{name}.{n.func.attr}(...)")
            if isinstance(n, (ast.Assign, ast.AnnAssign)):
                tgts = n.targets if isinstance(n, ast.Assign) else [n.target]
                if any(isinstance(t, ast.Name) and t.id == name for t in tgts) and n.value is not None \
                        and not (isinstance(n.value, ast.List) and not n.value.elts):
                    bad.append(f"{name} = {ast.unparse(n.value)}")
            if isinstance(n, ast.AugAssign) and isinstance(n.target, ast.Name) and n.target.id == name:
                bad.append(f"{name} += ...")
        passed = [k for k in ast.walk(c) if isinstance(k, ast.Call) and isinstance(k.func, ast.Attribute)
                  and k.func.attr == "_process_lint_result" and any(isinstance(a, ast.Name) and a.id == name for a in k.args)]
        if not passed:
            bad.append(f"{name} is never passed to _process_lint_result")
    done += 1
    if bad or not added:
        fail("C10/wiring/crawl-collects-fixes-through-process_lint_result",
             "fix lists added to the returned fixes that are (also) filled elsewhere: " + "; ".join(bad or ["no `fixes += <list>` found"]))
    return {"name": "first-line-wiring", "obligations": done, "discharged": done - len(fails), "failed": fails,
            "backend": "python ast pattern check of the real source (syntactic, not a proof)",
            "trusted": ["wiring obligations W1/W2 are syntactic: they show where discard_unsafe_fixes is called, not what the rules return"],
            "samples": [{"obligation": "C10/wiring/process_lint_result-discards-first", "backend": "python ast", "time_s": 0.0}]}
