"""C23 -- reported violation positions are accurate (kernel).   Functions under contract:
   sqlfluff.core.templaters.base: TemplatedFile.source_position_dict_from_slice
   sqlfluff.core.parser.markers:  PositionMarker.source_position, PositionMarker.to_source_dict
   sqlfluff.core.errors:          SQLBaseError.__init__, SQLBaseError.to_dict, SQLLintError.to_dict, SQLParseError.to_dict
   sqlfluff.core.rules.fix:       LintFix.to_dict
   sqlfluff.cli.commands:         lint#github-annotation  (region contract: the `--format github-annotation` branch)
The offset -> (line, col) conversion itself is C31 (`pos`); here every *reporting* function is shown to report
exactly pos(source, offset) for the offset it names, and offsets/line/col to agree with each other.
Bounded / dynamic (labelled, contracts/c23_bounded.py): the real `lint` command per --format (json, yaml, github-annotation,
github-annotation-native, sarif) over generated files: every emitted position == the record's, inside the file, offsets agree.
"""
from pyvc.dsl import contract, external, spec, lemma, implies, inline, ref_class, rec_class
from pyvc.ty import INT, BOOL, Text, StrA, TList, TTuple, TOpt, TRec, SLICE
from pyvc import replay as _replay

from .types import TemplatedFile, SQLBaseError
from .c31 import cnt, lastnl, pos, is_nl_enum, L_rank  # noqa: F401  (spec vocabulary of C31)
from . import c31 as _c31

PROP = "C23"

PositionMarker = rec_class("sqlfluff.core.parser.markers:PositionMarker", source_slice=SLICE, templated_slice=SLICE,
                           templated_file=TemplatedFile, working_line_no=INT, working_line_pos=INT)
SourceFix = rec_class("sqlfluff.core.parser.segments.base:SourceFix", edit=Text, source_slice=SLICE, templated_slice=SLICE)
BaseSegment = ref_class("sqlfluff.core.parser.segments.base:BaseSegment", pos_marker=TOpt(PositionMarker), raw=Text,
                        source_fixes=TList(SourceFix))
BaseRule = ref_class("sqlfluff.core.rules.base:BaseRule", code=Text, name=Text)
LintFix = ref_class("sqlfluff.core.rules.fix:LintFix", edit_type=Text, anchor=BaseSegment, edit=TOpt(TList(BaseSegment)))
SQLBaseError2 = ref_class("sqlfluff.core.errors:SQLBaseError", line_no=INT, line_pos=INT, fatal=BOOL, ignore=BOOL,
                          warning=BOOL, description=TOpt(Text))
SQLLintError = ref_class("sqlfluff.core.errors:SQLLintError", base="SQLBaseError", segment=TOpt(BaseSegment), rule=BaseRule,
                         fixes=TList(LintFix))
SQLParseError = ref_class("sqlfluff.core.errors:SQLParseError", base="SQLBaseError", segment=TOpt(BaseSegment))

PosDict = TRec("PosDict", {"start_line_no": INT, "start_line_pos": INT, "start_file_pos": INT,
                           "end_line_no": INT, "end_line_pos": INT, "end_file_pos": INT}, is_dict=True)
FixDict = TRec("FixDict", {"type": Text, "edit": Text, "start_line_no": INT, "start_line_pos": INT, "start_file_pos": INT,
                           "end_line_no": INT, "end_line_pos": INT, "end_file_pos": INT}, is_dict=True)

inline("sqlfluff.core.errors:_extract_position")
inline("sqlfluff.core.parser.markers:PositionMarker.is_literal")
inline("sqlfluff.core.parser.markers:PositionMarker.slice_is_point")
inline("sqlfluff.core.parser.markers:PositionMarker.is_point")


# ------------------------------------------------------------------ specification
@spec
def tf_inv(tf):
    """class invariant of TemplatedFile (established by __init__, C07/C31)"""
    return is_nl_enum(tf.source_str, tf._source_newlines) and is_nl_enum(tf.templated_str, tf._templated_newlines)


@spec
def in_src(tf, sl):
    return 0 <= sl.start <= sl.stop <= len(tf.source_str)


@spec
def agrees(src, d):
    """machine-readable offsets agree with the reported line/column (both ends)"""
    return ((d["start_line_no"], d["start_line_pos"]) == pos(src, d["start_file_pos"])
            and (d["end_line_no"], d["end_line_pos"]) == pos(src, d["end_file_pos"]))


# lemmas for "the position lies within the file"
@lemma(measure=lambda s, x, y: y - x, hyps=lambda s, x, y: ((s, x, y - 1),), props=(PROP,))
def L_cnt_mono(s: StrA, x: INT, y: INT):
    return implies(0 <= x <= y, cnt(s, x) <= cnt(s, y))


@lemma(measure=lambda s, x: x, hyps=lambda s, x: ((s, x - 1),), props=(PROP,))
def L_cnt_nonneg(s: StrA, x: INT):
    return 0 <= cnt(s, x)


@lemma(measure=lambda s, x: x, hyps=lambda s, x: ((s, x - 1),), props=(PROP,))
def L_lastnl_lt(s: StrA, x: INT):
    return -1 <= lastnl(s, x) and (lastnl(s, x) < x or x <= 0)


# ------------------------------------------------------------------ contracts
@contract("sqlfluff.core.templaters.base:TemplatedFile.source_position_dict_from_slice", PROP)
class source_position_dict_from_slice:
    types = {"self": TemplatedFile, "source_slice": SLICE}
    ret = PosDict

    def requires(self, source_slice):
        return tf_inv(self) and in_src(self, source_slice)

    def ensures(self, source_slice, result):
        return (result["start_file_pos"] == source_slice.start and result["end_file_pos"] == source_slice.stop
                and agrees(self.source_str, result)
                # within the file: 1 <= line <= number of lines, column >= 1
                and 1 <= result["start_line_no"] <= 1 + cnt(self.source_str, len(self.source_str))
                and 1 <= result["end_line_no"] <= 1 + cnt(self.source_str, len(self.source_str))
                and 1 <= result["start_line_pos"] and 1 <= result["end_line_pos"])

    def hint_post(self, source_slice, result):
        return (L_cnt_mono(self.source_str, source_slice.start, len(self.source_str))
                and L_cnt_mono(self.source_str, source_slice.stop, len(self.source_str))
                and L_cnt_nonneg(self.source_str, source_slice.start) and L_cnt_nonneg(self.source_str, source_slice.stop)
                and L_lastnl_lt(self.source_str, source_slice.start) and L_lastnl_lt(self.source_str, source_slice.stop))


@contract("sqlfluff.core.parser.markers:PositionMarker.source_position", PROP)
class source_position:
    types = {"self": PositionMarker}
    ret = TTuple(INT, INT)
    functional = True

    def requires(self):
        return tf_inv(self.templated_file) and in_src(self.templated_file, self.source_slice)

    def ensures(self, result):
        return result == pos(self.templated_file.source_str, self.source_slice.start)


@contract("sqlfluff.core.parser.markers:PositionMarker.to_source_dict", PROP)
class to_source_dict:
    types = {"self": PositionMarker}
    ret = PosDict

    def requires(self):
        return tf_inv(self.templated_file) and in_src(self.templated_file, self.source_slice)

    def ensures(self, result):
        return (result["start_file_pos"] == self.source_slice.start and result["end_file_pos"] == self.source_slice.stop
                and agrees(self.templated_file.source_str, result))


@external("sqlfluff.core.errors:SQLBaseError.desc", PROP)
class desc:
    """assumed: returns a text; no effect on tracked state (overrides included)"""
    types = {"self": SQLBaseError}
    ret = Text

    def ensures(self, result):
        return True


@external("sqlfluff.core.errors:SQLBaseError.rule_code", PROP)
class rule_code:
    types = {"self": SQLBaseError}
    ret = Text

    def ensures(self, result):
        return True


@external("sqlfluff.core.templaters.base:TemplatedFile.is_source_slice_literal", PROP)
class is_source_slice_literal:
    """havoc: any boolean, no effect"""
    types = {"self": TemplatedFile, "source_slice": SLICE}
    ret = BOOL

    def ensures(self, source_slice, result):
        return True


@contract("sqlfluff.core.errors:SQLBaseError.__init__", PROP)
class base_init:
    types = {"self": SQLBaseError, "description": TOpt(Text), "pos": TOpt(PositionMarker), "line_no": INT, "line_pos": INT,
             "ignore": BOOL, "fatal": BOOL, "warning": TOpt(BOOL)}

    def requires(self, description, pos, line_no, line_pos, ignore, fatal, warning):
        return (True if pos is None else (tf_inv(pos.templated_file) and in_src(pos.templated_file, pos.source_slice)))

    def ensures(self, description, pos, line_no, line_pos, ignore, fatal, warning, result):
        # NB: inside this clause `pos` the parameter shadows the spec function, hence pos_of
        return ((self.line_no, self.line_pos) == (line_no, line_pos) if pos is None
                else (self.line_no, self.line_pos) == pos_of(pos.templated_file.source_str, pos.source_slice.start))


@spec
def pos_of(s, x):
    return (1 + cnt(s, x), x - lastnl(s, x))


@contract("sqlfluff.core.errors:SQLBaseError.to_dict", PROP)
class base_to_dict:
    types = {"self": SQLBaseError}
    opts = {"inline_at_calls": True}

    def ensures(self, result):
        return result["start_line_no"] == self.line_no and result["start_line_pos"] == self.line_pos


@contract("sqlfluff.core.rules.fix:LintFix.is_just_source_edit", PROP)
class is_just_source_edit:
    types = {"self": LintFix, "single_source_fix": BOOL}
    ret = BOOL

    def ensures(self, single_source_fix, result):
        return implies(result and single_source_fix,
                       self.edit is not None and len(self.edit) == 1 and len(self.edit[0].source_fixes) == 1)


@spec(opaque=True)
def fix_wf(f):
    """position facts of a fix that its creators guarantee (anchor has a marker inside its file; source fixes in bounds)"""
    return (f.anchor.pos_marker is not None
            and tf_inv(f.anchor.pos_marker.templated_file)
            and in_src(f.anchor.pos_marker.templated_file, f.anchor.pos_marker.source_slice)
            and (True if f.edit is None else
                 all(all(in_src(f.anchor.pos_marker.templated_file, f.edit[a].source_fixes[b].source_slice)
                         for b in range(len(f.edit[a].source_fixes))) for a in range(len(f.edit)))))


@contract("sqlfluff.core.rules.fix:LintFix.to_dict", PROP)
class lintfix_to_dict:
    types = {"self": LintFix, "_edit": Text}
    ret = FixDict
    functional = True

    def requires(self):
        return fix_wf(self)

    def ensures(self, result):
        return agrees(self.anchor.pos_marker.templated_file.source_str, result)


@contract("sqlfluff.core.errors:SQLLintError.to_dict", PROP)
class linterror_to_dict:
    types = {"self": SQLLintError}
    raises = {"AssertionError": None}

    def requires(self):
        return (all(fix_wf(self.fixes[i]) for i in range(len(self.fixes)))
                # all markers involved refer to one file
                and all(implies(self.segment is not None and self.segment.pos_marker is not None,
                                self.fixes[i].anchor.pos_marker.templated_file is self.segment.pos_marker.templated_file)
                        for i in range(len(self.fixes)))
                and (True if self.segment is None or self.segment.pos_marker is None else
                     (tf_inv(self.segment.pos_marker.templated_file)
                      and in_src(self.segment.pos_marker.templated_file, self.segment.pos_marker.source_slice)
                      # established by SQLBaseError.__init__ (contract above)
                      and (self.line_no, self.line_pos) == pos(self.segment.pos_marker.templated_file.source_str,
                                                                 self.segment.pos_marker.source_slice.start))))

    def ensures(self, result):
        src = (self.segment.pos_marker.templated_file.source_str
               if self.segment is not None and self.segment.pos_marker is not None
               else (self.fixes[0].anchor.pos_marker.templated_file.source_str if len(self.fixes) > 0 else ""))
        return (result["start_line_no"] == self.line_no and result["start_line_pos"] == self.line_pos
                and (("start_file_pos" not in result)
                     or (result["start_line_no"], result["start_line_pos"]) == pos(src, result["start_file_pos"]))
                and (("end_file_pos" not in result)
                     or (result["end_line_no"], result["end_line_pos"]) == pos(src, result["end_file_pos"])))


@contract("sqlfluff.core.errors:SQLParseError.to_dict", PROP)
class parseerror_to_dict:
    types = {"self": SQLParseError}
    raises = {"AssertionError": None}

    def requires(self):
        return (True if self.segment is None or self.segment.pos_marker is None else
                (tf_inv(self.segment.pos_marker.templated_file)
                 and in_src(self.segment.pos_marker.templated_file, self.segment.pos_marker.source_slice)
                 and (self.line_no, self.line_pos) == pos(self.segment.pos_marker.templated_file.source_str,
                                                            self.segment.pos_marker.source_slice.start)))

    def ensures(self, result):
        return (result["start_line_no"] == self.line_no and result["start_line_pos"] == self.line_pos
                and (("start_file_pos" not in result)
                     or ((result["start_line_no"], result["start_line_pos"])
                         == pos(self.segment.pos_marker.templated_file.source_str, result["start_file_pos"])
                         and (result["end_line_no"], result["end_line_pos"])
                         == pos(self.segment.pos_marker.templated_file.source_str, result["end_file_pos"]))))


TRUSTED = ["SQLBaseError.desc / rule_code / LintFix.is_just_source_edit: assumed effect-free (havocked results)",
           "LintFix.to_dict is a deterministic function of the fix while SQLLintError.to_dict runs (no heap writes there)",
           "region contract lint#github-annotation: `result` is the LintingResult of the run and `annotation_level` a text; "
           "LintingResult.as_records() returns dict records {filepath, violations: [dict]} whose violations always carry "
           "start_line_no/start_line_pos (ints) and MAY carry end_line_no/end_line_pos (assumed shape; the position content "
           "of those dicts is what the to_dict contracts establish); json.dumps serialises faithfully"]
NOT_COVERED = ["that token source slices are in bounds (premise in_src) comes from C01/C02; TMP errors carrying a line number "
               "from jinja2 are external (the bounded CLI check below does look at them)",
               "`lint` --format github-annotation-native (positions rendered into f-strings: pyvc drops f-string text) and "
               "--format sarif (nested dict literals mutated through aliases: structural dicts are values in pyvc): NOT proved, "
               "bounded dynamic check `cli-output-formats` only; json / yaml are json.dumps / yaml.dump of as_records() "
               "(library serialisers trusted; compared end to end by the same bounded check)",
               "human-readable output (OutputStreamFormatter.format_violation) is string formatting of line_no / line_pos"]
MUTANTS = [
    # seed C23_C: newline table built with str.splitlines (also breaks on U+2028, FF, VT, NEL, FS/GS/RS, U+2029)
    ("newline_table_from_splitlines", "sqlfluff/core/templaters/base.py",
     "    init_idx = -1\n    while True:\n        nl_pos = raw_str.find(\"\\n\", init_idx + 1)\n        if nl_pos >= 0:\n            yield nl_pos\n"
     "            init_idx = nl_pos\n        else:\n            break  # pragma: no cover TODO?\n",
     "    pos = 0\n    lines = raw_str.splitlines(keepends=True)\n    for line in lines[:-1]:\n        pos += len(line)\n        yield pos - 1\n"
     "    if lines and lines[-1] != lines[-1].rstrip(\"\\n\"):\n        yield pos + len(lines[-1]) - 1\n"),
    ("dict_end_uses_start", "sqlfluff/core/templaters/base.py", "stop = self.get_line_pos_of_char_pos(source_slice.stop, source=True)", "stop = self.get_line_pos_of_char_pos(source_slice.start, source=True)"),
    ("dict_templated_space", "sqlfluff/core/templaters/base.py", "start = self.get_line_pos_of_char_pos(source_slice.start, source=True)", "start = self.get_line_pos_of_char_pos(source_slice.start, source=False)"),
    ("marker_uses_templated_slice", "sqlfluff/core/parser/markers.py", "            self.source_slice.start, source=True\n", "            self.templated_slice.start, source=True\n"),
    ("error_swaps_line_pos", "sqlfluff/core/errors.py", "            self.line_no, self.line_pos = pos.source_position()", "            self.line_pos, self.line_no = pos.source_position()"),
    ("hoist_wrong_key", "sqlfluff/core/errors.py", '                    _base_dict[key] = _fix[key]', '                    _base_dict[key] = _fix["start_file_pos"] if key == "end_file_pos" else _fix[key]'),
    ("fix_create_after_mixed", "sqlfluff/core/rules/fix.py", '            _src_loc["start_line_pos"] = _src_loc["end_line_pos"]', '            _src_loc["start_line_pos"] = _src_loc["start_line_pos"]'),
    ("gh_annotation_end_line_is_start", "sqlfluff/cli/commands.py", '                        "end_line": violation.get(\n                            "end_line_no", violation["start_line_no"]\n                        ),', '                        "end_line": violation["start_line_no"],'),
    ("gh_annotation_columns_swapped", "sqlfluff/cli/commands.py", '                        "start_column": violation["start_line_pos"],\n                        # NOTE: There should', '                        "start_column": violation["start_line_no"],\n                        # NOTE: There should'),
    ("gh_annotation_skips_first", "sqlfluff/cli/commands.py", '            filepath = record["filepath"]\n            for violation in record["violations"]:\n                # NOTE: The output format is designed for this GitHub action:', '            filepath = record["filepath"]\n            for violation in record["violations"][1:]:\n                # NOTE: The output format is designed for this GitHub action:'),
    ("gh_native_endline_from_start", "sqlfluff/cli/commands.py", """line += f",endLine={violation['end_line_no']}\"""", """line += f",endLine={violation['start_line_no']}\""""),
    ("sarif_endcolumn_from_start", "sqlfluff/cli/commands.py", 'region["endColumn"] = violation["end_line_pos"]', 'region["endColumn"] = violation["start_line_pos"]'),
    ("sarif_end_dropped_alias", "sqlfluff/cli/commands.py", '                    region["endLine"] = violation["end_line_no"]', '                    region = dict(region)\n                    region["endLine"] = violation["end_line_no"]'),
    ("fix_create_before_filepos", "sqlfluff/core/rules/fix.py", '            _src_loc["end_file_pos"] = _src_loc["start_file_pos"]', '            _src_loc["end_file_pos"] = _src_loc["end_file_pos"]'),
]


# ------------------------------------------------------------------ CLI output formats built inside `lint` (region contracts)
# The click command `lint` builds three machine-readable formats from LintingResult.as_records().  The property's clause
# for them: every emitted annotation/result carries exactly the record's positions (end falls back to the start only
# when the record has no end), one output entry per violation record, in order.
from pyvc.dsl import dict_class  # noqa: E402

# a serialised violation (what SQLBaseError.to_dict / SQLLintError.to_dict above return): the end keys may be absent
ViolationRec = dict_class("C23ViolationRecord", start_line_no=INT, start_line_pos=INT, end_line_no=TOpt(INT),
                          end_line_pos=TOpt(INT), code=Text, description=Text, warning=BOOL)
FileRec = TRec("C23FileRecord", {"filepath": Text, "violations": TList(ViolationRec)}, is_dict=True)
GithubAnnotation = TRec("C23GithubAnnotation", {"file": Text, "start_line": INT, "start_column": INT, "end_line": INT,
                                                "end_column": INT, "title": Text, "message": Text,
                                                "annotation_level": Text}, is_dict=True)
LintingResult = ref_class("sqlfluff.core.linter.linting_result:LintingResult")


@spec(uninterpreted=True)
def recs_of(r: LintingResult) -> TList(FileRec):
    """the serialised records of a linting result (one per file, each with its violations in reporting order)"""
    return r.as_records()


@external("sqlfluff.core.linter.linting_result:LintingResult.as_records", PROP)
class as_records:
    """assumed: the records are a function of the result; their position content is what the to_dict contracts above
    establish (LintedFile.get_violations -> SQLBaseError.to_dict)"""
    types = {"self": LintingResult}
    ret = TList(FileRec)

    def ensures(self, result):
        return result == recs_of(self)


@external("json:dumps", PROP)
class json_dumps:
    """assumed: serialises the value it is given faithfully (no effect on it)"""
    types = {"obj": TList(GithubAnnotation)}
    ret = Text

    def ensures(obj, result):
        return True


@spec(recursive=True)
def nviol(recs: TList(FileRec), k: INT) -> INT:
    """number of violation records in the first k file records"""
    return 0 if k <= 0 else nviol(recs, k - 1) + len(recs[k - 1]["violations"])


@spec
def ann_carries(a, filepath, v):
    """the property's clause for one annotation: exactly the record's positions; the end falls back to the start only
    when the record has no end"""
    return (a["file"] == filepath
            and a["start_line"] == v["start_line_no"] and a["start_column"] == v["start_line_pos"]
            and a["end_line"] == v.get("end_line_no", v["start_line_no"])
            and a["end_column"] == v.get("end_line_pos", v["start_line_pos"]))


@contract("sqlfluff.cli.commands:lint#github-annotation", PROP)
class lint_github_annotation:
    # anchored at the first statement of the `--format github-annotation` branch (before the loops the clause is about)
    region = ('if annotation_level == "error":', None)
    region_params = ["annotation_level", "result"]
    types = {"annotation_level": Text, "result": LintingResult, "github_result": TList(GithubAnnotation)}
    # `lint_result`: the local called `result` (a reserved name in ensures); it is never reassigned in the range
    ghost_out = {"github_result": TList(GithubAnnotation), "lint_result": ("result", LintingResult)}

    def ensures(annotation_level, lint_result, github_result):
        recs = recs_of(lint_result)
        return (len(github_result) == nviol(recs, len(recs))          # one entry per violation record ...
                # ... in order (file by file, violation by violation), each carrying its record's positions
                and all(all(ann_carries(github_result[nviol(recs, r) + j], recs[r]["filepath"], recs[r]["violations"][j])
                            for j in range(len(recs[r]["violations"])))
                        for r in range(len(recs))))

    def inv_1(result, github_result, _i, _iter):
        recs = recs_of(result)
        return (_iter == recs and len(github_result) == nviol(recs, _i)
                and all(0 <= nviol(recs, r) and nviol(recs, r) + len(recs[r]["violations"]) <= nviol(recs, _i) for r in range(0, _i))
                and all(all(ann_carries(github_result[nviol(recs, r) + j], recs[r]["filepath"], recs[r]["violations"][j])
                            for j in range(len(recs[r]["violations"])))
                        for r in range(0, _i)))

    def inv_2(result, github_result, record, filepath, _i1, _i):
        recs = recs_of(result)
        return (0 <= _i1 < len(recs) and record == recs[_i1] and filepath == record["filepath"]
                and 0 <= nviol(recs, _i1) and len(github_result) == nviol(recs, _i1) + _i
                and all(0 <= nviol(recs, r) and nviol(recs, r) + len(recs[r]["violations"]) <= nviol(recs, _i1) for r in range(0, _i1))
                and all(all(ann_carries(github_result[nviol(recs, r) + j], recs[r]["filepath"], recs[r]["violations"][j])
                            for j in range(len(recs[r]["violations"])))
                        for r in range(0, _i1))
                and all(ann_carries(github_result[nviol(recs, _i1) + j], filepath, recs[_i1]["violations"][j])
                        for j in range(0, _i)))


# ------------------------------------------------------------------ bounded stand-in: every --format of the real command
from .c23_bounded import cli_formats  # noqa: E402

BOUNDED = [cli_formats]
