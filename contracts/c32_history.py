"""C32 (repeatability half), part 3 -- BOUNDED stand-in for the history property itself (labelled bounded, not proved).

"Repeating a lint of the same inputs, in the same process or a new one and after any other files have been linted, gives
identical violations" -- and no input file is modified.

  reference   every operation (lint_string / lint_paths of a file / lint_paths of a directory / parse_string on one pool input
              under one config) is run ALONE in a FRESH PYTHON PROCESS (a subprocess started for that one operation; a new
              `Linter` in a warm process is not a fresh process for class-level or module-level state).
  histories   worker subprocesses run random and directed sequences of lint_string / lint_paths / lint_path / parse_string /
              parse_path / render_string / render_file / lint_string(fix=True) over the pool, 2-8 operations each, never
              resetting anything between histories (so every operation also runs after everything the worker did before), with
              one long-lived Linter per config or a new one per operation (chosen per history).
  verdict     every lint / parse in every history must report exactly the reference violations of the same operation:
              sorted (rule code, line, position, description, warning flag, fixes as text); the sha256 of every file of the
              input tree must be unchanged at the end; BlockTracker's class-level stack must be empty after every operation.

This file is also the child program (`python -P c32_history.py --child ...`): it imports nothing but the standard library and
sqlfluff, so that a reference process contains nothing but one operation.
"""
from __future__ import annotations

import hashlib
import json
import os
import random
import subprocess
import sys
import tempfile
import time

PROP = "C32"

# ------------------------------------------------------------------------------------------------ configs (for string inputs)
JINJA_CTX = {"jinja": {"context": {"somevar": "col_a", "tbl": "my_table"}}}
CONFIGS = {
    "ansi": {"core": {"dialect": "ansi"}},
    "ansi_jinja": {"core": {"dialect": "ansi", "templater": "jinja"}, "templater": JINJA_CTX},
    "pg_rules": {"core": {"dialect": "postgres", "rules": "LT01,LT02,CP01,CP02,AL01,RF04", "warnings": "LT02"},
                 "rules": {"capitalisation.keywords": {"capitalisation_policy": "upper"}}},
    "placeholder": {"core": {"dialect": "ansi", "templater": "placeholder"},
                    "templater": {"placeholder": {"param_style": "colon", "val": "42"}}},
    "strict_noqa": {"core": {"dialect": "ansi", "disable_noqa_except": "LT01"}},
    "bq_warn": {"core": {"dialect": "bigquery", "warnings": "LT01,LT12", "ignore": "templating", "templater": "jinja"}},
}

UNPARSABLE_GLOB = "SELECT a FROM tbl WHERE AND  -- noqa: PR*\n"
INLINE_RULES = ("-- sqlfluff:rules:CP01\n-- sqlfluff:rules:capitalisation.keywords:capitalisation_policy:upper\n"
                "select a,b from tbl\n")
PLAIN = "select a,b from tbl\n"
# (id, config, fname, sql)
STRINGS = [
    ("s_plain", "ansi", "<string>", PLAIN),
    ("s_plain_pg", "pg_rules", "<string>", PLAIN),
    ("s_unparsable_glob", "ansi", "<string>", UNPARSABLE_GLOB),
    ("s_noqa_q", "ansi", "<string>", "select a  from t -- noqa: LT0?\nselect b  from t\n"),
    ("s_inline_rules", "ansi", "<string>", INLINE_RULES),
    ("s_inline_dialect", "ansi", "<string>", "-- sqlfluff:dialect:postgres\nselect a::int, b  from t\n"),
    ("s_tsql_in_ansi", "ansi", "<string>", "SELECT TOP 1 a FROM t\n"),
    ("s_jinja_if", "ansi_jinja", "<string>", "{% if true %}\nselect 1\n{% endif %}\n"),
    ("s_jinja_ifelse", "ansi_jinja", "<string>", "{% if true %}\nselect   2\n{% else %}\n  select 3\n{% endif %}\n"),
    ("s_jinja_for", "ansi_jinja", "<string>", "{% for c in ['a', 'b'] %}\nselect {{ c }} from t;\n{% endfor %}\n"),
    ("s_jinja_ctx", "ansi_jinja", "<string>", "select {{ somevar }} ,b from {{ tbl }}\n"),
    ("s_jinja_undefined", "ansi_jinja", "<string>", "select {{ nope }} from t -- noqa: TMP\nselect {{ nope2 }} from t\n"),
    ("s_placeholder", "placeholder", "<string>", "select a from t where a = :val  and b = :val\n"),
    ("s_strict", "strict_noqa", "<string>", "SELECT 1  -- noqa: LT01\nSELECT a  from t -- noqa: CP01\n"),
    ("s_strict_glob", "strict_noqa", "<string>", "SELECT a FROM tbl WHERE AND  -- noqa: PR*\nSELECT 1  -- noqa: L*\n"),
    ("s_inline_strict", "ansi", "<string>", "-- sqlfluff:disable_noqa_except:LT01\nSELECT 1  -- noqa: LT01\nselect a from t -- noqa: CP01\n"),
    ("s_warn", "bq_warn", "<string>", "select a,b  from `p.d.t`\n"),
    ("s_range", "ansi", "<string>", "-- noqa: disable=LT01\nselect a  from t\n-- noqa: enable=LT01\nselect b  from t\n"),
    ("s_same_name_1", "ansi", "same.sql", "select 1  from t\n"),
    ("s_same_name_2", "ansi", "same.sql", "SELECT 1 FROM t\n"),
    ("s_empty", "ansi", "<string>", ""),
    ("s_inline_caps_lower", "pg_rules", "<string>", "-- sqlfluff:rules:capitalisation.keywords:capitalisation_policy:lower\nSELECT a from t\n"),
]
STRING_BY_ID = {s[0]: s for s in STRINGS}

# ------------------------------------------------------------------------------------------------ the input tree (file inputs)
TREE = {
    ".sqlfluff": "[sqlfluff]\ndialect = ansi\n",
    "plain.sql": PLAIN,
    "a_inline.sql": INLINE_RULES,
    "query.sql": UNPARSABLE_GLOB,
    "z_after.sql": "select a  from t -- noqa: LT0?\n",
    "strict/.sqlfluff": "[sqlfluff]\ndisable_noqa_except = LT01\n",
    "strict/other.sql": "SELECT 1  -- noqa: LT01\n",
    "strict/other2.sql": "SELECT a  from t -- noqa: CP01,LT01\n",
    "pg/.sqlfluff": "[sqlfluff]\ndialect = postgres\nrules = LT01,CP01,CP02,AL01\n",
    "pg/x.sql": "select a::int ,B from t\n",
    "pg/deep/.sqlfluff": "[sqlfluff]\nwarnings = LT01\nignore = parsing\n",
    "pg/deep/y.sql": "select a  from t where and\n",
    "jj/.sqlfluff": "[sqlfluff]\ntemplater = jinja\n\n[sqlfluff:templater:jinja:context]\nsomevar = col_a\n",
    "jj/a.sql": "{% if true %}\nselect {{ somevar }}\n{% endif %}\n",
    "jj/b.sql": "{% if true %}\nselect   2\n{% else %}\n  select 3\n{% endif %}\n",
    "jj/c_inline.sql": "-- sqlfluff:templater:raw\nselect 1  from t\n",
    "ign/.sqlfluffignore": "skipped.sql\n",
    "ign/skipped.sql": "selec nonsense\n",
    "ign/kept.sql": "select 1  from t\n",
    "ph/.sqlfluff": "[sqlfluff]\ntemplater = placeholder\n\n[sqlfluff:templater:placeholder]\nparam_style = colon\nval = 7\n",
    "ph/p.sql": "select a from t where a = :val\n",
    "tsql/.sqlfluff": "[sqlfluff]\ndialect = tsql\n",
    "tsql/t.sql": "SELECT TOP 1 [a] FROM [dbo].[t]\n",
    "cap/.sqlfluff": "[sqlfluff:rules:capitalisation.keywords]\ncapitalisation_policy = upper\n",
    "cap/c1.sql": "select a from t\n",
    "cap/c0_inline.sql": "-- sqlfluff:rules:capitalisation.keywords:capitalisation_policy:lower\nSELECT a FROM t\n",
    "crlf/w.sql": "SELECT a\r\nFROM t\r\n",
}
FILE_TARGETS = [p for p in TREE if p.endswith(".sql")]
DIR_TARGETS = [".", "strict", "pg", "jj", "cap", "ign"]

# directed histories: the orders in which a leak between two inputs would show (from the anchors of the property)
DIRECTED = [
    # a file with in-file directives, then its directory sibling, through one Linter
    {"shared": True, "ops": [["lint_paths", "plain.sql"], ["lint_paths", "."], ["lint_paths", "plain.sql"], ["lint_paths", "z_after.sql"]]},
    {"shared": True, "ops": [["lint_paths", "a_inline.sql"], ["lint_paths", "plain.sql"], ["lint_paths", "cap/c0_inline.sql"], ["lint_paths", "cap/c1.sql"]]},
    {"shared": True, "ops": [["lint_paths", "cap"], ["lint_paths", "cap/c1.sql"], ["lint_paths", "jj/c_inline.sql"], ["lint_paths", "jj/a.sql"]]},
    # disable_noqa_except somewhere, then a glob noqa on a special code
    {"shared": False, "ops": [["lint_paths", "query.sql"], ["lint_paths", "strict/other.sql"], ["lint_paths", "query.sql"]]},
    {"shared": True, "ops": [["lint_string", "s_unparsable_glob"], ["lint_string", "s_strict"], ["lint_string", "s_unparsable_glob"],
                             ["lint_string", "s_inline_strict"], ["lint_string", "s_unparsable_glob"], ["lint_string", "s_jinja_undefined"]]},
    # blocks at the same source positions in different files
    {"shared": True, "ops": [["lint_string", "s_jinja_if"], ["lint_string", "s_jinja_ifelse"], ["lint_string", "s_jinja_if"],
                             ["lint_paths", "jj"], ["lint_string", "s_jinja_for"], ["lint_paths", "jj/b.sql"]]},
    # the same file name with different content, the same content under different configs
    {"shared": True, "ops": [["lint_string", "s_same_name_1"], ["render_string", "s_same_name_1"], ["lint_string", "s_same_name_2"],
                             ["lint_string", "s_same_name_1"], ["lint_string", "s_plain"], ["lint_string", "s_plain_pg"], ["lint_string", "s_plain"]]},
    # in-string directives, then plain strings through the same Linter
    {"shared": True, "ops": [["lint_string", "s_inline_rules"], ["lint_string", "s_plain"], ["lint_string", "s_inline_dialect"],
                             ["lint_string", "s_tsql_in_ansi"], ["lint_string", "s_inline_caps_lower"], ["lint_string", "s_plain_pg"]]},
    # parse / render / fix in between
    {"shared": True, "ops": [["parse_string", "s_unparsable_glob"], ["lint_string_fix", "s_plain"], ["render_file", "jj/a.sql"],
                             ["parse_path", "pg/x.sql"], ["lint_string", "s_plain"], ["lint_paths", "pg"], ["lint_paths", "pg/deep/y.sql"]]},
]
COMPARED = ("lint_string", "lint_paths", "parse_string")


def op_key(op):
    return "|".join(op)


def all_reference_ops():
    ops = [["lint_string", s[0]] for s in STRINGS] + [["lint_paths", p] for p in FILE_TARGETS] + [["lint_paths", d] for d in DIR_TARGETS]
    ops += [["parse_string", sid] for sid in ("s_unparsable_glob", "s_jinja_undefined", "s_tsql_in_ansi", "s_jinja_for")]
    return ops


def random_history(rng):
    n = rng.randint(2, 8)
    ops = []
    for _ in range(n):
        r = rng.random()
        if r < 0.36:
            ops.append(["lint_string", rng.choice(STRINGS)[0]])
        elif r < 0.62:
            ops.append(["lint_paths", rng.choice(FILE_TARGETS)])
        elif r < 0.74:
            ops.append(["lint_paths", rng.choice(DIR_TARGETS)])
        elif r < 0.80:
            ops.append(["parse_string", rng.choice(STRINGS)[0]])
        elif r < 0.85:
            ops.append(["render_string", rng.choice(STRINGS)[0]])
        elif r < 0.90:
            ops.append(["parse_path", rng.choice(FILE_TARGETS)])
        elif r < 0.95:
            ops.append(["render_file", rng.choice(FILE_TARGETS)])
        else:
            ops.append(["lint_string_fix", rng.choice(STRINGS)[0]])
    return {"shared": rng.random() < 0.6, "ops": ops}


# ================================================================================================ the child program
def _fix_text(fx):
    try:
        edit = [getattr(e, "raw", repr(e)) for e in (fx.edit or [])]
        return f"{fx.edit_type}|{getattr(fx.anchor, 'raw', None)!r}|{edit!r}"
    except Exception as e:      # never let the observer change the verdict
        return f"<fix {e!r}>"


def _violations(vs):
    out = []
    for v in vs:
        out.append([v.rule_code(), v.line_no, v.line_pos, v.desc(), bool(getattr(v, "warning", False)),
                    [_fix_text(f) for f in getattr(v, "fixes", [])]])
    return sorted(out, key=lambda r: json.dumps(r))


class Runner:
    """executes operations in THIS process"""

    def __init__(self, root):
        self.root = root
        self.shared_string_linters = {}
        self.shared_file_linter = None

    def _cfg(self, cid):
        from sqlfluff.core import FluffConfig
        import copy
        return FluffConfig(configs=copy.deepcopy(CONFIGS[cid]))

    def _string_linter(self, cid, shared):
        from sqlfluff.core import Linter
        if not shared:
            return Linter(config=self._cfg(cid))
        if cid not in self.shared_string_linters:
            self.shared_string_linters[cid] = Linter(config=self._cfg(cid))
        return self.shared_string_linters[cid]

    def _file_linter(self, shared):
        from sqlfluff.core import FluffConfig, Linter
        if not shared:
            return Linter(config=FluffConfig.from_root())
        if self.shared_file_linter is None:
            self.shared_file_linter = Linter(config=FluffConfig.from_root())
        return self.shared_file_linter

    def run(self, op, shared):
        kind, arg = op
        try:
            return self._run(kind, arg, shared)
        except BaseException as e:      # a crash is C04's business; it is still an observable result of the operation
            if isinstance(e, (KeyboardInterrupt, SystemExit)):
                raise
            return {"raised": f"{type(e).__name__}: {str(e)[:200]}"}

    def _run(self, kind, arg, shared):
        if kind in ("lint_string", "lint_string_fix", "parse_string", "render_string"):
            sid, cid, fname, sql = STRING_BY_ID[arg]
            lin = self._string_linter(cid, shared)
            if kind == "lint_string":
                return {"violations": _violations(lin.lint_string(sql, fname=fname).get_violations())}
            if kind == "lint_string_fix":
                lf = lin.lint_string(sql, fname=fname, fix=True)
                return {"violations": _violations(lf.get_violations()), "fixed": lf.fix_string()[0]}
            if kind == "parse_string":
                p = lin.parse_string(sql, fname=fname)
                return {"violations": _violations(p.violations), "raw": p.tree.raw if p.tree is not None else None}
            r = lin.render_string(sql, fname, lin.config, "utf8")
            return {"violations": _violations(r.templater_violations), "variants": [str(v) for v in r.templated_variants]}
        lin = self._file_linter(shared)
        path = os.path.normpath(os.path.join(self.root, arg))
        if kind == "lint_paths":
            res = lin.lint_paths((path,))
            files = {}
            for d in res.paths:
                for lf in d.files:
                    files[os.path.relpath(lf.path, self.root)] = _violations(lf.get_violations())
            return {"files": files}
        if kind == "parse_path":
            out = []
            for p in lin.parse_path(path):
                out.append([os.path.relpath(p.fname, self.root), _violations(p.violations), p.tree.raw if p.tree is not None else None])
            return {"parsed": out}
        if kind == "render_file":
            r = lin.render_file(path, lin.config)
            return {"violations": _violations(r.templater_violations), "variants": [str(v) for v in r.templated_variants]}
        raise ValueError(kind)


def _block_stack_depth():
    try:
        from sqlfluff.core.parser.lexer import BlockTracker
        return len(BlockTracker._stack)
    except Exception:
        return None


def _tree_digest(root):
    out = {}
    for d, dirs, files in os.walk(root):
        dirs.sort()
        for n in sorted(files):
            p = os.path.join(d, n)
            with open(p, "rb") as fh:
                out[os.path.relpath(p, root)] = hashlib.sha256(fh.read()).hexdigest()
    return out


def child_main(argv):
    spec = json.loads(sys.stdin.read())
    src = spec.get("src")
    if src:
        sys.path.insert(0, src)
    import sqlfluff
    got = os.path.dirname(os.path.dirname(os.path.abspath(sqlfluff.__file__)))
    if src and os.path.realpath(got) != os.path.realpath(src):
        print(json.dumps({"error": f"sqlfluff imported from {got}, expected {src}"}))
        return 3
    import logging
    logging.disable(logging.CRITICAL)
    root = spec["root"]
    os.chdir(root)
    runner = Runner(root)
    out = {"results": [], "stack": []}
    for h in spec["histories"]:
        rs = []
        for op in h["ops"]:
            rs.append(runner.run(op, h["shared"]))
            out["stack"].append(_block_stack_depth())
        out["results"].append(rs)
    out["digest"] = _tree_digest(root)
    sys.stdout.write("\n@@C32@@" + json.dumps(out))
    return 0


# ================================================================================================ the parent
def build_tree(root):
    for rel, content in TREE.items():
        p = os.path.join(root, rel)
        os.makedirs(os.path.dirname(p), exist_ok=True)
        with open(p, "w", newline="") as fh:
            fh.write(content)


def _src_root():
    import sqlfluff
    return os.path.dirname(os.path.dirname(os.path.abspath(sqlfluff.__file__)))


def _spawn(spec, home, timeout):
    env = dict(os.environ)
    env.update({"HOME": home, "XDG_CONFIG_HOME": os.path.join(home, ".config"), "PYTHONDONTWRITEBYTECODE": "1", "SQLFLUFF_NO_COLOR": "1"})
    env.pop("PYTHONPATH", None)
    p = subprocess.run([sys.executable, "-P", os.path.abspath(__file__), "--child"], input=json.dumps(spec), capture_output=True,
                       text=True, env=env, cwd=spec["root"], timeout=timeout)
    mark = p.stdout.rfind("@@C32@@")
    if p.returncode != 0 or mark < 0:
        return {"error": f"child exited {p.returncode}: {(p.stderr or p.stdout)[-600:]}"}
    return json.loads(p.stdout[mark + 7:])


def histories(tier, seed):
    t0 = time.time()
    from concurrent.futures import ThreadPoolExecutor
    src = _src_root()
    top = tempfile.mkdtemp(prefix="c32_hist_")
    root, home = os.path.join(top, "in"), os.path.join(top, "home")
    os.makedirs(root), os.makedirs(home)
    build_tree(root)
    before = _tree_digest(root)
    failed, samples = [], []
    n_workers = 4
    n_random = 72 if tier != "thorough" else 900
    rng = random.Random(seed * 7919 + 17)
    ref_ops = all_reference_ops()
    try:
        # ---- references: one fresh process per operation
        def ref(op):
            return op, _spawn({"src": src, "root": root, "histories": [{"shared": False, "ops": [op]}]}, home, 300)
        with ThreadPoolExecutor(max_workers=6) as ex:
            refs = list(ex.map(ref, ref_ops))
        reference, ref_errors = {}, []
        for op, r in refs:
            if "error" in r:
                ref_errors.append((op, r["error"]))
            else:
                reference[op_key(op)] = r["results"][0][0]
        # ---- thorough: a second fresh process per operation must agree with the first (a new process gives the same)
        disagreements = []
        if tier == "thorough":
            with ThreadPoolExecutor(max_workers=6) as ex:
                for op, r in ex.map(ref, ref_ops):
                    if "error" not in r and r["results"][0][0] != reference.get(op_key(op)):
                        disagreements.append({"operation": op, "first fresh process": reference.get(op_key(op)), "second fresh process": r["results"][0][0]})
        # ---- histories
        hs = [dict(h) for h in DIRECTED] + [random_history(rng) for _ in range(n_random)]
        rng.shuffle(hs)
        chunks = [hs[i::n_workers] for i in range(n_workers)]
        # every directed history also FIRST in some worker (cold state), the rest after whatever came before
        def work(chunk):
            return chunk, _spawn({"src": src, "root": root, "histories": chunk}, home, 1500)
        with ThreadPoolExecutor(max_workers=n_workers) as ex:
            outs = list(ex.map(work, chunks))
        evaluations, distinct = 0, set()
        mism = {}
        stack_bad, worker_errors = [], []
        for wi, (chunk, out) in enumerate(outs):
            if "error" in out:
                worker_errors.append(out["error"])
                continue
            done = []       # what this worker had executed before (its whole life is one long history)
            k = 0
            for h, rs in zip(chunk, out["results"]):
                for pos, (op, r) in enumerate(zip(h["ops"], rs)):
                    depth = out["stack"][k]
                    k += 1
                    if depth not in (0, None):
                        stack_bad.append({"after": op, "stack depth": depth, "history": h})
                    if op[0] in COMPARED and op_key(op) in reference:
                        evaluations += 1
                        exp = reference[op_key(op)]
                        nontrivial = bool(exp.get("violations") or any(exp.get("files", {}).values()))
                        if nontrivial:
                            distinct.add((op_key(op), tuple(op_key(o) for o in h["ops"][:pos])))
                        if r != exp:
                            kind = op[0] if op[0] != "lint_paths" else ("lint_paths-dir" if op[1] in DIR_TARGETS else "lint_paths-file")
                            mism.setdefault(kind, []).append({
                                "operation": op, "input": _describe(op), "same Linter object reused": h["shared"],
                                "operations of this history before it": h["ops"][:pos],
                                "earlier in the same process": [op_key(o) for o in done][-12:],
                                "reported here": _diff_side(r, exp), "fresh process alone": _diff_side(exp, r)})
                        elif len(samples) < 3 and nontrivial and pos > 0:
                            samples.append({"operation": op, "after": h["ops"][:pos], "violations": str(exp)[:160]})
                    done.append(op)
            if out.get("digest") != before:
                changed = sorted(k for k in set(before) | set(out.get("digest", {})) if before.get(k) != out.get("digest", {}).get(k))
                nm = f"{PROP}/history/input-files-unchanged"
                failed.append({"name": nm, "id": nm, "kind": "bounded-history", "status": "failed", "function": "lint/parse/render", "reproduced": True,
                               "backend": "CPython, worker subprocess", "detail": {"files whose bytes changed": changed, "worker": wi}})
        for kind, ms in sorted(mism.items()):
            nm = f"{PROP}/history/{kind}/same-violations-as-a-fresh-process"
            failed.append({"name": nm, "id": nm, "kind": "bounded-history", "status": "failed", "function": kind, "reproduced": True,
                           "backend": "CPython: worker subprocess vs one fresh subprocess per operation",
                           "detail": dict(ms[0], **{"further mismatches": len(ms) - 1,
                                                    "other operations that differed": sorted({op_key(m["operation"]) for m in ms[1:]})[:12]})})
        if stack_bad:
            nm = f"{PROP}/history/block-stack-empty-after-every-operation"
            failed.append({"name": nm, "id": nm, "kind": "bounded-history", "status": "failed", "function": "sqlfluff.core.parser.lexer:BlockTracker",
                           "reproduced": True, "backend": "CPython, worker subprocess",
                           "detail": dict(stack_bad[0], **{"further occurrences": len(stack_bad) - 1})})
        if disagreements:
            nm = f"{PROP}/history/two-fresh-processes-agree"
            failed.append({"name": nm, "id": nm, "kind": "bounded-history", "status": "failed", "function": "fresh process", "reproduced": True,
                           "backend": "CPython, two subprocesses", "detail": dict(disagreements[0], **{"further": len(disagreements) - 1})})
        if ref_errors or worker_errors or not evaluations:
            nm = f"{PROP}/history/harness-liveness"
            failed.append({"name": nm, "id": nm, "kind": "bounded-history", "status": "failed", "function": "harness", "reproduced": True,
                           "backend": "CPython", "detail": {"reference processes that failed": ref_errors[:3], "workers that failed": worker_errors[:2],
                                                            "evaluations": evaluations}})
    finally:
        import shutil
        shutil.rmtree(top, ignore_errors=True)
    n_ops = sum(len(h["ops"]) for h in hs)
    return {"name": "C32-histories-vs-fresh-process",
            "bound": f"{len(hs)} histories ({len(DIRECTED)} directed + {n_random} random, 2-8 operations, {n_ops} operations) in {n_workers} worker "
                     f"processes over {len(STRINGS)} strings x {len(CONFIGS)} configs and a {len(TREE)}-file tree ({len(FILE_TARGETS)} sql files, "
                     f"{len(DIR_TARGETS)} directories, {len(TREE) - len(FILE_TARGETS)} config and ignore files); {len(ref_ops)} reference operations, each in its own fresh subprocess (tier {tier})",
            "rule": "reference(op) = the operation run alone in a fresh python process; contract: every lint_string / lint_paths / parse_string "
                    "in every history reports exactly reference(op): sorted (rule, line, position, description, warning, fixes as text) per "
                    "file; the sha256 of every input file is unchanged; BlockTracker._stack is empty after every operation; (thorough) a "
                    "second fresh process agrees with the first. evaluations = compared operations; distinct = distinct (operation with "
                    "a non-empty reference, operations before it in its history)",
            "evaluations": evaluations, "distinct_nontrivial": len(distinct), "samples": samples,
            "reference_operations": len(reference), "wall_s": round(time.time() - t0, 1), "failed": failed}


def _describe(op):
    if op[1] in STRING_BY_ID:
        s = STRING_BY_ID[op[1]]
        return {"sql": s[3], "config": CONFIGS[s[1]], "fname": s[2]}
    if op[1] in TREE:
        d = os.path.dirname(op[1])
        chain = [c for c in (".sqlfluff", os.path.join(d, ".sqlfluff") if d else None) if c and c in TREE]
        return {"file": op[1], "content": TREE[op[1]], "config files": {c: TREE[c] for c in chain}}
    return {"directory": op[1], "files": sorted(p for p in TREE if p.startswith(op[1].rstrip(".") ) or op[1] == ".")[:30]}


def _diff_side(a, b):
    """the part of result a that is not in result b (readable: whole violation records)"""
    if "files" in a and "files" in b:
        return {f: [v for v in vs if v not in b["files"].get(f, [])] for f, vs in a["files"].items() if vs != b["files"].get(f)} or a
    if "violations" in a and "violations" in b:
        return [v for v in a["violations"] if v not in b["violations"]] or {k: v for k, v in a.items() if b.get(k) != v}
    return a


if __name__ == "__main__":
    if len(sys.argv) >= 2 and sys.argv[1] == "--child":
        sys.exit(child_main(sys.argv))
    print(json.dumps(histories("quick", 0), indent=1, default=str)[:6000])
