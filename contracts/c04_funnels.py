"""C04 -- parse, lint and fix never crash: the exception FUNNELS under pyvc contracts.

The property says that templating / parsing problems come back as TMP / PRS violations and that a file whose lint blows up
does not take the run down.  In the code that is the job of a handful of try/except statements ("funnels").  Here each of them
is executed symbolically from the real source against an ASSUMED contract of the guarded callee that says which exception
classes the callee may raise; the proof obligations `no-raise[...]` (an exception class the function's contract does not allow
reaches the end of the verified range) and `raises[...]` (a permitted escape only under its documented condition) are generated
from the real try/except statements, whatever their syntactic shape.

  Linter._parse_tokens#node-limit-precheck   region: the max_parse_nodes pre-check
  Linter._parse_tokens#parse-funnel          region: `violations = []` .. end of the function (the try around Parser.parse,
                                             and the loop turning unparsable sections into PRS violations)
  Linter.render_string#templater-funnel      region: the try around templater.process_with_variants .. `return RenderedFile(...)`
  BaseRunner._handle_lint_path_exception     whole function: only an OSError is passed on
  SequentialRunner.run                       whole function (generator)
  ParallelRunner._apply                      whole function: the worker shim returns a DelayedException, never raises
  DelayedException.reraise                   whole function
  ParallelRunner.run#result-funnel           region: the loop over the pool's results (pool creation / terminate / join and the
                                             KeyboardInterrupt handler around it are multiprocessing plumbing: not modelled)

What is NOT proved here: that the guarded callees raise only the classes their assumed contracts name (that is the whole-repository
half of C04; contracts/c04_bounded.py samples it).
"""
from pyvc.dsl import contract, external, spec, implies, iff, ref_class, rec_class, alias_external
from pyvc.ty import INT, BOOL, Text, TList, TTuple, TOpt, SINK, TOpaque
from pyvc import exec as _X
from pyvc import stmts as _S
from pyvc import replay as _replay

PROP = "C04"

# ------------------------------------------------------------------------------------------------ classes
FluffConfig = ref_class("sqlfluff.core.config.fluffconfig:FluffConfig")
PosMarker = ref_class("sqlfluff.core.parser.markers:PositionMarker", working_loc=SINK)
Seg = ref_class("sqlfluff.core.parser.segments.base:BaseSegment", is_code=BOOL, raw=Text, pos_marker=TOpt(PosMarker))
SQLBaseErr = ref_class("sqlfluff.core.errors:SQLBaseError", description=TOpt(Text), ignore=BOOL, fatal=BOOL, warning=BOOL)
SQLParseErr = ref_class("sqlfluff.core.errors:SQLParseError", base="SQLBaseError", segment=TOpt(Seg))
SQLTemplaterErr = ref_class("sqlfluff.core.errors:SQLTemplaterError", base="SQLBaseError")
Parser = ref_class("sqlfluff.core.parser.parser:Parser", config=FluffConfig)
TemplatedFile = ref_class("sqlfluff.core.templaters.base:TemplatedFile")
Templater = ref_class("sqlfluff.core.templaters.base:RawTemplater")
Linter = ref_class("sqlfluff.core.linter.linter:Linter", templater=Templater, formatter=TOpt(SINK), config=FluffConfig)
RenderedFile = rec_class("sqlfluff.core.linter.common:RenderedFile", templated_variants=TList(TemplatedFile),
                         templater_violations=TList(SQLTemplaterErr), config=FluffConfig, time_dict=SINK, fname=Text,
                         encoding=Text, source_str=Text)


# ------------------------------------------------------------------------------------------------ vocabulary
@spec(uninterpreted=True)
def cfg_int(cfg: FluffConfig, key: Text) -> INT:
    """the (integer) value of a core config key"""
    return cfg.get(key)


@spec
def over_node_limit(config, tokens):
    """the property's rule for the node limit at the door of the parser: a limit is configured (0 disables it) and the
    file has more tokens than that"""
    return cfg_int(config, "max_parse_nodes") > 0 and len(tokens) > cfg_int(config, "max_parse_nodes")


@spec(uninterpreted=True)
def parse_fails(parser: Parser, tokens: TList(Seg)) -> BOOL:
    """Parser.parse raises SQLParseError on these tokens (depth / node limit reached, see contracts/c04.py; unparsable file)"""
    try:
        parser.parse(tuple(tokens))
    except Exception:
        return True
    return False


@spec(uninterpreted=True)
def unparsables_of(tree: Seg) -> TList(Seg):
    """the unparsable sections of a parse tree, in order"""
    return list(tree.iter_unparsables())


@spec(uninterpreted=True)
def tmpl_fatal(templater: Templater, in_str: Text, fname: Text) -> BOOL:
    """templating this text raises SQLTemplaterError (a fatal templating problem)"""
    return False


@spec(uninterpreted=True)
def tmpl_skip(templater: Templater, in_str: Text, fname: Text) -> BOOL:
    """templating this text raises SQLFluffSkipFile"""
    return False


# ------------------------------------------------------------------------------------------------ assumed callees
@external("sqlfluff.core.config.fluffconfig:FluffConfig.get", PROP)
class config_get:
    """the two keys read by the funnels (max_parse_nodes, render_variant_limit) hold integers (validated when the config is
    built); the value is a function of (config, key)"""
    types = {"self": FluffConfig, "val": Text, "section": Text}
    ret = INT

    def ensures(self, val, section="core", default=None, result=None):
        return result == cfg_int(self, val)


@external("sqlfluff.core.errors:SQLParseError.__init__", PROP)
class parse_error_init:
    """building a violation object stores its arguments and does not raise"""
    types = {"self": SQLParseErr, "description": TOpt(Text), "segment": TOpt(Seg), "line_no": INT, "line_pos": INT,
             "ignore": BOOL, "fatal": BOOL, "warning": TOpt(BOOL)}
    modifies = ["self.segment", "self.description", "self.ignore", "self.fatal", "self.warning"]

    def ensures(self, description=None, segment=None, line_no=0, line_pos=0, ignore=False, fatal=False, warning=None,
                result=None):
        return (self.segment == segment and self.description == description and self.ignore == ignore
                and self.fatal == fatal and implies(warning is not None, self.warning == warning))


@external("sqlfluff.core.parser.parser:Parser.parse", PROP)
class parser_parse:
    """ASSUMED: of all exception classes only SQLParseError is promised by the parser (its limits raise exactly that class:
    proved in contracts/c04.py); anything else it raises is a defect of the parser / grammar, outside this contract.
    `requires` is an OBLIGATION at the call site: the parser is never entered with more tokens than max_parse_nodes."""
    types = {"self": Parser, "segments": TList(Seg), "fname": TOpt(Text), "parse_statistics": BOOL}
    ret = TOpt(Seg)
    raises = {"SQLParseError": lambda self, segments, fname, parse_statistics: parse_fails(self, segments)}

    def requires(self, segments, fname, parse_statistics):
        return not over_node_limit(self.config, segments)

    def ensures(self, segments, fname=None, parse_statistics=False, result=None):
        return True


@external("sqlfluff.core.parser.parser:Parser.__init__", PROP)
class parser_init:
    """only reached when an edit builds a parser inside a verified range (the unchanged pre-check range does not): the parser
    keeps the config it is given"""
    types = {"self": Parser, "config": TOpt(FluffConfig), "dialect": TOpt(Text)}
    modifies = ["self.config"]

    def ensures(self, config=None, dialect=None, result=None):
        return implies(config is not None, self.config is config)


@external("sqlfluff.core.parser.segments.base:BaseSegment.iter_unparsables", PROP)
class iter_unparsables:
    """every segment of a parse tree built from lexed tokens carries a position marker"""
    types = {"self": Seg}
    ret = TList(Seg)

    def ensures(self, result):
        return result == unparsables_of(self) and all(result[i].pos_marker is not None for i in range(len(result)))


# ------------------------------------------------------------------------------------------------ (a) Linter._parse_tokens
@contract("sqlfluff.core.linter.linter:Linter._parse_tokens#node-limit-precheck", PROP)
class parse_tokens_precheck:
    # from the first statement of the function up to (excluding) the parser selection: an edit that moves the check behind the
    # parse leaves this range without it and is decided here
    region = ('max_parse_nodes = config.get("max_parse_nodes")', 'use_rust = config.get_section(["core", "use_rust_parser"])')
    # `fname` / `parse_statistics` are not read by the unchanged range: declared so that an edit that parses BEFORE the check is
    # decided here (call-pre of Parser.parse) rather than reported as an unbound name
    region_params = ["tokens", "config", "fname", "parse_statistics"]
    types = {"tokens": TList(Seg), "config": FluffConfig, "fname": TOpt(Text), "parse_statistics": BOOL, "max_parse_nodes": INT,
             "anchor": TOpt(Seg), "err": SQLParseErr}
    ret = TOpt(TTuple(TOpt(Seg), TList(SQLParseErr)))
    modifies = ["heap:SQLParseError.segment", "heap:SQLBaseError.description", "heap:SQLBaseError.ignore", "heap:SQLBaseError.fatal",
                "heap:SQLBaseError.warning"]

    def ensures(tokens, config, fname, parse_statistics, result):
        # over the limit: the function is left right here with (no tree, exactly one PRS violation); within the limit (or
        # limit 0 = disabled): control goes on to the parser (`result is None` = the range was left by falling through)
        return ((result is not None and result[0] is None and len(result[1]) == 1)
                if over_node_limit(config, tokens) else result is None)


@contract("sqlfluff.core.linter.linter:Linter._parse_tokens#parse-funnel", PROP)
class parse_tokens_funnel:
    region = ("violations = []", None)
    region_params = ["parser", "tokens", "fname", "parse_statistics"]
    types = {"parser": Parser, "tokens": TList(Seg), "fname": TOpt(Text), "parse_statistics": BOOL,
             "violations": TList(SQLParseErr), "parsed": TOpt(Seg), "anchor": TOpt(Seg), "err": SQLParseErr, "unparsable": Seg}
    ret = TTuple(TOpt(Seg), TList(SQLParseErr))
    ghost_out = {"err": SQLParseErr}
    modifies = ["heap:SQLParseError.segment", "heap:SQLBaseError.description", "heap:SQLBaseError.ignore", "heap:SQLBaseError.fatal",
                "heap:SQLBaseError.warning"]
    # raises = {}: NOTHING escapes the range -- in particular not the SQLParseError of the parser

    def requires(parser, tokens, fname, parse_statistics):
        # established by the pre-check range above (it falls through only within the limit) for the config the parser was built from
        return not over_node_limit(parser.config, tokens)

    def ensures(parser, tokens, fname, parse_statistics, result, err):
        return (
            # the parser gave up: no tree, and the violation list ends with (here: consists of) that error as a PRS violation
            (result[0] is None and len(result[1]) == 1 and result[1][0] is err)
            if parse_fails(parser, tokens) else
            # it returned a tree: one PRS violation per unparsable section
            implies(result[0] is not None, len(result[1]) == len(unparsables_of(result[0]))))

    def inv_1(violations, _i):
        return len(violations) == _i


# ------------------------------------------------------------------------------------------------ (b) Linter.render_string
@external("sqlfluff.core.templaters.base:RawTemplater.process_with_variants", PROP)
class process_with_variants:
    """ASSUMED: a templater reports a fatal problem as SQLTemplaterError and an oversized file as SQLFluffSkipFile, nothing else
    (the generator is modelled as the list of what it yields: a raise in mid-iteration is a raise before the first element)"""
    types = {"self": Templater, "in_str": Text, "fname": Text, "config": TOpt(FluffConfig), "formatter": TOpt(SINK)}
    ret = TList(TTuple(TOpt(TemplatedFile), TList(SQLTemplaterErr)))
    raises = {"SQLTemplaterError": lambda self, in_str, fname, config, formatter: tmpl_fatal(self, in_str, fname),
              "SQLFluffSkipFile": lambda self, in_str, fname, config, formatter: tmpl_skip(self, in_str, fname) and not tmpl_fatal(self, in_str, fname)}

    def ensures(self, in_str, fname, config, formatter, result):
        return True


from sqlfluff.core.templaters.base import RawTemplater as _RawTemplater  # noqa: E402

alias_external(_RawTemplater.process_with_variants, "sqlfluff.core.templaters.base:RawTemplater.process_with_variants")
_S.SINK_FUNCTIONS.update({"time:monotonic"})


@contract("sqlfluff.core.linter.linter:Linter.render_string#templater-funnel", PROP)
class render_string_funnel:
    # anchored two statements before the try, so that an edit of the try statement itself is verified rather than `stale`
    region = ('variant_limit = config.get("render_variant_limit")', None)
    region_params = ["self", "in_str", "fname", "config", "encoding", "t0"]
    types = {"self": Linter, "in_str": Text, "fname": Text, "config": FluffConfig, "encoding": Text, "t0": SINK,
             "variant_limit": INT, "templated_variants": TList(TemplatedFile), "templater_violations": TList(SQLTemplaterErr),
             "variant": TOpt(TemplatedFile), "templater_errs": TList(SQLTemplaterErr), "templater_err": SQLTemplaterErr}
    ret = RenderedFile
    ghost_out = {"templater_err": SQLTemplaterErr}
    # raises = {}: neither SQLTemplaterError nor SQLFluffSkipFile (nor anything else) leaves the range

    def ensures(self, in_str, fname, config, encoding, t0, result, templater_err):
        return (
            # a fatal templating problem is RECORDED: the violations of the rendered file end with that very error (TMP)
            implies(tmpl_fatal(self.templater, in_str, fname),
                    len(result.templater_violations) >= 1
                    and result.templater_violations[len(result.templater_violations) - 1] is templater_err)
            # and the rendered file is the one of this text / file / config
            and result.fname == fname and result.source_str == in_str and result.config is config
            and result.encoding == encoding)

    def inv_1(templated_variants, templater_violations, _i):
        return len(templated_variants) <= _i


# ================================================================================================ (c) the runners
# Exception OBJECTS are heap values here (`except Exception as e` binds a reference, see pyvc.stmts.exc_object); what the code asks
# about their class (isinstance) is a set of uninterpreted class predicates, tied to the class-level exception flow by
# EXC_CLASS_PREDS: catching `Exception` makes is_exception(e) true, `raise e` under `if isinstance(e, IOError)` raises an OSError.
import bdb as _bdb  # noqa: E402
from sqlfluff.core.errors import SQLFluffSkipFile as _SQLFluffSkipFile  # noqa: E402

Exc = ref_class("builtins:BaseException")
Task = ref_class("sqlfluff.core.linter.common:DeferredRenderTask", fname=Text, root_config=FluffConfig, fix=BOOL)
LintedFile = ref_class("sqlfluff.core.linter.linted_file:LintedFile")
# what a worker hands back: a LintedFile or a DelayedException (the union is one reference type; is_delayed tells them apart)
Res = ref_class("sqlfluff.core.linter.runner:DelayedException", ee=Exc, fname=TOpt(Text), path=Text)
Runner = ref_class("sqlfluff.core.linter.runner:BaseRunner", linter=Linter, config=FluffConfig, skipped_file_count=INT)
SeqRunner = ref_class("sqlfluff.core.linter.runner:SequentialRunner", base="BaseRunner")
ParRunner = ref_class("sqlfluff.core.linter.runner:ParallelRunner", base="BaseRunner")
RulePack = TOpaque("RulePack")


@spec(uninterpreted=True)
def is_exception(e: Exc) -> BOOL:
    return isinstance(e, Exception)


@spec(uninterpreted=True)
def is_oserror(e: Exc) -> BOOL:
    return isinstance(e, OSError)


@spec(uninterpreted=True)
def is_skipfile(e: Exc) -> BOOL:
    return isinstance(e, _SQLFluffSkipFile)


@spec(uninterpreted=True)
def is_bdbquit(e: Exc) -> BOOL:
    return isinstance(e, _bdb.BdbQuit)


@spec(uninterpreted=True)
def is_kbdint(e: Exc) -> BOOL:
    return isinstance(e, KeyboardInterrupt)


@spec(uninterpreted=True)
def is_delayed(r: Res) -> BOOL:
    """the worker's result is a DelayedException (not a LintedFile)"""
    from sqlfluff.core.linter.runner import DelayedException
    return isinstance(r, DelayedException)


@spec(uninterpreted=True)
def is_deferred(t: Task) -> BOOL:
    """the task is a DeferredRenderTask (render + lint in the worker), not a functools.partial of Linter.lint_rendered"""
    from sqlfluff.core.linter.common import DeferredRenderTask
    return isinstance(t, DeferredRenderTask)


@spec(uninterpreted=True)
def task_fails(t: Task) -> BOOL:
    """linting this file raises (some subclass of Exception)"""
    return bool(getattr(t, "fails", False))


@spec(uninterpreted=True)
def lint_of(t: Task) -> LintedFile:
    """the LintedFile that linting this file returns when it does not raise"""
    return getattr(t, "out", None)


_CLASS_PREDS = [(Exception, is_exception), (OSError, is_oserror), (_SQLFluffSkipFile, is_skipfile), (_bdb.BdbQuit, is_bdbquit),
                (KeyboardInterrupt, is_kbdint)]
_S.EXC_CLASS_PREDS["BaseException"] = [(k, (lambda sp: (lambda ex, st, v: ex.apply_spec(st, sp, [v], {}).z))(sp)) for k, sp in _CLASS_PREDS]


def _exc_isinstance(ex, st, v, cls):
    for k, sp in _CLASS_PREDS:
        if cls is k:
            return ex.apply_spec(st, sp, [v], {}).z
    raise _X.Unsupported(f"isinstance(<exception object>, {cls.__name__}): no class predicate declared")


_X.ISINSTANCE_HOOK["BaseException"] = _exc_isinstance


def _res_isinstance(ex, st, v, cls):
    from sqlfluff.core.linter.runner import DelayedException
    if cls is DelayedException:
        return ex.apply_spec(st, is_delayed, [v], {}).z
    raise _X.Unsupported(f"isinstance(<worker result>, {cls.__name__})")


def _task_isinstance(ex, st, v, cls):
    from sqlfluff.core.linter.common import DeferredRenderTask
    if cls is DeferredRenderTask:
        return ex.apply_spec(st, is_deferred, [v], {}).z
    raise _X.Unsupported(f"isinstance(<task>, {cls.__name__})")


_X.ISINSTANCE_HOOK["DelayedException"] = _res_isinstance
_X.ISINSTANCE_HOOK["DeferredRenderTask"] = _task_isinstance
_S.CLASS_OF_HOOK["DelayedException"] = lambda ex, st, ref, cls: st.assume(ex.apply_spec(st, is_delayed, [ref], {}).z)


# ---------------------------------------------------------------- assumed callees: one file's render / lint may raise ANY Exception
@external("functools:partial.__call__", PROP)
class task_call:
    """calling the partial of Linter.lint_rendered for one file: lexing, parsing, ~70 rules, fixing.  ASSUMED only that what it
    raises is a subclass of Exception (this is the `arbitrary Exception` of the property)"""
    types = {"self": Task}
    ret = LintedFile
    raises = {"Exception+": lambda self: task_fails(self)}

    def ensures(self, result):
        return result is lint_of(self) and not is_delayed(result)


_X.CALLABLE_CONTRACT["DeferredRenderTask"] = "functools:partial.__call__"


@external("sqlfluff.core.linter.linter:Linter.render_file", PROP)
class render_file:
    types = {"self": Linter, "fname": Text, "root_config": FluffConfig}
    ret = RenderedFile
    raises = {"Exception+": None}

    def ensures(self, fname, root_config, result):
        return True


@external("sqlfluff.core.linter.linter:Linter.get_rulepack", PROP)
class get_rulepack:
    types = {"self": Linter, "config": TOpt(FluffConfig)}
    ret = RulePack
    raises = {"Exception+": None}

    def ensures(self, config=None, result=None):
        return True


@external("sqlfluff.core.linter.linter:Linter.lint_rendered", PROP)
class lint_rendered:
    types = {"rendered": RenderedFile, "rule_pack": RulePack, "fix": BOOL, "formatter": TOpt(SINK)}
    ret = LintedFile
    raises = {"Exception+": None}

    def ensures(cls, rendered, rule_pack, fix=False, formatter=None, result=None):
        return not is_delayed(result)


@external("sqlfluff.core.linter.linter:Linter.__init__", PROP)
class linter_init:
    types = {"self": Linter, "config": TOpt(FluffConfig)}
    raises = {"Exception+": None}

    def ensures(self, config=None, formatter=None, dialect=None, rules=None, user_rules=None, exclude_rules=None, result=None):
        return True


@external("sqlfluff.core.config.fluffconfig:FluffConfig.get_templater", PROP)
class get_templater:
    types = {"self": FluffConfig}
    ret = Templater
    raises = {"Exception+": None}

    def ensures(self, result):
        return True


@external("sqlfluff.core.linter.runner:DelayedException.__init__", PROP)
class delayed_init:
    types = {"self": Res, "ee": Exc, "fname": TOpt(Text)}
    modifies = ["self.ee", "self.fname"]

    def ensures(self, ee, fname=None, result=None):
        return self.ee is ee and self.fname == fname


@spec(uninterpreted=True)
def partials_of(runner: Runner, fnames: TList(Text), fix: BOOL) -> TList(TTuple(Text, Task)):
    """(file name, lint task) for every file the runner is given, in processing order"""
    return list(runner.parts) if hasattr(runner, "parts") else list(runner.iter_partials(fnames, fix=fix))


@spec(uninterpreted=True)
def render_fails(runner: Runner, fnames: TList(Text)) -> BOOL:
    """loading / templating one of the files raises something that is neither SQLTemplaterError nor SQLFluffSkipFile"""
    return getattr(runner, "render_exc", None) is not None


@external("sqlfluff.core.linter.runner:BaseRunner.iter_partials", PROP)
class iter_partials:
    """BaseRunner.iter_partials RENDERS each file in the main process (iter_rendered -> Linter.render_file) before it hands out the
    lint task: rendering is part of processing one file, so the same assumption applies to it (any subclass of Exception; only
    SQLTemplaterError / SQLFluffSkipFile are dealt with inside: Linter.render_string above, BaseRunner.iter_rendered in C34)"""
    types = {"self": Runner, "fnames": TList(Text), "fix": BOOL}
    ret = TList(TTuple(Text, Task))
    raises = {"Exception+": lambda self, fnames, fix: render_fails(self, fnames)}

    def ensures(self, fnames, fix=False, result=None):
        return result == partials_of(self, fnames, fix)


# ---------------------------------------------------------------- BaseRunner._handle_lint_path_exception
@contract("sqlfluff.core.linter.runner:BaseRunner._handle_lint_path_exception", PROP)
class handle_lint_path_exception:
    types = {"fname": TOpt(Text), "e": Exc}
    # documented in the code: "IOErrors are caught in commands.py, so propagate it" -- an OSError, and nothing else, is passed
    # on (the very object); everything else is reported with a warning and the call returns
    raises = {"OSError+": lambda fname, e: is_oserror(e)}

    def hint_on_raise(fname, e, exc_class, exc_value):
        return exc_value is e

    def ensures(fname, e, result):
        return True


# ---------------------------------------------------------------- SequentialRunner.run
@contract("sqlfluff.core.linter.runner:SequentialRunner.run", PROP)
class sequential_run:
    types = {"self": SeqRunner, "fnames": TList(Text), "fix": BOOL, "partial": Task, "rendered": RenderedFile, "rule_pack": RulePack}
    ghost_yield = LintedFile
    # what may leave the run: an OSError (passed on by _handle_lint_path_exception, caught by the CLI) and the debugger's BdbQuit
    # (re-raised on purpose); NOT any other exception raised while one file is processed
    raises = {"OSError+": None, "BdbQuit": None}

    def requires(self, fnames, fix):
        # this contract: the LINT phase (what happens inside the try).  The render phase is the variant contract below.
        return not render_fails(self, fnames)

    def ensures(self, fnames, fix, result):
        return (len(result) <= len(partials_of(self, fnames, fix))
                # the run CONTINUES after a file that failed: every file whose lint does not raise is in the output ...
                and all(implies(not is_deferred(partials_of(self, fnames, fix)[i][1]) and not task_fails(partials_of(self, fnames, fix)[i][1]),
                                any(result[j] is lint_of(partials_of(self, fnames, fix)[i][1]) for j in range(len(result))))
                        for i in range(len(partials_of(self, fnames, fix))))
                # ... in particular the last one, whatever happened before it
                and implies(len(partials_of(self, fnames, fix)) > 0
                            and not is_deferred(partials_of(self, fnames, fix)[len(partials_of(self, fnames, fix)) - 1][1])
                            and not task_fails(partials_of(self, fnames, fix)[len(partials_of(self, fnames, fix)) - 1][1]),
                            len(result) > 0 and result[len(result) - 1]
                            is lint_of(partials_of(self, fnames, fix)[len(partials_of(self, fnames, fix)) - 1][1])))

    def inv_1(self, _yielded, _i, _iter):
        return (len(_yielded) <= _i
                and all(implies(not is_deferred(_iter[i][1]) and not task_fails(_iter[i][1]),
                                any(_yielded[j] is lint_of(_iter[i][1]) for j in range(len(_yielded))))
                        for i in range(0, _i))
                and implies(_i > 0 and not is_deferred(_iter[_i - 1][1]) and not task_fails(_iter[_i - 1][1]),
                            len(_yielded) > 0 and _yielded[len(_yielded) - 1] is lint_of(_iter[_i - 1][1])))


@contract("sqlfluff.core.linter.runner:SequentialRunner.run#render-phase", PROP)
class sequential_run_render_phase:
    """The same function WITHOUT the assumption that rendering succeeds: the property's clause (an exception raised while one file
    is processed does not leave the run) applied to the render phase.  The unchanged code does not meet it: iter_partials renders
    each file in the `for` header, outside the try -- obligation no-raise[Exception+]/p (known finding).  Everything else about `run`
    is stated in the contract above."""
    types = {"self": SeqRunner, "fnames": TList(Text), "fix": BOOL, "partial": Task, "rendered": RenderedFile, "rule_pack": RulePack}
    ghost_yield = LintedFile
    raises = {"OSError+": None, "BdbQuit": None}

    def ensures(self, fnames, fix, result):
        return True

    def inv_1(self, _i):
        return True


# ---------------------------------------------------------------- ParallelRunner._apply (runs in the worker)
@contract("sqlfluff.core.linter.runner:ParallelRunner._apply", PROP)
class parallel_apply:
    types = {"partial_tuple": TTuple(Text, Task), "fname": Text, "task": Task, "linter": Linter, "rendered": RenderedFile,
             "rule_pack": RulePack}
    ret = Res
    modifies = ["heap:Linter.templater"]
    # raises = {}: the worker shim never raises an Exception: whatever render + lint of the file raised comes back as a value

    def ensures(partial_tuple, result):
        return (((is_exception(result.ee) and result.fname == partial_tuple[0]) if is_delayed(result) else True)
                and implies(not is_deferred(partial_tuple[1]),
                            is_delayed(result) if task_fails(partial_tuple[1]) else result is lint_of(partial_tuple[1])))


# ---------------------------------------------------------------- DelayedException.reraise
@contract("sqlfluff.core.linter.runner:DelayedException.reraise", PROP)
class delayed_reraise:
    types = {"self": Res}
    raises = {"Exception+": None}

    def requires(self):
        # class invariant of the DelayedExceptions built by ParallelRunner._apply (its postcondition above)
        return is_delayed(self) and is_exception(self.ee)

    def hint_on_raise(self, exc_class, exc_value):
        return exc_value is self.ee

    def ensures(self, result):
        return False          # never returns


# ---------------------------------------------------------------- ParallelRunner.run: the loop over the pool's results
# ghost field Pool.g_results: the results this pool hands back, in the order they arrive
Pool = ref_class("multiprocessing.pool:Pool", g_results=TList(Res))


@external("sqlfluff.core.linter.runner:ParallelRunner.iter_partials", PROP)
class par_iter_partials:
    """with a templater that renders in the worker (templates_in_worker: every templater in /repo/src) this only sequences the
    file names and raises nothing; the dbt / sqlmesh plugins render here, in the main process (not covered)"""
    types = {"self": Runner, "fnames": TList(Text), "fix": BOOL}
    ret = TList(TTuple(Text, Task))

    def ensures(self, fnames, fix=False, result=None):
        return True


@external("sqlfluff.core.linter.runner:ParallelRunner._map", PROP)
class pool_map:
    """ASSUMED (multiprocessing plumbing, not modelled): the pool returns one ParallelRunner._apply result per task, and pickling
    keeps the class of a transported exception -- so every element satisfies the proved postcondition of _apply"""
    types = {"pool": Pool, "iterable": TList(TTuple(Text, Task))}
    ret = TList(Res)

    def ensures(cls, pool, func, iterable, result):
        return (result == pool.g_results and len(result) == len(iterable)
                and all(implies(is_delayed(result[i]), is_exception(result[i].ee)) for i in range(len(result))))


@contract("sqlfluff.core.linter.runner:ParallelRunner.run#result-funnel", PROP)
class parallel_run_funnel:
    region = ("for lint_result in self._map(", None)
    region_params = ["self", "pool", "fnames", "fix"]
    types = {"self": ParRunner, "pool": Pool, "fnames": TList(Text), "fix": BOOL, "lint_result": Res}
    ghost_yield = Res
    modifies = ["self.skipped_file_count"]
    raises = {"OSError+": None}

    def ensures(self, pool, fnames, fix, result, old):
        return (len(result) <= len(pool.g_results)
                and self.skipped_file_count >= old.self.skipped_file_count
                # every LintedFile that came back is handed on, whatever the other files did ...
                and all(implies(not is_delayed(pool.g_results[i]), any(result[j] is pool.g_results[i] for j in range(len(result))))
                        for i in range(len(pool.g_results)))
                # ... in particular the last one
                and implies(len(pool.g_results) > 0 and not is_delayed(pool.g_results[len(pool.g_results) - 1]),
                            len(result) > 0 and result[len(result) - 1] is pool.g_results[len(pool.g_results) - 1])
                # a skipped file (SQLFluffSkipFile from the worker) is counted, and only that
                and iff(self.skipped_file_count > old.self.skipped_file_count,
                        any(is_delayed(pool.g_results[i]) and is_skipfile(pool.g_results[i].ee) for i in range(len(pool.g_results)))))

    def inv_1(self, pool, _yielded, _i, _iter, old):
        return (_iter == pool.g_results and len(_yielded) <= _i and self.skipped_file_count >= old.self.skipped_file_count
                and all(implies(is_delayed(_iter[i]), is_exception(_iter[i].ee)) for i in range(len(_iter)))
                and all(implies(not is_delayed(_iter[i]), any(_yielded[j] is _iter[i] for j in range(len(_yielded))))
                        for i in range(0, _i))
                and implies(_i > 0 and not is_delayed(_iter[_i - 1]),
                            len(_yielded) > 0 and _yielded[len(_yielded) - 1] is _iter[_i - 1])
                and iff(self.skipped_file_count > old.self.skipped_file_count,
                        any(is_delayed(_iter[i]) and is_skipfile(_iter[i].ee) for i in range(0, _i))))


# ================================================================================================ native reading (bounded search)
# The whole-function contracts above are also RUN by CPython on the real functions (pyvc.replay.search): the objects below stand
# for what the funnels handle -- tasks that return a result or raise, runners whose iter_partials hands out such tasks (and may
# fail while `rendering`), worker results.  Region contracts have no native reading; contracts/c04_bounded.py (funnel_scenarios)
# runs the whole real functions around them with stubbed callees instead.
class _StubLinted:
    """stands for a LintedFile"""

    def __init__(self, path):
        self.path = path

    def __repr__(self):
        return f"Linted({self.path})"


class _StubTask:
    """callable like functools.partial(Linter.lint_rendered, ...): returns `out` or raises `exc`"""

    def __init__(self, out, exc):
        self.out, self.exc, self.fails = out, exc, exc is not None

    def __call__(self):
        if self.exc is not None:
            raise self.exc
        return self.out

    def __repr__(self):
        return f"Task(raises {self.exc!r})" if self.fails else f"Task({self.out!r})"


def _exc_pool():
    return [RuntimeError("boom"), ValueError("bad value"), KeyError("k"), AssertionError("assert"), RecursionError("deep"),
            IndexError("idx"), TypeError("ty"), OSError("io"), FileNotFoundError("missing"), PermissionError("denied"),
            _SQLFluffSkipFile("skipped"), _bdb.BdbQuit()]


def _quiet():
    import logging
    logging.disable(logging.CRITICAL)


def _build_exc(rng, gen):
    _quiet()
    return rng.choice(_exc_pool())


def _build_task(rng, gen):
    k = rng.randint(0, 99)
    # mostly ordinary failures; OSError / BdbQuit (the documented escapes) now and then
    exc = None if rng.random() < 0.5 else rng.choice(_exc_pool()[:7] if rng.random() < 0.8 else _exc_pool())
    return _StubTask(_StubLinted(f"f{k}.sql"), exc)


def _build_seq_runner(rng, gen):
    _quiet()
    from sqlfluff.core.linter.runner import SequentialRunner

    class StubSequentialRunner(SequentialRunner):
        """the real `run`; iter_partials replaced by a generator over prepared tasks that may fail at one position (= rendering of
        that file raises)"""

        def __init__(self, parts, render_exc, fail_at):
            self.parts, self.render_exc, self.fail_at = parts, render_exc, fail_at
            self.linter, self.config, self.skipped_file_count = None, None, 0

        def iter_partials(self, fnames, fix=False):
            for k, part in enumerate(self.parts):
                if self.render_exc is not None and k == self.fail_at:
                    raise self.render_exc
                yield part

        def __repr__(self):
            r = f", RENDERING of #{self.fail_at} raises {self.render_exc!r}" if self.render_exc is not None else ""
            return f"SequentialRunner(parts={self.parts!r}{r})"
    n = rng.randint(0, 3)
    parts = [(f"f{k}.sql", _build_task(rng, gen)) for k in range(n)]
    render_exc = rng.choice(_exc_pool()[:7]) if n and rng.random() < 0.3 else None
    return StubSequentialRunner(parts, render_exc, rng.randint(0, max(n - 1, 0)))


def _build_res(rng, gen):
    _quiet()
    from sqlfluff.core.linter.runner import DelayedException
    if rng.random() < 0.4:
        return _StubLinted("ok.sql")
    try:
        raise rng.choice(_exc_pool())
    except Exception as e:          # built inside a handler, as _apply does (captures the traceback)
        return DelayedException(e, fname="bad.sql")


_replay.BUILDERS["BaseException"] = _build_exc
_replay.BUILDERS["DeferredRenderTask"] = _build_task
_replay.BUILDERS["SequentialRunner"] = _build_seq_runner
_replay.BUILDERS["DelayedException"] = _build_res


TRUSTED = [
    "region contracts of Linter._parse_tokens / Linter.render_string / ParallelRunner.run: the statements before each verified range "
    "establish the declared types of its free variables; for `_parse_tokens#parse-funnel` also: `parser` was built from the same "
    "config that the pre-check range read (`Parser(config=config)`), and the statements between the two ranges (choice of the "
    "Python / Rust parser) change neither `tokens` nor `config`",
    "ASSUMED callee contracts name the exception classes the callee may raise: Parser.parse -> SQLParseError only; "
    "templater.process_with_variants -> SQLTemplaterError / SQLFluffSkipFile only; one file's render + lint in a runner -> any "
    "subclass of Exception (not KeyboardInterrupt / SystemExit / GeneratorExit).  The funnels are proved against these; whether "
    "the callees keep to them is the unproved, sampled half of C04",
    "generators are modelled as the list of what they yield (A6): an exception raised in mid-iteration is modelled as raised "
    "before the first element; the handlers of the funnels do not read loop state",
    "violation constructors (SQLParseError(...)), logging calls and message formatting inside the handlers do not raise "
    "(logger calls and message texts are dropped from the verified text)",
]
NOT_COVERED = [
    "SequentialRunner.run does NOT funnel exceptions raised while a file is RENDERED (BaseRunner.iter_partials -> iter_rendered -> "
    "Linter.render_file runs in the `for` header, outside the try): obligation SequentialRunner.run#render-phase/no-raise[Exception+]/p "
    "fails on the unchanged tree (a finding, not a gap of the check); ParallelRunner renders in the worker, inside _apply's try",
    "ParallelRunner.run outside the result loop: pool creation, `except KeyboardInterrupt`, pool.terminate()/join() in `finally`, and "
    "the transport of results between processes (multiprocessing / pickling) are not modelled; ParallelRunner.iter_partials with a "
    "templater that renders in the main process (dbt / sqlmesh plugins)",
    "the statements of Linter._parse_tokens between the two verified ranges (choice of the Python / Rust parser, Parser(config=config)) "
    "and of Linter.render_string before its verified range (newline normalisation, dialect check: may raise SQLFluffUserError by design)",
    "Linter.parse_rendered / lint_parsed / lint_fix_parsed / BaseRule.crawl funnels (lexing errors, rule exceptions): syntactic "
    "obligations and bounded runs only (contracts/c04_bounded.py)",
    "PythonTemplater.process: its own try/except (only KeyError is converted to SQLTemplaterError) sits in a nested function, outside "
    "the symbolic subset: bounded run only (contracts/c04_bounded.py: python_templater_errors)",
]

_L, _R = "sqlfluff/core/linter/linter.py", "sqlfluff/core/linter/runner.py"
_PT_HANDLER_TAIL = "            linter_logger.info(\"PARSING FAILED! : %s\", err)\n            violations.append(err)\n            return None, violations"
_PT_IF = "        if max_parse_nodes > 0 and len(tokens) > max_parse_nodes:"
_SEQ_HANDLER = "            except Exception as e:\n                self._handle_lint_path_exception(fname, e)\n\n\nclass ParallelRunner"
_PAR_HANDLER = "                        except Exception as e:\n                            self._handle_lint_path_exception(lint_result.fname, e)"
_PAR_SKIP = "                        linter_logger.warning(str(lint_result.ee))\n                        self.skipped_file_count += 1"
MUTANTS = [
    # ---- Linter._parse_tokens: the pre-check
    ("pt_precheck_ge", _L, _PT_IF, "        if max_parse_nodes > 0 and len(tokens) >= max_parse_nodes:"),
    ("pt_precheck_off_by_one", _L, _PT_IF, "        if max_parse_nodes > 0 and len(tokens) > max_parse_nodes + 1:"),
    ("pt_precheck_wrong_sign", _L, _PT_IF, "        if max_parse_nodes > 0 and len(tokens) < max_parse_nodes:"),
    ("pt_precheck_zero_not_disabled", _L, _PT_IF, "        if len(tokens) > max_parse_nodes:"),
    ("pt_parse_before_precheck", _L, "        assert isinstance(max_parse_nodes, int)\n        if max_parse_nodes > 0",
     "        assert isinstance(max_parse_nodes, int)\n        Parser(config=config).parse(tuple(tokens), fname=fname)\n        if max_parse_nodes > 0"),
    # ---- Linter._parse_tokens: the try around the parser
    ("pt_except_wrong_class", _L, "        except SQLParseError as err:\n            if err.segment is None:",
     "        except SQLLexError as err:\n            if err.segment is None:"),
    ("pt_except_removed", _L, "        except SQLParseError as err:\n            if err.segment is None:",
     "        except GeneratorExit as err:\n            if err.segment is None:"),
    ("pt_handler_reraises", _L, _PT_HANDLER_TAIL, "            linter_logger.info(\"PARSING FAILED! : %s\", err)\n            raise"),
    ("pt_handler_swallows", _L, _PT_HANDLER_TAIL, "            linter_logger.info(\"PARSING FAILED! : %s\", err)\n            parsed = None"),
    ("pt_unparsable_not_reported", _L, "            assert unparsable.pos_marker\n            violations.append(",
     "            assert unparsable.pos_marker\n            if not unparsable.is_code:\n                continue\n            violations.append("),
    # ---- Linter.render_string
    ("rs_except_wrong_class", _L, "        except SQLTemplaterError as templater_err:\n", "        except SQLLexError as templater_err:\n"),
    ("rs_error_not_recorded", _L, "            templater_violations.append(templater_err)\n        except SQLFluffSkipFile",
     "            pass\n        except SQLFluffSkipFile"),
    ("rs_handler_reraises", _L, "            templater_violations.append(templater_err)\n        except SQLFluffSkipFile",
     "            templater_violations.append(templater_err)\n            raise\n        except SQLFluffSkipFile"),
    ("rs_skipfile_escapes", _L, "        except SQLFluffSkipFile as skip_file_err:  # pragma: no cover\n            linter_logger.warning(str(skip_file_err))",
     "        except SQLFluffSkipFile as skip_file_err:  # pragma: no cover\n            linter_logger.warning(str(skip_file_err))\n            raise"),
    ("rs_skipfile_uncaught", _L, "        except SQLFluffSkipFile as skip_file_err:  # pragma: no cover\n",
     "        except SQLLexError as skip_file_err:  # pragma: no cover\n"),
    ("rs_violations_not_returned", _L, "        return RenderedFile(\n            templated_variants,\n            templater_violations,",
     "        return RenderedFile(\n            templated_variants,\n            [],"),
    # ---- the runners
    ("seq_except_narrowed", _R, _SEQ_HANDLER, _SEQ_HANDLER.replace("except Exception as e", "except SQLFluffSkipFile as e")),
    ("seq_handler_reraises", _R, _SEQ_HANDLER, _SEQ_HANDLER.replace("(fname, e)\n", "(fname, e)\n                raise\n")),
    ("seq_stops_after_failure", _R, _SEQ_HANDLER, _SEQ_HANDLER.replace("(fname, e)\n", "(fname, e)\n                break\n")),
    ("handle_propagates_every_exception", _R, "        if isinstance(e, IOError):", "        if isinstance(e, Exception):"),
    ("handle_swallows_oserror", _R, "        if isinstance(e, IOError):", "        if isinstance(e, KeyboardInterrupt):"),
    ("apply_except_narrowed", _R, "        except Exception as e:\n            return DelayedException(e, fname=fname)",
     "        except SQLFluffSkipFile as e:\n            return DelayedException(e, fname=fname)"),
    ("apply_handler_reraises", _R, "        except Exception as e:\n            return DelayedException(e, fname=fname)",
     "        except Exception as e:\n            raise"),
    ("apply_loses_file_name", _R, "            return DelayedException(e, fname=fname)", "            return DelayedException(e, fname=None)"),
    ("par_except_narrowed", _R, _PAR_HANDLER, _PAR_HANDLER.replace("except Exception as e", "except OSError as e")),
    ("par_reraise_unguarded", _R, "                        try:\n                            lint_result.reraise()\n" + _PAR_HANDLER,
     "                        lint_result.reraise()"),
    ("par_skipfile_reraised", _R, _PAR_SKIP, _PAR_SKIP + "\n                        lint_result.reraise()"),
    ("par_skipfile_not_counted", _R, _PAR_SKIP, "                        linter_logger.warning(str(lint_result.ee))"),
    ("par_stops_after_failure", _R, _PAR_HANDLER + "\n                else:", _PAR_HANDLER + "\n                            break\n                else:"),
    ("par_result_dropped", _R, "                    yield lint_result\n        except KeyboardInterrupt:",
     "                    if not fix:\n                        yield lint_result\n        except KeyboardInterrupt:"),
    ("reraise_loses_exception", _R, "        raise self.ee.with_traceback(self.tb)", "        raise RuntimeError(\"worker failed\")"),
]


def _precheck_after_parse():
    """the pre-check moved BEHIND the try around the parser (one contiguous edit, built from the current source text)"""
    import os
    import sqlfluff
    try:
        path = os.path.join(os.path.dirname(sqlfluff.__file__), "core", "linter", "linter.py")
        src = open(path, encoding="utf-8").read()
        a = src.index(_PT_IF + "\n")
        b = src.index("        # Use Rust parser if configured (experimental)\n", a)
        c = src.index("        if parsed is None:  # pragma: no cover\n", b)
        return [("pt_precheck_after_parse", _L, src[a:c], src[b:c] + src[a:b])]
    except (OSError, ValueError):
        return []


MUTANTS += _precheck_after_parse()
