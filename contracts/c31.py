"""C31 -- offset -> (line, column) conversion is exact.   Functions under contract:
   sqlfluff.core.templaters.base: iter_indices_of_newlines, TemplatedFile.get_line_pos_of_char_pos
   sqlfluff.core.parser.markers:  PositionMarker.infer_next_position
"""
from pyvc.dsl import contract, external, spec, lemma, implies, ref_class
from pyvc.ty import INT, BOOL, StrA, TList, TTuple, TRef

from . import external as _ext  # noqa: F401

PROP = "C31"


# ------------------------------------------------------------------ specification (from the property text)
@spec(recursive=True)
def cnt(s: StrA, x: INT) -> INT:
    """number of newlines strictly before offset x"""
    return 0 if x <= 0 else cnt(s, x - 1) + (1 if s[x - 1] == "\n" else 0)


@spec(recursive=True)
def lastnl(s: StrA, x: INT) -> INT:
    """greatest p < x with s[p] == newline, else -1"""
    return -1 if x <= 0 else (x - 1 if s[x - 1] == "\n" else lastnl(s, x - 1))


@spec
def pos(s, x):
    """line = 1 + newlines before the offset; column = 1-based position within the line"""
    return (1 + cnt(s, x), x - lastnl(s, x))


@spec
def is_nl_enum(s, L):
    """L is the strictly increasing enumeration of all newline indices of s"""
    return (all(0 <= L[i] < len(s) and s[L[i]] == "\n" for i in range(len(L)))
            and all(L[i] < L[j] for i in range(len(L)) for j in range(i + 1, len(L)))
            and all(implies(s[k] == "\n", any(L[i] == k for i in range(len(L)))) for k in range(len(s))))


@spec
def is_nl_enum_upto(s, L, hi):
    """L enumerates, strictly increasing, exactly the newline indices <= hi"""
    return (all(0 <= L[i] <= hi and L[i] < len(s) and s[L[i]] == "\n" for i in range(len(L)))
            and all(L[i] < L[j] for i in range(len(L)) for j in range(i + 1, len(L)))
            and all(implies(s[k] == "\n" and k <= hi, any(L[i] == k for i in range(len(L)))) for k in range(len(s))))


@spec
def is_bisect(L, x, r):
    return (0 <= r <= len(L) and all(L[i] < x for i in range(0, r)) and all(L[i] >= x for i in range(r, len(L))))


# ------------------------------------------------------------------ lemma: bisect rank == newline count
@lemma(measure=lambda s, L, x, r: x,
       hyps=lambda s, L, x, r: ((s, L, x - 1, (r - 1 if s[x - 1] == "\n" else r)),),
       props=(PROP,))
def L_rank(s: StrA, L: TList(INT), x: INT, r: INT):
    return implies(is_nl_enum(s, L) and 0 <= x <= len(s) and is_bisect(L, x, r),
                   cnt(s, x) == r and (L[r - 1] if r > 0 else -1) == lastnl(s, x))


# ------------------------------------------------------------------ contracts
@contract("sqlfluff.core.templaters.base:iter_indices_of_newlines", PROP)
class iter_indices_of_newlines:
    opts = {"alphabet": "a\n \r\x0c\x0b\u2028\x85", "max_len": 6}
    types = {"raw_str": StrA, "nl_pos": INT, "init_idx": INT}
    ghost_yield = INT
    ret = TList(INT)

    def ensures(raw_str, result):
        return is_nl_enum(raw_str, result)

    def inv_1(raw_str, init_idx, _yielded):
        return (-1 <= init_idx and (init_idx < len(raw_str) or init_idx == -1)
                and is_nl_enum_upto(raw_str, _yielded, init_idx))

    def dec_1(raw_str, init_idx):
        return len(raw_str) - init_idx


from .types import TemplatedFile  # noqa: E402


@contract("sqlfluff.core.templaters.base:TemplatedFile.get_line_pos_of_char_pos", PROP)
class get_line_pos_of_char_pos:
    opts = {"alphabet": "a\n \r\x0c\x0b\u2028\x85", "max_len": 6}
    types = {"self": TemplatedFile, "char_pos": INT, "source": BOOL}
    ret = TTuple(INT, INT)

    def requires(self, char_pos, source):
        # class invariant (established by TemplatedFile.__init__, see C07/C31 __init__ contract)
        return (is_nl_enum(self.source_str, self._source_newlines)
                and is_nl_enum(self.templated_str, self._templated_newlines)
                and 0 <= char_pos <= len(self.source_str if source else self.templated_str))

    def ensures(self, char_pos, source, result):
        return result == pos(self.source_str if source else self.templated_str, char_pos)

    def hint_post(self, char_pos, source, result):
        return L_rank(self.source_str if source else self.templated_str,
                      self._source_newlines if source else self._templated_newlines,
                      char_pos, result[0] - 1)


@external("str.split")
class str_split_nl:
    """"raw.split('\\n')": 1 + (number of newlines) pieces; the last piece is the text after the last newline."""
    types = {"self": StrA, "sep": StrA}
    ret = TList(StrA)

    def requires(self, sep):
        return sep == "\n"

    def ensures(self, sep, result):
        return (len(result) >= 1 and len(result) == 1 + cnt(self, len(self))
                and len(result[len(result) - 1]) == len(self) - 1 - lastnl(self, len(self)))


@contract("sqlfluff.core.parser.markers:PositionMarker.infer_next_position", PROP)
class infer_next_position:
    opts = {"alphabet": "a\n \r\x0c\x0b\u2028\x85", "max_len": 6}
    types = {"raw": StrA, "line_no": INT, "line_pos": INT}
    ret = TTuple(INT, INT)

    def ensures(raw, line_no, line_pos, result):
        return result == (line_no + cnt(raw, len(raw)),
                          line_pos + len(raw) if cnt(raw, len(raw)) == 0 else len(raw) - lastnl(raw, len(raw)))


TRUSTED = ["z3 RecFunction unfolding of the spec functions cnt / lastnl"]
NOT_COVERED = ["callers outside the three functions (who passes which offset) are covered under C23"]

MUTANTS = [
    ("bisect_right", "sqlfluff/core/templaters/base.py", "nl_idx = bisect_left(ref_str, char_pos)", "nl_idx = bisect_right(ref_str, char_pos)"),
    ("col_off_by_one", "sqlfluff/core/templaters/base.py", "return nl_idx + 1, char_pos - ref_str[nl_idx - 1]", "return nl_idx + 1, char_pos - ref_str[nl_idx - 1] + 1"),
    ("first_line_col", "sqlfluff/core/templaters/base.py", "return 1, char_pos + 1", "return 1, char_pos"),
    ("skip_adjacent_newline", "sqlfluff/core/templaters/base.py", 'nl_pos = raw_str.find("\\n", init_idx + 1)', 'nl_pos = raw_str.find("\\n", init_idx + 2)'),
    ("infer_last_line", "sqlfluff/core/parser/markers.py", "line_pos + len(raw) if len(split) == 1 else len(split[-1]) + 1", "line_pos + len(raw) if len(split) == 1 else len(split[-1])"),
    ("infer_line_count", "sqlfluff/core/parser/markers.py", "line_no + len(split) - 1,", "line_no + len(split),"),
]


# the class invariant that get_line_pos_of_char_pos requires is established by TemplatedFile.__init__ (contract in c07.py,
# registered for C31 as well): "this holds for both the source and the rendered text"
from . import c07 as _c07  # noqa: E402,F401
