"""C11 -- bounded stand-ins and syntactic obligations (NOT proofs; every result is labelled with its bound).

EXTRA    get_encoding_static        syntactic obligation over the real AST of core/helpers/file.py:get_encoding: the bytes the
                                    verdict is computed from are an unbounded read of the file
BOUNDED  get_encoding_whole_file    executable contract of get_encoding (from the property: the chosen encoding decodes the WHOLE
                                    file strictly and re-encodes to the same bytes), ASCII headers of 0 .. 300 000 bytes
         large_file_round_trip      read -> one fix -> write on disk with ASCII headers of 5 000 / 70 000 / 300 000 bytes followed by
                                    non-ASCII UTF-8 text (LF and CRLF): only the fixed range changes, at byte level
         e2e_api / e2e_file         generated inputs with one fixable violation at a known place and VT FF FS GS RS NEL LS PS / CR /
                                    non-ASCII characters inside comments and string literals, through Linter.lint_string,
                                    sqlfluff.fix, Linter.lint_paths + persist_changes and the `sqlfluff fix` command
         bom_round_trip             files with a UTF-8 / UTF-16 / UTF-32 byte order mark, both byte orders

The oracle of every end-to-end check is written from the property: the input is a list of chunks, some marked editable (the
text the one applicable fix rewrites); after CRLF / CR -> LF the output must be the protected chunks, verbatim and in order,
with arbitrary text in place of the editable ones.
"""
import ast
import codecs
import inspect
import os
import re
import shutil
import tempfile

PROP = "C11"

# characters that str.splitlines / regex \R / jinja treat as line boundaries but the property does not: only CR LF and CR are
# line endings to normalise
SPECIALS = "\x0b\x0c\x1c\x1d\x1e\x85\u2028\u2029"
NAMES = {"\x0b": "VT", "\x0c": "FF", "\x1c": "FS", "\x1d": "GS", "\x1e": "RS", "\x85": "NEL", "\u2028": "LS", "\u2029": "PS", "\r": "CR",
         "é": "e-acute", "名": "CJK", "a": "letter"}


def lfn(s):
    """the property's line-ending normalisation, on text"""
    return s.replace("\r\n", "\n").replace("\r", "\n")


def lfb(b):
    """... and on bytes (ASCII-compatible encodings)"""
    return b.replace(b"\r\n", b"\n").replace(b"\r", b"\n")


def _matches(chunks, out):
    """chunks: [(text-or-bytes, editable)], already LF-normalised; out: the LF-normalised output.
    True iff out == the protected chunks, in order, with anything in place of the editable ones."""
    is_b = isinstance(out, bytes)
    anyp = b"(?:.*?)" if is_b else "(?:.*?)"
    pat = (b"" if is_b else "").join(anyp if ed else re.escape(t) for t, ed in chunks)
    return re.fullmatch(pat, out, flags=re.DOTALL) is not None


def _first_diff(a, b):
    n = min(len(a), len(b))
    for i in range(n):
        if a[i] != b[i]:
            return i
    return n


def _explain(chunks, out):
    """for the failure report only: where the output first departs from the protected text (greedy left-to-right placement of
    the chunks).  Returns {"at", "expected_there", "output_there"}."""
    pos, k = 0, 0
    while k < len(chunks):
        t, ed = chunks[k]
        if ed:
            nxt = chunks[k + 1][0] if k + 1 < len(chunks) else None
            if nxt is None:
                return {"at": pos, "note": "only editable text remains"}
            # place the next protected chunk at the first offset where its longest prefix is found
            j = out.find(nxt[:16], pos) if len(nxt) > 0 else pos
            pos = j if j >= 0 else pos
            k += 1
            continue
        if out[pos:pos + len(t)] == t:
            pos += len(t)
            k += 1
            continue
        i = _first_diff(t, out[pos:pos + len(t)])
        return {"at": pos + i, "expected_there": _excerpt(t, i, 24), "output_there": _excerpt(out, pos + i, 24)}
    if pos != len(out):
        return {"at": pos, "expected_there": "end of text", "output_there": _excerpt(out, pos, 24)}
    return {"at": None}


def _excerpt(x, i, w=40):
    return repr(x[max(0, i - w):i + w])


def _failure(oid, function, detail):
    return {"name": oid, "id": oid, "kind": "bounded", "status": "failed", "function": function, "detail": detail, "reproduced": True}


# =============================================================================================== generated inputs
def templates(sp, lone_cr=False):
    """[(name, rules, templater, chunks)]: one fixable violation at a known place (the editable chunk), the character `sp` inside
    a block comment, a string literal, an inline comment (and a Jinja comment).  Written with LF; the caller converts to CRLF.
    `lone_cr`: additionally a lone CR inside the block comment and the string literal (never inside an inline comment, which a
    line ending would terminate)."""
    cr = "\r" if lone_cr else ""
    head = f"/* header{sp}page{cr}two */\n"
    lit = f"'x{sp}y{cr}z'"
    out = [
        ("CP01-keyword-case", "CP01", "raw",
         [(head + f"SELECT\n    a,\n    {lit} AS b, -- pr{sp}nom\n    c /* m{sp}n */\n", False), ("from", True), (" tbl\n", False)]),
        ("LT01-spacing", "LT01", "raw",
         [(head + "SELECT a,", False), ("    ", True), (f"{lit} AS b -- t{sp}t\nFROM tbl\n", False)]),
        ("LT12-final-newline", "LT12", "raw",
         [(head + f"SELECT {lit} AS b -- t{sp}t\nFROM tbl", False), ("", True)]),
        ("CP01-jinja", "CP01", "jinja",
         [(head + f"{{# note{sp}j #}}\nSELECT\n    {{{{ col }}}},\n    {lit} AS b -- pr{sp}nom\n", False), ("from", True),
          (" {{ tbl }}\n", False)]),
    ]
    return out


def _config(rules, templater="raw", **over):
    from sqlfluff.core import FluffConfig
    ov = {"dialect": "ansi", "rules": rules, "templater": templater, "large_file_skip_byte_limit": 0}
    ov.update(over)
    return FluffConfig(overrides=ov, configs={"templater": {"jinja": {"context": {"tbl": "my_tbl", "col": "my_col"}}}})


def _cases(tier):
    chars = list(SPECIALS) + ["é", "名", "a"]
    for sp in chars:
        for nl in ("\n", "\r\n"):
            for lone in ((False, True) if (nl == "\n" or tier == "thorough") else (False,)):
                for name, rules, templater, chunks in templates(sp, lone):
                    chunks = [(t.replace("\n", nl), ed) for t, ed in chunks]
                    yield sp, nl, lone, name, rules, templater, chunks


# =============================================================================================== end to end: API
def e2e_api(tier, seed):
    """BOUNDED: Linter.lint_string(fix=True).fix_string() and sqlfluff.fix() on the generated strings"""
    import sqlfluff
    from sqlfluff.core import Linter
    ev, nontriv, failed, samples, seen_ids = 0, 0, [], [], set()
    for sp, nl, lone, name, rules, templater, chunks in _cases(tier):
        raw = "".join(t for t, _ in chunks)
        want = [(lfn(t), ed) for t, ed in chunks]
        routes = [("Linter.lint_string+fix_string", lambda: Linter(config=_config(rules, templater)).lint_string(raw, fix=True).fix_string()[0])]
        if templater == "raw":
            routes.append(("sqlfluff.fix", lambda: sqlfluff.fix(raw, dialect="ansi", rules=[rules])))
        for route, run in routes:
            ev += 1
            got = run()
            applied = got != lfn(raw)
            nontriv += 1 if (applied and sp != "a") else 0
            ok = _matches(want, got)
            if len(samples) < 3 and applied and sp in SPECIALS and ok:
                samples.append({"template": name, "route": route, "input": repr(raw), "output": repr(got)})
            oid = f"C11/e2e-api/untouched-text[{name}]"
            if not ok and oid not in seen_ids:
                seen_ids.add(oid)
                failed.append(_failure(oid, "sqlfluff.core.linter.linter:Linter.lint_string", {
                    "route": route, "character": NAMES.get(sp, repr(sp)), "newline": repr(nl), "lone_cr": lone, "rules": rules, "templater": templater,
                    "input": repr(raw), "output": repr(got), "editable_chunks": [repr(t) for t, ed in chunks if ed],
                    "protected_text_first_broken": _explain(want, got)}))
    return {"name": "e2e-api-untouched-text",
            "bound": (f"{len(SPECIALS)} line-boundary-like characters (VT FF FS GS RS NEL LS PS) + e-acute, a CJK letter, a plain letter, each inside a block "
                      "comment, a string literal, an inline comment and a Jinja comment; LF and CRLF files, with and without a lone CR in the block "
                      "comment / literal; 4 templates (CP01, LT01, LT12 raw; CP01 jinja) x 2 API routes"),
            "rule": "non-trivial = the fix was applied and the character is not the plain letter; oracle = protected chunks verbatim, in order, after CRLF/CR -> LF",
            "evaluations": ev, "distinct_nontrivial": nontriv, "samples": samples, "failed": failed}


# =============================================================================================== end to end: files
def _encodings():
    """(label, configured encoding, BOM, codec of the payload, byte-level LF normalisation applicable)"""
    return [
        ("utf-8-configured", "utf-8", b"", "utf-8"),
        ("autodetect-utf-8", "autodetect", b"", "utf-8"),
        ("autodetect-utf-8-bom", "autodetect", codecs.BOM_UTF8, "utf-8"),
        ("latin-1-configured", "latin-1", b"", "latin-1"),
        ("autodetect-utf-16-le-bom", "autodetect", codecs.BOM_UTF16_LE, "utf-16-le"),
    ]


def _norm_out(out, bom, codec):
    """LF-normalise the written file.  Multi-byte code units: through the text (left alone if it does not decode)."""
    if codec in ("utf-8", "latin-1"):
        return lfb(out)
    if not out.startswith(bom):
        return out
    try:
        return bom + lfn(out[len(bom):].decode(codec)).encode(codec)
    except UnicodeError:
        return out


def _persist(path, rules, templater, enc, route):
    """fix the file in place through the chosen route; returns the encoding the linter used (None for the CLI)"""
    if route == "cli":
        from click.testing import CliRunner
        from sqlfluff.cli.commands import fix
        args = ["--dialect", "ansi", "--rules", rules, "--templater", templater, "--ignore-local-config", "--disable-progress-bar",
                "--encoding", enc, path]
        r = CliRunner().invoke(fix, args)
        if r.exception is not None and not isinstance(r.exception, SystemExit):
            raise r.exception
        return None
    from sqlfluff.core import Linter
    res = Linter(config=_config(rules, templater, encoding=enc)).lint_paths((path,), fix=True, apply_fixes=False)
    used = res.paths[0].files[0].encoding if res.paths and res.paths[0].files else None
    res.persist_changes(formatter=None)
    return used


def e2e_file(tier, seed):
    """BOUNDED: the generated inputs as files in several encodings, fixed on disk (lint_paths + persist_changes; `sqlfluff fix`)"""
    ev, nontriv, failed, samples, seen_ids = 0, 0, [], [], set()
    d = tempfile.mkdtemp(prefix="c11e_")
    try:
        k = 0
        for sp, nl, lone, name, rules, templater, chunks in _cases(tier):
            if name == "LT01-spacing" and tier != "thorough":
                continue
            for label, cfg_enc, bom, codec in _encodings():
                try:
                    bchunks = [(t.encode(codec), ed) for t, ed in chunks]
                except UnicodeError:
                    continue          # the character does not exist in this encoding
                k += 1
                # the CLI route costs more: every 4th case in the quick tier
                routes = ["api"] + (["cli"] if (tier == "thorough" or k % 4 == 0) and templater == "raw" else [])
                raw = bom + b"".join(t for t, _ in bchunks)
                want = ([(bom, False)] if bom else []) + [(lfn(t).encode(codec), ed) for t, ed in chunks]
                for route in routes:
                    p = os.path.join(d, f"f{k}_{route}.sql")
                    with open(p, "wb") as f:
                        f.write(raw)
                    ev += 1
                    used = _persist(p, rules, templater, cfg_enc, route)
                    with open(p, "rb") as f:
                        out = f.read()
                    os.unlink(p)
                    applied = out != raw
                    nontriv += 1 if (applied and sp != "a") else 0
                    ok = _matches(want, _norm_out(out, bom, codec))
                    if len(samples) < 3 and applied and ok and sp in SPECIALS and label != "utf-8-configured":
                        samples.append({"template": name, "encoding": label, "route": route, "bytes": repr(raw), "written": repr(out)})
                    oid = f"C11/e2e-file/untouched-bytes[{label}]"
                    if not ok and oid not in seen_ids:
                        seen_ids.add(oid)
                        failed.append(_failure(oid, "sqlfluff.core.linter.linted_file:LintedFile.persist_tree", {
                            "route": route, "template": name, "character": NAMES.get(sp, repr(sp)), "newline": repr(nl), "lone_cr": lone,
                            "configured_encoding": cfg_enc, "encoding_used": used, "bytes": repr(raw), "written_back": repr(out),
                            "editable_chunks": [repr(t) for t, ed in bchunks if ed],
                            "protected_bytes_first_broken": _explain(want, _norm_out(out, bom, codec))}))
        # "a file with no applicable fixes is not rewritten": same bytes, same inode, same mtime
        for sp in ("\x0c", "\u2028", "é"):
            for nl in ("\n", "\r\n"):
                raw = f"/* h{sp}p */\nSELECT 'x{sp}y' AS b -- t{sp}t\nFROM tbl\n".replace("\n", nl).encode("utf-8")
                for route in ("api", "cli"):
                    p = os.path.join(d, f"clean_{route}.sql")
                    with open(p, "wb") as f:
                        f.write(raw)
                    os.utime(p, ns=(10 ** 18, 10 ** 18))
                    st0 = os.stat(p)
                    ev += 1
                    _persist(p, "CP01,LT01,LT12", "raw", "autodetect", route)
                    st1 = os.stat(p)
                    with open(p, "rb") as f:
                        out = f.read()
                    os.unlink(p)
                    oid = "C11/e2e-file/not-rewritten"
                    if (out != raw or st0.st_ino != st1.st_ino or st0.st_mtime_ns != st1.st_mtime_ns) and oid not in seen_ids:
                        seen_ids.add(oid)
                        failed.append(_failure(oid, "sqlfluff.core.linter.linted_file:LintedFile.persist_tree", {
                            "route": route, "bytes": repr(raw), "after": repr(out), "same_inode": st0.st_ino == st1.st_ino,
                            "same_mtime": st0.st_mtime_ns == st1.st_mtime_ns, "note": "no rule of CP01,LT01,LT12 applies to this file"}))
    finally:
        shutil.rmtree(d, ignore_errors=True)
    return {"name": "e2e-file-untouched-bytes",
            "bound": (f"the inputs of e2e-api-untouched-text as files in {len(_encodings())} encodings (utf-8 and latin-1 configured; autodetected utf-8 without / "
                      "with BOM, utf-16-le with BOM), fixed on disk by Linter.lint_paths + persist_changes and (every 4th case in the quick tier) by the "
                      "`sqlfluff fix` command; plus 12 files without any applicable fix (bytes, inode and mtime unchanged)"),
            "rule": "non-trivial = the file was rewritten and the character is not the plain letter; byte-level oracle after CRLF/CR -> LF",
            "evaluations": ev, "distinct_nontrivial": nontriv, "samples": samples, "failed": failed}


# =============================================================================================== BOMs
def bom_round_trip(tier, seed):
    """BOUNDED: a file that starts with a byte order mark, one fix applied: every byte outside the fixed range is written back"""
    text = [("SELECT\n    'Zürich – café' AS b, -- prénom 名前\n    c\n", False), ("from", True), (" tbl\n", False)]
    encs = [("utf-8-sig", codecs.BOM_UTF8, "utf-8"), ("utf-16-le", codecs.BOM_UTF16_LE, "utf-16-le"), ("utf-16-be", codecs.BOM_UTF16_BE, "utf-16-be"),
            ("utf-32-le", codecs.BOM_UTF32_LE, "utf-32-le"), ("utf-32-be", codecs.BOM_UTF32_BE, "utf-32-be")]
    ev, nontriv, failed, samples = 0, 0, [], []
    d = tempfile.mkdtemp(prefix="c11b_")
    try:
        for label, bom, codec in encs:
            done = False
            for nl in ("\n", "\r\n"):
                chunks = [(t.replace("\n", nl), ed) for t, ed in text]
                raw = bom + "".join(t for t, _ in chunks).encode(codec)
                want = [(bom, False)] + [(lfn(t).encode(codec), ed) for t, ed in chunks]
                p = os.path.join(d, "f.sql")
                with open(p, "wb") as f:
                    f.write(raw)
                ev += 1
                used = _persist(p, "CP01", "raw", "autodetect", "api")
                with open(p, "rb") as f:
                    out = f.read()
                applied = out != raw
                nontriv += 1 if applied else 0
                nout = _norm_out(out, bom, codec)
                ok = _matches(want, nout)
                if ok and len(samples) < 2 and applied:
                    samples.append({"encoding": label, "bytes": repr(raw[:40]), "written": repr(out[:40])})
                if not ok and not done:
                    done = True
                    try:
                        # is it only the encoding form (byte order) that changed?
                        t_in = lfn(raw.decode(used or "utf-8"))
                        t_out = out.decode(used or "utf-8")
                        text_ok = _matches([(lfn(t), ed) for t, ed in chunks], t_out)
                    except Exception:
                        t_in, text_ok = None, False
                    failed.append(_failure(f"C11/bom-round-trip[{label}]", "sqlfluff.core.linter.linted_file:LintedFile._safe_create_replace_file", {
                        "encoding_of_the_file": label, "encoding_used": used, "newline": repr(nl), "bytes": repr(raw), "written_back": repr(out),
                        "characters_outside_the_fix_preserved": text_ok, "protected_bytes_first_broken": _explain(want, nout)}))
    finally:
        shutil.rmtree(d, ignore_errors=True)
    return {"name": "bom-round-trip", "bound": f"{len(encs)} byte order marks (utf-8, utf-16 le/be, utf-32 le/be) x LF/CRLF, one CP01 fix, encoding autodetected",
            "rule": "non-trivial = the file was rewritten; byte-level oracle", "evaluations": ev, "distinct_nontrivial": nontriv, "samples": samples, "failed": failed}


# =============================================================================================== large files
HEADER_LINE = "-- Licensed under the Apache License, Version 2.0; see the LICENSE file.\n"
LARGE_SIZES = (5000, 70000, 300000)
NON_ASCII_TAILS = [
    "    'Zürich – café' AS città, -- prénom, 名前, Straße\n    amount AS total /* montant réglé en € */\n",
    "    'café' AS b -- é\n",
    "    '名前' AS b /* 日本語 */\n",
    "    'Жд' AS b, -- αβγ €\n    '한' AS c\n",
]


def ascii_header(n):
    """exactly n bytes of ASCII comment lines"""
    if n == 0:
        return ""
    s = HEADER_LINE * (n // len(HEADER_LINE) + 1)
    return s[:n - 1] + "\n"


def large_file_round_trip(tier, seed):
    """BOUNDED: UTF-8 files (no BOM, encoding autodetected) with an ASCII-only header of 5 000 / 70 000 / 300 000 bytes before the
    first non-ASCII character; one CP01 fix far from the non-ASCII text; byte-level oracle."""
    ev, nontriv, failed, samples = 0, 0, [], []
    d = tempfile.mkdtemp(prefix="c11l_")
    try:
        for n in LARGE_SIZES:
            done = False
            hdr = ascii_header(n)
            layouts = [
                # the fix is at the very start of the file, the non-ASCII text at its end
                ("fix-first", [("SELECT a ", False), ("from", True), (" t1;\n" + hdr + "SELECT\n" + NON_ASCII_TAILS[0] + "FROM customers\n", False)]),
                # the fix follows the non-ASCII text (the shape of a licence header + query)
                ("fix-last", [(hdr + "SELECT\n" + NON_ASCII_TAILS[0], False), ("from", True), (" customers\n", False)]),
            ]
            for lname, text in layouts:
                for nl in ("\n", "\r\n"):
                    chunks = [(t.replace("\n", nl), ed) for t, ed in text]
                    raw = "".join(t for t, _ in chunks).encode("utf-8")
                    want = [(lfn(t).encode("utf-8"), ed) for t, ed in chunks]
                    p = os.path.join(d, "f.sql")
                    with open(p, "wb") as f:
                        f.write(raw)
                    ev += 1
                    used = _persist(p, "CP01", "raw", "autodetect", "api")
                    with open(p, "rb") as f:
                        out = f.read()
                    applied = out != raw
                    nontriv += 1 if applied else 0
                    nout = lfb(out)
                    ok = applied and _matches(want, nout)
                    if ok and len(samples) < 3 and nl == "\r\n":
                        samples.append({"header_bytes": n, "layout": lname, "file_bytes": len(raw), "encoding_used": used, "written_tail": repr(out[-60:])})
                    if not ok and not done:
                        done = True
                        failed.append(_failure(f"C11/large-file-round-trip[header={n}]", "sqlfluff.core.helpers.file:get_encoding", {
                            "header_bytes": n, "layout": lname, "newline": repr(nl), "file_bytes": len(raw), "detected_encoding": used,
                            "fix_applied": applied, "protected_bytes_first_broken": _explain(want, nout), "written_tail": repr(out[-120:]),
                            "input": f"<H> = ascii_header({n}): {HEADER_LINE!r} repeated and cut to {n} bytes; chunks (text, editable), LF form: "
                                     + repr([(t.replace(hdr, "<H>") if hdr else t, ed) for t, ed in text])}))
    finally:
        shutil.rmtree(d, ignore_errors=True)
    return {"name": "large-file-round-trip",
            "bound": f"ASCII headers of {LARGE_SIZES} bytes + non-ASCII UTF-8 text, 2 layouts (fix before the header / after the non-ASCII text) x LF/CRLF, encoding autodetected",
            "rule": "non-trivial = the file was rewritten; byte-level oracle after CRLF -> LF", "evaluations": ev, "distinct_nontrivial": nontriv,
            "samples": samples, "failed": failed}


# =============================================================================================== get_encoding: executable contract
ENC_SIZES = (0, 4000, 4096, 4200, 5000, 70000, 300000)


def get_encoding_whole_file(tier, seed):
    """BOUNDED executable contract of get_encoding, from the property: whatever it answers is what the file is read and written
    back with, so for a file that IS text in some encoding the answer must decode the WHOLE content strictly (else
    errors='backslashreplace' rewrites the bytes) and encode it back to the same bytes.  A configured encoding is returned as is."""
    from sqlfluff.core.helpers.file import get_encoding
    ev, nontriv, failed, samples = 0, 0, [], []
    d = tempfile.mkdtemp(prefix="c11g_")
    p = os.path.join(d, "f.sql")
    try:
        for n in ENC_SIZES:
            done = False
            hdr = ascii_header(n)
            for bom in (b"", codecs.BOM_UTF8):
                for tail in NON_ASCII_TAILS:
                    for nl in ("\n", "\r\n"):
                        content = bom + (hdr + "SELECT\n" + tail + "FROM t\n").replace("\n", nl).encode("utf-8")
                        with open(p, "wb") as f:
                            f.write(content)
                        ev += 1
                        nontriv += 1
                        enc = get_encoding(p, "autodetect")
                        try:
                            back = content.decode(enc).encode(enc)
                            err = None
                        except (UnicodeError, LookupError) as e:
                            back, err = None, repr(e)[:200]
                        conf = get_encoding(p, "latin-1")
                        ok = back == content and conf == "latin-1"
                        if ok and len(samples) < 3 and n >= 4096 and not bom:
                            samples.append({"header_bytes": n, "file_bytes": len(content), "answer": enc})
                        if not ok and not done:
                            done = True
                            failed.append(_failure(f"C11/get_encoding/whole-file[header={n}]", "sqlfluff.core.helpers.file:get_encoding", {
                                "header_bytes": n, "file_bytes": len(content), "bom": repr(bom), "newline": repr(nl), "answer": enc,
                                "strict_decode_error": err, "answer_for_configured_latin-1": conf,
                                "content": f"{bom!r} + ascii_header({n}) + " + repr(("SELECT\n" + tail + "FROM t\n").replace("\n", nl)),
                                "first_non_ascii_byte_at": next(i for i, b in enumerate(content[len(bom):]) if b >= 128) + len(bom)}))
        # files in a single-byte code page (no BOM, not UTF-8): the detector has to SEE the late non-ASCII bytes to answer with a
        # codec that decodes them; kept below 200 000 bytes, the prefix chardet itself samples
        sb_tails = ["    'caf\u00e9 Z\u00fcrich Stra\u00dfe' AS b -- pr\u00e9nom\n", "    'na\u00efve fa\u00e7ade' AS b, 'se\u00f1or' AS c /* d\u00e9j\u00e0 vu */\n"]
        for n in (0, 4096, 5000, 70000):
            done = False
            for tail in sb_tails:
                content = (ascii_header(n) + "SELECT\n" + tail + "FROM t\n").encode("cp1252")
                with open(p, "wb") as f:
                    f.write(content)
                ev += 1
                nontriv += 1
                enc = get_encoding(p, "autodetect")
                try:
                    back, err = content.decode(enc).encode(enc), None
                except (UnicodeError, LookupError) as e:
                    back, err = None, repr(e)[:200]
                if back != content and not done:
                    done = True
                    failed.append(_failure(f"C11/get_encoding/whole-file[cp1252,header={n}]", "sqlfluff.core.helpers.file:get_encoding", {
                        "header_bytes": n, "file_bytes": len(content), "file_encoding": "cp1252", "answer": enc, "strict_decode_error": err,
                        "content": f"ascii_header({n}) + " + repr("SELECT\n" + tail + "FROM t\n") + ".encode('cp1252')"}))
    finally:
        shutil.rmtree(d, ignore_errors=True)
    return {"name": "get_encoding-decodes-whole-file",
            "bound": f"ASCII headers of {ENC_SIZES} bytes x {len(NON_ASCII_TAILS)} non-ASCII UTF-8 tails x LF/CRLF x without/with UTF-8 BOM; plus cp1252 files with headers of 0/4096/5000/70000 bytes x 2 tails",
            "rule": "non-trivial = every case (all contain non-ASCII text); contract: content.decode(answer).encode(answer) == content, strict",
            "evaluations": ev, "distinct_nontrivial": nontriv, "samples": samples, "failed": failed}


# =============================================================================================== get_encoding: syntactic obligation
READ_METHODS = ("read", "read1", "readline", "readlines", "readinto", "peek")
WHOLE_METHODS = ("read_bytes",)
OK_RECEIVER_METHODS = ("startswith", "isascii", "decode", "endswith")
BACKEND = "syntactic obligation over the real AST (ast.parse of the imported source)"


def _is_unbounded_read(call):
    """f.read() / f.read(-1) / f.read(None) / path.read_bytes()"""
    if not isinstance(call.func, ast.Attribute):
        return False
    if call.func.attr in WHOLE_METHODS and not call.args and not call.keywords:
        return True
    if call.func.attr != "read" or call.keywords:
        return False
    if not call.args:
        return True
    a = call.args[0]
    if len(call.args) == 1 and isinstance(a, ast.Constant) and a.value in (None, -1):
        return True
    return (len(call.args) == 1 and isinstance(a, ast.UnaryOp) and isinstance(a.op, ast.USub) and isinstance(a.operand, ast.Constant)
            and a.operand.value == 1)


def get_encoding_static(tier, seed):
    """EXTRA: `get_encoding` computes its verdict from an unbounded read of the file.
    discharged: every read of the file in the function is unbounded, it is bound once to a name D, and D reaches the checks
                whole (as the argument of a call, the receiver of startswith/isascii/decode, the iterable of a comprehension;
                slices of D only as operands of comparisons / startswith receivers, i.e. BOM tests)
    failed:     the function has no unbounded read and reads a bounded number of bytes outside any loop (the verdict cannot
                depend on the rest of the file)
    undecided:  any other shape (reported, never silently accepted)"""
    import sqlfluff.core.helpers.file as m
    KEY = "sqlfluff.core.helpers.file:get_encoding"
    OID = "C11/get_encoding/static/whole-file-read"
    src = inspect.getsource(m)
    tree = ast.parse(src)
    fn = next((n for n in tree.body if isinstance(n, ast.FunctionDef) and n.name == "get_encoding"), None)
    res = {"name": "C11-get_encoding-static", "obligations": 1, "discharged": 0, "failed": [], "undecided": [], "samples": [], "backend": BACKEND,
           "trusted": ["CPython ast.parse of the real source of core/helpers/file.py (re-read on every run, --src honoured)",
                       "the encoding detector (chardet.detect) examines all the bytes it is handed -- NOT true of chardet >= 7 beyond its "
                       "max_bytes window; the executable contract C11/get_encoding/whole-file[...] checks the composition"]}
    if fn is None:
        res["undecided"].append({"function": KEY, "obligation": OID, "reason": "get_encoding not found in core/helpers/file.py"})
        return res
    parent = {}
    for p in ast.walk(fn):
        for ch in ast.iter_child_nodes(p):
            parent[ch] = p

    def in_loop(n):
        while n in parent:
            n = parent[n]
            if isinstance(n, (ast.For, ast.While, ast.AsyncFor, ast.ListComp, ast.GeneratorExp, ast.SetComp, ast.DictComp)):
                return True
        return False

    def where(n):
        return f"sqlfluff/core/helpers/file.py:{getattr(n, 'lineno', '?')}  {ast.unparse(n)[:120]}"

    reads = [c for c in ast.walk(fn) if isinstance(c, ast.Call) and isinstance(c.func, ast.Attribute)
             and c.func.attr in READ_METHODS + WHOLE_METHODS]
    unbounded = [c for c in reads if _is_unbounded_read(c)]
    bounded = [c for c in reads if not _is_unbounded_read(c)]
    if not unbounded and bounded and not any(in_loop(c) for c in bounded):
        res["failed"].append({"name": OID, "id": OID, "kind": "syntactic", "status": "failed", "function": KEY, "backend": BACKEND, "reproduced": True,
                              "detail": {"bounded reads, none in a loop, and no unbounded read": [where(c) for c in bounded],
                                         "consequence": "the encoding verdict cannot depend on the bytes after the sample: a UTF-8 file whose "
                                                        "sample is ASCII-only is read as ascii with errors='backslashreplace' and its later "
                                                        "non-ASCII characters are written back as escape text"}})
        return res
    problems = []
    if not unbounded:
        problems.append("no unbounded read of the file found")
    for c in bounded:
        problems.append("size-limited read: " + where(c))
    names = set()
    for c in unbounded:
        par = parent.get(c)
        if isinstance(par, ast.Assign) and len(par.targets) == 1 and isinstance(par.targets[0], ast.Name) and par.value is c:
            names.add(par.targets[0].id)
        else:
            problems.append("the unbounded read is not bound to a name by a plain assignment: " + where(par if par is not None else c))
    if len(names) > 1:
        problems.append(f"several content variables: {sorted(names)}")
    for d in names:
        stores = [n for n in ast.walk(fn) if isinstance(n, ast.Name) and n.id == d and isinstance(n.ctx, (ast.Store, ast.Del))]
        if len(stores) != 1:
            problems.append(f"`{d}` is bound {len(stores)} times")
        for n in ast.walk(fn):
            if not (isinstance(n, ast.Name) and n.id == d and isinstance(n.ctx, ast.Load)):
                continue
            par = parent.get(n)
            if isinstance(par, ast.Call) and n in par.args:
                continue                                            # handed whole to a call: detect(D), len(D), all(...)
            if isinstance(par, ast.Attribute) and par.attr in OK_RECEIVER_METHODS and isinstance(parent.get(par), ast.Call):
                continue                                            # D.startswith(...), D.isascii(), D.decode(...)
            if isinstance(par, ast.comprehension) and par.iter is n:
                continue                                            # for char in D
            if isinstance(par, ast.UnaryOp) and isinstance(par.op, ast.Not):
                continue
            if isinstance(par, ast.Compare):
                continue
            if isinstance(par, ast.Subscript) and par.value is n:
                gp = parent.get(par)
                if isinstance(gp, ast.Compare) or (isinstance(gp, ast.Attribute) and gp.attr in ("startswith",)):
                    continue                                        # a BOM test on a prefix
                problems.append("a part of the content flows on: " + where(gp if gp is not None else par))
                continue
            problems.append("unrecognised use of the content: " + where(par if par is not None else n))
    if problems:
        res["undecided"].append({"function": KEY, "obligation": OID, "reason": "shape not recognised: " + "; ".join(problems)[:900]})
    else:
        res["discharged"] = 1
        res["samples"].append({"obligation": OID, "backend": BACKEND, "unbounded_read": [where(c) for c in unbounded],
                               "content_variable": sorted(names)})
    return res


EXTRA = [get_encoding_static]
BOUNDED = [get_encoding_whole_file, large_file_round_trip, e2e_api, e2e_file, bom_round_trip]
