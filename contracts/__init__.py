"""Sidecar contracts for sqlfluff. Nothing here is imported by sqlfluff; /repo is not edited."""
