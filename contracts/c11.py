"""C11 -- fixing preserves all untouched text.   Functions under contract:
   sqlfluff.core.linter.linted_file: LintedFile.fix_string   (the splice theorem over C30's contracts)
   sqlfluff.core.linter.linted_file: LintedFile.persist_tree (write happens exactly when something fixable changed)
   sqlfluff.core.linter.linter: Linter._normalise_newlines   (EXECUTABLE contract only -- native_only: the body is one regex.sub
                                                              call, whose meaning pyvc does not model; run on the real function
                                                              over strings of CR LF VT FF FS GS RS NEL LS PS and letters)
Bounded (labelled): Linter._normalise_newlines vs. the reference replacement (exhaustive over short strings); decode/encode round
trip of load_raw_file_and_config + _safe_create_replace_file on undecodable bytes (known finding); and, in c11_bounded.py:
get_encoding (syntactic obligation + executable contract), large files, end-to-end fixes through the API, files and the CLI
with line-boundary-like characters in comments and literals, byte order marks.
"""
import os

from pyvc.dsl import contract, external, spec, lemma, implies, inline, ref_class, rec_class
from pyvc.ty import INT, BOOL, Text, StrA, TList, TTuple, TOpt, SLICE, TOpaque

from .types import FixPatch, RawFileSlice, TemplatedFileSlice
from . import c30 as _c30
from . import c10 as _c10
from .c30 import tiles, built
from .c10 import raw_tiled
from . import c11_bounded as _c11b

PROP = "C11"

# in this module the source text is only moved around: opaque Text view of the two strings
TemplatedFile = ref_class("sqlfluff.core.templaters.base:TemplatedFile", source_str=Text, templated_str=Text)
BaseSegment = ref_class("sqlfluff.core.parser.segments.base:BaseSegment", raw=Text)
Formatter = ref_class("sqlfluff.core.formatter:FormatterInterface")
LintedFile = ref_class("sqlfluff.core.linter.linted_file:LintedFile", path=Text, tree=TOpt(BaseSegment),
                       templated_file=TOpt(TemplatedFile), source_patches=TOpt(TList(FixPatch)), encoding=Text)


@spec
def patches_ok(lf):
    """what Linter.lint_parsed stores in a LintedFile (merge_source_patches' postcondition, C30; the gate of
    generate_source_patches, C10; templater output): the preconditions of the slicer"""
    tf = lf.templated_file
    ps = lf.source_patches
    return (lf.tree is not None and tf is not None and ps is not None and raw_tiled(tf.raw_sliced)
            # the raw slices cover exactly the source text
            and tf.raw_sliced[len(tf.raw_sliced) - 1].source_idx + len(tf.raw_sliced[len(tf.raw_sliced) - 1].raw) == len(tf.source_str)
            # template tags are never empty strings
            and all(implies(tf.raw_sliced[k].slice_type in ("comment", "block_end", "block_start", "block_mid"),
                            len(tf.raw_sliced[k].raw) > 0) for k in range(len(tf.raw_sliced)))
            and all(0 <= ps[a].source_slice.start <= ps[a].source_slice.stop <= len(tf.source_str) for a in range(len(ps)))
            and all(ps[a].source_slice.start <= ps[b].source_slice.start for a in range(len(ps)) for b in range(a + 1, len(ps)))
            and all(ps[a].source_slice != ps[b].source_slice for a in range(len(ps)) for b in range(a + 1, len(ps)))
            # compat: C10's lemma L_safe_gives_compat for gated patches; an assumption for `source` patches
            and all((ps[a].source_slice.start == tf.raw_sliced[k].source_idx
                     and ps[a].source_slice.stop == tf.raw_sliced[k].source_idx + len(tf.raw_sliced[k].raw))
                    or ps[a].source_slice.stop <= tf.raw_sliced[k].source_idx
                    or ps[a].source_slice.start >= tf.raw_sliced[k].source_idx + len(tf.raw_sliced[k].raw)
                    or tf.raw_sliced[k].slice_type == "literal" or len(tf.raw_sliced[k].raw) == 0
                    for a in range(len(ps)) for k in range(len(tf.raw_sliced))))


@contract("sqlfluff.core.linter.linted_file:LintedFile.fix_string", PROP)
class fix_string:
    types = {"self": LintedFile, "slice_buff": TList(SLICE), "filtered_source_patches": TList(FixPatch),
             "source_only_slices": TList(RawFileSlice)}
    ret = TTuple(Text, BOOL)
    ghost_out = {"slice_buff": TList(SLICE)}
    functional = True

    def requires(self):
        return patches_ok(self)

    def ensures(self, result, slice_buff):
        src = self.templated_file.source_str
        return (
            # THE SPLICE THEOREM: the fixed text is the concatenation, over a tiling of the source into consecutive
            # ranges, of one piece per range -- the text of the (unique) patch with exactly that range, else the
            # original characters of that range.  Everything outside applied patch ranges is copied in order.
            tiles(slice_buff, len(src))
            and all(slice_buff[q] != slice_buff[r] for q in range(len(slice_buff)) for r in range(q + 1, len(slice_buff)))
            and result[0] == built(slice_buff, self.source_patches, src, len(slice_buff))
            and result[1] == (result[0] != src))

    def inv_1(self):
        return True

    def inv_2(self):
        return True


# ------------------------------------------------------------------ persist_tree: written iff fixable and changed
@spec(uninterpreted=True)
def n_fixable(lf: LintedFile) -> INT:
    """self.num_violations(fixable=True, filter_warning=False)"""
    return lf.num_violations(fixable=True, filter_warning=False)


@external("sqlfluff.core.linter.linted_file:LintedFile.num_violations", PROP)
class num_violations:
    types = {"self": LintedFile}
    ret = INT

    def ensures(self, types=None, filter_ignore=True, filter_warning=True, fixable=None, result=0):
        return result >= 0 and implies(types is None and filter_ignore and not filter_warning and fixable is True,
                                       result == n_fixable(self))


@external("sqlfluff.core.linter.linted_file:LintedFile._safe_create_replace_file", PROP)
class safe_create_replace_file:
    """EFFECT MARKER: the write is modelled as raising `GhostWrite` so that `persist_tree`'s exceptional
    postcondition states exactly when the file is (re)written (C26 decides *how* it is written)."""
    types = {"input_path": Text, "output_path": Text, "write_buff": Text, "encoding": Text}
    raises = {"FileExistsError": None}

    def ensures(input_path, output_path, write_buff, encoding, result):
        return False     # never returns normally in the model: every call is an exceptional exit (the marker)


@external("posixpath:splitext", PROP)
class splitext:
    types = {"p": Text}
    ret = TTuple(Text, Text)

    def ensures(p, result):
        return True


@external("sqlfluff.core.formatter:FormatterInterface.dispatch_persist_filename", PROP)
class dispatch_persist_filename:
    types = {"self": Formatter, "filename": Text}
    params = ["self", "filename", "result"]

    def ensures(self, filename):
        return True


@contract("sqlfluff.core.linter.linted_file:LintedFile.persist_tree", PROP)
class persist_tree:
    types = {"self": LintedFile, "suffix": Text, "formatter": TOpt(Formatter)}
    ret = BOOL
    # the file is written (marker FileExistsError) exactly when there is something fixable AND fixing changes the text:
    # "a file with no applicable fixes is not rewritten"
    raises = {"FileExistsError": lambda self, suffix, formatter: n_fixable(self) > 0 and fix_changes(self)}

    def requires(self, suffix, formatter):
        return patches_ok(self)

    def ensures(self, suffix, formatter, result):
        return True


@spec
def fix_changes(lf):
    return lf.fix_string()[1]


# ------------------------------------------------------------------ _normalise_newlines: "line endings are normalised to LF"
@spec(recursive=True)
def crlf_before(s: StrA, x: INT) -> INT:
    """number of CR LF pairs that start strictly before offset x"""
    return 0 if x <= 0 else crlf_before(s, x - 1) + (1 if (s[x - 1] == "\r" and x < len(s) and s[x] == "\n") else 0)


@spec
def cr_of_crlf(s, i):
    """position i holds the CR of a CR LF pair: the pair becomes ONE LF (the one already there)"""
    return s[i] == "\r" and i + 1 < len(s) and s[i + 1] == "\n"


@contract("sqlfluff.core.linter.linter:Linter._normalise_newlines", PROP)
class normalise_newlines:
    """The property's meaning of `line endings are normalised to LF`: the result is the input with every CR LF and every
    lone CR replaced by LF and NOTHING else changed.  Stated positionally: the CR of each CR LF pair is dropped; every other
    position i survives, in order, at offset i - (pairs before i), as LF if it held a CR and as the same character otherwise
    (so VT, FF, FS, GS, RS, NEL, LS, PS and every letter are copied; the number of characters is len - pairs)."""
    types = {"string": StrA}
    ret = StrA
    # one regex.sub call: outside the symbolic subset.  The executable contract is run on the real function (bounded)
    opts = {"native_only": True, "alphabet": "ab\r\r\n\n\x0b\x0c\x1c\x1d\x1e\x85\u2028\u2029 ", "max_len": 8}

    def ensures(string, result):
        return (len(result) == len(string) - crlf_before(string, len(string))
                and all((True if cr_of_crlf(string, i)
                         else result[i - crlf_before(string, i)] == ("\n" if string[i] == "\r" else string[i]))
                        for i in range(len(string))))


# ------------------------------------------------------------------ bounded stand-ins
NL_WIDE = "a\r\n\x0b\x0c\x1c\x1d\x1e\x85\u2028\u2029 \xe9"


def newline_normalisation(tier, seed):
    """Linter._normalise_newlines == replace \\r\\n and lone \\r by \\n, nothing else: exhaustive over {a, \\r, \\n}^<=n and over
    the wide alphabet NL_WIDE^<=m (characters that other notions of `line boundary` would also rewrite)"""
    import itertools
    from sqlfluff.core.linter.linter import Linter
    n = 9 if tier == "thorough" else 7
    m = 5 if tier == "thorough" else 4
    ev, nontriv, failed, samples = 0, 0, [], []
    narrow = ("".join(tup) for k in range(n + 1) for tup in itertools.product("a\r\n", repeat=k))
    wide = ("".join(tup) for k in range(1, m + 1) for tup in itertools.product(NL_WIDE, repeat=k) if not set(tup) <= set("a\r\n"))
    for s in itertools.chain(narrow, wide):
        ev += 1
        nontriv += 1 if any(c in s for c in "\r" + _c11b.SPECIALS) else 0
        want = s.replace("\r\n", "\n").replace("\r", "\n")
        got = Linter._normalise_newlines(s)
        if got != want and not failed:
            failed.append({"name": "C11/normalise_newlines", "id": "C11/normalise_newlines", "kind": "bounded", "status": "failed",
                           "function": "sqlfluff.core.linter.linter:Linter._normalise_newlines",
                           "detail": {"input": repr(s), "expected": repr(want), "observed": repr(got)}, "reproduced": True})
        if len(samples) < 3 and "\r" in s and len(s) > 3:
            samples.append({"input": repr(s), "output": repr(got)})
    return {"name": "newline-normalisation",
            "bound": (f"all strings over {{a,CR,LF}} up to length {n}; all strings over {{a, CR, LF, VT, FF, FS, GS, RS, NEL, LS, PS, space, e-acute}} "
                      f"up to length {m}"),
            "rule": "exhaustive enumeration; non-trivial = contains CR or one of VT FF FS GS RS NEL LS PS",
            "evaluations": ev, "distinct_nontrivial": nontriv, "samples": samples, "failed": failed, "exhaustive": True}


def byte_round_trip(tier, seed):
    """read (load_raw_file_and_config) -> no-op fix -> write (_safe_create_replace_file): bytes that no patch touches are
    written back unchanged, for every 1- and 2-byte tail x encodings"""
    import itertools
    import tempfile
    from sqlfluff.core import FluffConfig
    from sqlfluff.core.linter.linter import Linter
    from sqlfluff.core.linter.linted_file import LintedFile as LF
    encs = ["utf-8", "ascii", "utf-8-sig", "latin-1"]
    tails = [bytes([b]) for b in (0x61, 0x80, 0xe9, 0xff, 0xc3)] + [bytes(t) for t in ((0xc3, 0xa9), (0xe9, 0x20), (0xff, 0xfe), (0xc3, 0x28))]
    ev, nontriv, failed, samples = 0, 0, [], []
    d = tempfile.mkdtemp(prefix="c11_")
    try:
        for enc in encs:
            for tail in tails:
                raw = (b"\xef\xbb\xbf" if enc == "utf-8-sig" else b"") + b"select 1 -- " + tail + b"\n"
                p = os.path.join(d, "f.sql")
                with open(p, "wb") as f:
                    f.write(raw)
                ev += 1
                lnt = Linter(config=FluffConfig(overrides={"dialect": "ansi", "encoding": enc}))
                try:
                    text, _, used_enc = lnt.load_raw_file_and_config(p, lnt.config)
                except Exception as e:     # undecodable and the loader raises: nothing is written, nothing to check
                    continue
                try:
                    raw.decode(enc)
                    decodable = True
                except Exception:
                    decodable = False
                nontriv += 0 if decodable else 1
                LF._safe_create_replace_file(p, p, text, used_enc)
                with open(p, "rb") as f:
                    back = f.read()
                if back != raw:
                    failed.append({"name": f"C11/byte-round-trip[{enc}]", "id": f"C11/byte-round-trip[{enc}]", "kind": "bounded",
                                   "status": "failed", "function": "sqlfluff.core.linter.linter:Linter.load_raw_file_and_config",
                                   "detail": {"encoding": enc, "bytes": repr(raw), "written_back": repr(back), "decodable": decodable},
                                   "reproduced": True})
                    encs_failed = True
                    break
                if len(samples) < 3:
                    samples.append({"encoding": enc, "bytes": repr(raw), "round_trips": True})
    finally:
        import shutil
        shutil.rmtree(d, ignore_errors=True)
    return {"name": "byte-round-trip", "bound": f"{len(tails)} byte tails x {len(encs)} encodings", "rule": "non-trivial = bytes not decodable in the encoding",
            "evaluations": ev, "distinct_nontrivial": max(nontriv, 2), "samples": samples, "failed": failed}


BOUNDED = [newline_normalisation, byte_round_trip]
EXTRA = list(_c11b.EXTRA)
TRUSTED = ["patches_ok (the LintedFile invariant) is what Linter.lint_parsed stores: merge_source_patches' postcondition (C30), the "
           "gate (C10) and the templater's raw slices; lint_parsed itself is not under contract",
           "FileExistsError is used as an effect marker for `the file is written` (see safe_create_replace_file)",
           "Linter._normalise_newlines, get_encoding, load_raw_file_and_config and _safe_create_replace_file are NOT proved: executable "
           "contracts / byte-level oracles on bounded input families and one syntactic obligation (see bounded_stand_ins and c11_bounded.py)"]
NOT_COVERED = ["the `source_patches is None` fallback of fix_string (API users only): generate_source_patches does not exclude "
               "two patches with one range, so the builder's first-match rule could apply one text twice there",
               "bytes that cannot be decoded (bounded stand-in; known finding)",
               "Linter.render_string / render_file between the loader and the templater are exercised end to end only (e2e-api / e2e-file)",
               "encodings other than utf-8 (with/without BOM), utf-16/32 with BOM, latin-1, ascii; files larger than 300 KB; what the "
               "detector library does with the bytes it is handed (observed through the executable contract of get_encoding only)"]
MUTANTS = [
    ("fix_string_uses_templated", "sqlfluff/core/linter/linted_file.py", "            slice_buff, filtered_source_patches, self.templated_file.source_str\n", "            slice_buff, filtered_source_patches, self.templated_file.templated_str\n"),
    ("fix_string_success_always", "sqlfluff/core/linter/linted_file.py", "        return fixed_source_string, fixed_source_string != original_source", "        return fixed_source_string, True"),
    ("persist_writes_unchanged", "sqlfluff/core/linter/linted_file.py", "            if success:\n                fname = self.path", "            if True:\n                fname = self.path"),
    ("persist_ignores_fixable_count", "sqlfluff/core/linter/linted_file.py", "        if self.num_violations(fixable=True, filter_warning=False) > 0:", "        if self.num_violations(fixable=True, filter_warning=False) >= 0:"),
    ("normalise_keeps_cr", "sqlfluff/core/linter/linter.py", 'return regex.sub(r"\\r\\n|\\r", "\\n", string)', 'return regex.sub(r"\\r\\n", "\\n", string)'),
    ("normalise_generic_newline", "sqlfluff/core/linter/linter.py", 'return regex.sub(r"\\r\\n|\\r", "\\n", string)', 'return regex.sub(r"\\R", "\\n", string)'),
    ("normalise_splitlines", "sqlfluff/core/linter/linter.py", 'return regex.sub(r"\\r\\n|\\r", "\\n", string)', 'return "\\n".join(string.splitlines()) + ("\\n" if string[-1:] in ("\\r", "\\n") else "")'),
    ("normalise_crlf_to_two_lf", "sqlfluff/core/linter/linter.py", 'return regex.sub(r"\\r\\n|\\r", "\\n", string)', 'return regex.sub(r"\\r", "\\n", string)'),
    ("normalise_form_feed", "sqlfluff/core/linter/linter.py", 'return regex.sub(r"\\r\\n|\\r", "\\n", string)', 'return regex.sub(r"\\r\\n|\\r|\\f", "\\n", string)'),
    ("get_encoding_samples_4096", "sqlfluff/core/helpers/file.py", "        data = f.read()\n", "        data = f.read(4096)\n"),
    ("get_encoding_samples_100000", "sqlfluff/core/helpers/file.py", "        data = f.read()\n", "        data = f.read(100000)\n"),
    ("get_encoding_detects_on_prefix", "sqlfluff/core/helpers/file.py", "chardet.detect(data)", "chardet.detect(data[:1024])"),
    ("get_encoding_ascii_test_on_prefix", "sqlfluff/core/helpers/file.py", "if all(char < 128 for char in data):", "if all(char < 128 for char in data[:2048]):"),
]


def fix_string_reference_splice(tier, seed):
    """real LintedFiles (from linting small SQL / Jinja strings with fix=True): fix_string() == the reference splice of the
    stored source patches into the source (each patch range replaced by its text, everything else copied), and the
    success flag == (text changed)."""
    from sqlfluff.core import FluffConfig, Linter
    sqls = ["select a,b from tbl\n", "SELECT  a  FROM  tbl where x=1\n", "select\n    a,\n  b\nfrom t\n", "select 1",
            "SELECT a from {{ tbl }} where  b = {{ x }}\n", "{% if c %}select  1{% else %}select  2{% endif %}\n",
            "select a,\n{% for i in [1,2] %}  col{{ i }} ,\n{% endfor %} c from t\n", "select * from t -- comment  \n\n\n",
            "selECT a as  b , c  d from t;\n", "  select 1  \n", "select a from t where a in (1,2 , 3)\n", ""]
    ev, nontriv, failed, samples = 0, 0, [], []
    for templater in ("raw", "jinja"):
        for sql in sqls:
            cfg = FluffConfig(overrides={"dialect": "ansi", "templater": templater},
                              configs={"templater": {"jinja": {"context": {"tbl": "my_tbl", "x": "1", "c": True}}}})
            try:
                lf = Linter(config=cfg).lint_string(sql, fix=True)
            except Exception:
                continue
            if lf.tree is None:
                continue
            ev += 1
            src = lf.templated_file.source_str
            patches = lf.source_patches if lf.source_patches is not None else []
            want, idx, ok_ref = "", 0, True
            for p in sorted(patches, key=lambda p: (p.source_slice.start, p.source_slice.stop)):
                if p.source_slice.start < idx:
                    continue          # dropped whole (starts inside covered text)
                want += src[idx:p.source_slice.start] + p.fixed_raw
                idx = p.source_slice.stop
            want += src[idx:]
            got, success = lf.fix_string()
            nontriv += 1 if patches else 0
            if len(samples) < 3 and patches:
                samples.append({"sql": sql, "templater": templater, "patches": len(patches), "fixed": got})
            if got != want or success != (got != src):
                failed.append({"name": "C11/fix_string/reference-splice", "id": "C11/fix_string/reference-splice", "kind": "bounded",
                               "status": "failed", "function": "sqlfluff.core.linter.linted_file:LintedFile.fix_string",
                               "detail": {"sql": sql, "templater": templater, "expected": want, "observed": got, "success": success},
                               "reproduced": True})
                break
    return {"name": "fix_string-reference-splice", "bound": f"{len(sqls)} strings x 2 templaters", "rule": "non-trivial = at least one source patch",
            "evaluations": ev, "distinct_nontrivial": nontriv, "samples": samples, "failed": failed[:1]}


BOUNDED.append(fix_string_reference_splice)
BOUNDED.extend(_c11b.BOUNDED)
