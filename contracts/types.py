"""Shared declarations of repo classes as pyvc types (records, heap classes) + their native builders."""
from pyvc.dsl import rec_class, ref_class, inline
from pyvc.ty import INT, BOOL, Text, StrA, TList, TOpt, SLICE, TOpaque
from pyvc import replay as _replay

# --- immutable records -------------------------------------------------------------------------
FixPatch = rec_class("sqlfluff.core.linter.patch:FixPatch", templated_slice=SLICE, fixed_raw=Text, patch_category=Text,
                     source_slice=SLICE, templated_str=Text, source_str=Text)
RawFileSlice = rec_class("sqlfluff.core.templaters.base:RawFileSlice", raw=Text, slice_type=Text, source_idx=INT,
                         block_idx=INT, tag=TOpt(Text))
TemplatedFileSlice = rec_class("sqlfluff.core.templaters.base:TemplatedFileSlice", slice_type=Text, source_slice=SLICE,
                               templated_slice=SLICE)
inline("sqlfluff.core.linter.patch:FixPatch.dedupe_tuple")
inline("sqlfluff.core.templaters.base:RawFileSlice.end_source_idx")
inline("sqlfluff.core.templaters.base:RawFileSlice.source_slice")
inline("sqlfluff.core.templaters.base:RawFileSlice.is_source_only_slice")

# --- mutable classes ---------------------------------------------------------------------------
TemplatedFile = ref_class("sqlfluff.core.templaters.base:TemplatedFile",
                          source_str=StrA, templated_str=StrA, fname=Text,
                          _source_newlines=TList(INT), _templated_newlines=TList(INT),
                          raw_sliced=TList(RawFileSlice), sliced_file=TList(TemplatedFileSlice))
Sig = TOpaque("Signature")
SQLBaseError = ref_class("sqlfluff.core.errors:SQLBaseError", line_no=INT, line_pos=INT)


# --- native builders (replay / bounded search) --------------------------------------------------
def _build_tf(rng, gen):
    from sqlfluff.core.templaters.base import TemplatedFile as TF, TemplatedFileSlice as TFS, RawFileSlice as RFS
    src = gen.value(StrA)
    if rng.random() < 0.3:
        return TF(source_str=src, fname="<replay>")
    # random tiling of the source into raw slices; templated text = literal slices kept, others dropped
    cuts = sorted({0, len(src), *[rng.randint(0, len(src)) for _ in range(rng.randint(0, 3))]})
    raws, tfs, tpl = [], [], ""
    for a, b in zip(cuts, cuts[1:]) if len(cuts) > 1 else [(0, 0)]:
        typ = rng.choice(["literal", "literal", "templated", "comment", "block_start", "block_end"])
        raws.append(RFS(src[a:b], typ, a))
        if typ == "literal":
            tfs.append(TFS("literal", slice(a, b), slice(len(tpl), len(tpl) + b - a)))
            tpl += src[a:b]
        elif typ == "templated":
            out = gen.value(StrA)
            tfs.append(TFS("templated", slice(a, b), slice(len(tpl), len(tpl) + len(out))))
            tpl += out
        else:
            tfs.append(TFS(typ, slice(a, b), slice(len(tpl), len(tpl))))
    return TF(source_str=src, fname="<replay>", templated_str=tpl, sliced_file=tfs, raw_sliced=raws)


def _tf_from_model(fields):
    from sqlfluff.core.templaters.base import TemplatedFile as TF, TemplatedFileSlice as TFS, RawFileSlice as RFS
    src, tpl = fields.get("source_str", ""), fields.get("templated_str", "")
    raws = fields.get("raw_sliced") or [RFS(src, "templated", 0)]
    tfs = fields.get("sliced_file") or [TFS("templated", slice(0, len(src)), slice(0, len(tpl)))]
    try:
        return TF(source_str=src, fname="<replay>", templated_str=tpl, sliced_file=tfs, raw_sliced=raws)
    except Exception:
        return TF(source_str=src, fname="<replay>", templated_str=tpl,
                  sliced_file=[TFS("templated", slice(0, len(src)), slice(0, len(tpl)))], raw_sliced=[RFS(src, "templated", 0)])


def _build_err(rng, gen):
    from sqlfluff.core.errors import SQLBaseError as E, SQLParseError
    cls = rng.choice([E, SQLParseError])
    return cls(description=rng.choice(["d1", "d2"]), line_no=rng.choice([1, 1, 2, 3]), line_pos=rng.choice([1, 2, 5]))


_replay.BUILDERS["TemplatedFile"] = _build_tf
_replay.FROM_MODEL["TemplatedFile"] = _tf_from_model
_replay.BUILDERS["SQLBaseError"] = _build_err
