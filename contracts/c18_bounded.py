"""C18 -- non-SMT parts.  Nothing in this module is a proof.

EXTRA    rollback_context     syntactic obligations over the real AST of Linter.lint_fix_parsed that tie the *region contract*
                              `lint_fix_parsed#loop-limit-rollback` (contracts/c18.py) to its context: the verified statements are
                              the tail of the fix loop's `else:` branch (they run exactly when the loop ends without reaching
                              stability, under `if fix:` only) and `save_tree` is the tree the function was given.  These obligations
                              are either discharged or UNDECIDED (unrecognised shape): they never report a violation by themselves --
                              a genuinely broken rollback is reported by the region contract or by the bounded run below.
BOUNDED  route_matrix         generated SQL with a templating / parsing error (unsuppressed, `-- noqa: PRS|TMP`, bare `-- noqa`,
                              `--ignore parsing|templating`) plus fixable violations, through every route named by the property: CLI
                              stdin (`fix -`, `format -`), CLI paths (`fix`, `fix --check` answering y, `fix --fixed-suffix`,
                              `format`), the Python API (`sqlfluff.fix`) and Linter.lint_paths(fix=True, apply_fixes=True): the text /
                              the file comes back byte for byte, no sibling file is created.
BOUNDED  loop_limit_matrix    fix runs that cannot stabilise (a deliberately non-converging whitespace-widening rule in the main or
                              the post phase next to real fixable rules; built-in rules with runaway_limit 1 / 2): the text and the
                              file are left unchanged and no reported violation carries fixes.
"""
from __future__ import annotations

import ast
import inspect
import itertools
import logging
import os
import random
import shutil
import tempfile
import time

F_LFP = "sqlfluff.core.linter.linter:Linter.lint_fix_parsed"


def _failed(id_, function, detail, kind="bounded"):
    return {"name": id_, "id": id_, "kind": kind, "status": "failed", "function": function, "detail": detail,
            "reproduced": True, "backend": "CPython (bounded run of the real code)" if kind == "bounded" else "ast"}


# =============================================================================================== EXTRA: context of the rollback region
def _fn_ast(obj):
    f = inspect.unwrap(getattr(obj, "__func__", obj))
    path = inspect.getsourcefile(f)
    with open(path, encoding="utf-8") as fh:
        tree = ast.parse(fh.read())
    first = f.__code__.co_firstlineno
    for node in ast.walk(tree):
        if isinstance(node, (ast.FunctionDef, ast.AsyncFunctionDef)) and node.name == f.__name__:
            if min([node.lineno] + [d.lineno for d in node.decorator_list]) == first:
                return node, path
    raise LookupError(f"{f.__qualname__} not found in {path}")


def _binds(node, name):
    """does any statement/expression under `node` (re)bind the local `name`?"""
    for n in ast.walk(node):
        if isinstance(n, ast.Name) and n.id == name and isinstance(n.ctx, (ast.Store, ast.Del)):
            return True
        if isinstance(n, (ast.FunctionDef, ast.AsyncFunctionDef, ast.ClassDef)) and n.name == name:
            return True
        if isinstance(n, ast.alias) and (n.asname or n.name.split(".")[0]) == name:
            return True
    return False


def _path_to(root_stmts, target):
    """list of (parent node, field name) from a statement list down to `target` (a statement), or None"""
    def rec(node, trail):
        for field in ("body", "orelse", "finalbody", "handlers"):
            for ch in getattr(node, field, []) or []:
                if ch is target:
                    return trail + [(node, field)]
                r = rec(ch, trail + [(node, field)])
                if r is not None:
                    return r
        return None
    for s in root_stmts:
        if s is target:
            return []
        r = rec(s, [])
        if r is not None:
            return r
    return None


def rollback_context(tier="quick", seed=0):
    from sqlfluff.core.linter.linter import Linter
    n, undecided, samples = 0, [], []

    def check(name, ok, detail):
        nonlocal n
        n += 1
        id_ = f"C18/static/lint_fix_parsed/{name}"
        if ok:
            samples.append({"obligation": id_, "backend": "ast", "note": detail})
        else:
            undecided.append({"function": F_LFP, "obligation": id_, "reason": f"unrecognised shape: {detail}"})

    try:
        fn, _ = _fn_ast(Linter.lint_fix_parsed)
    except Exception as e:   # pragma: no cover
        fn = None
        check("source", False, repr(e))
    if fn is not None:
        params = [a.arg for a in fn.args.posonlyargs + fn.args.args + fn.args.kwonlyargs]
        # ---- (1) save_tree is the tree the function was given
        stores = [x for x in ast.walk(fn) if isinstance(x, ast.Name) and x.id == "save_tree" and isinstance(x.ctx, (ast.Store, ast.Del))]
        top = [s for s in fn.body if isinstance(s, ast.Assign) and any(x in stores for t in s.targets for x in ast.walk(t))]
        binders = stores
        ok1 = (len(binders) == 1 and len(top) == 1 and isinstance(top[0], ast.Assign) and len(top[0].targets) == 1
               and isinstance(top[0].targets[0], ast.Name) and isinstance(top[0].value, ast.Name) and top[0].value.id == "tree"
               and "tree" in params
               and not any(_binds(s, "tree") for s in fn.body[:fn.body.index(top[0])]))
        check("save-tree-is-the-given-tree", ok1,
              "`save_tree = tree` is the only binding of save_tree, a top-level statement, and the parameter `tree` is not "
              "rebound before it")
        # ---- (2) the verified statements are the tail of the fix loop's else-branch, guarded by `fix` only
        loops = [s for s in ast.walk(fn) if isinstance(s, ast.For) and isinstance(s.target, ast.Name) and s.target.id == "loop"]
        anchors = [s for s in ast.walk(fn) if isinstance(s, ast.For) and isinstance(s.target, ast.Name) and s.target.id == "violation"
                   and isinstance(s.iter, ast.Name) and s.iter.id == "initial_linting_errors"]
        ok2, why = False, "need exactly one `for loop in ...` and one `for violation in initial_linting_errors`"
        if len(loops) == 1 and len(anchors) == 1:
            lp, an = loops[0], anchors[0]
            path = _path_to(lp.orelse, an)
            why = "the rollback loop is not inside the else-branch of `for loop in ...`"
            if path is not None:
                guards_ok = all(isinstance(p, ast.If) and f == "body" and isinstance(p.test, ast.Name) and p.test.id == "fix"
                                for p, f in path)
                block = (path[-1][0].body if path else lp.orelse)
                tail = block[block.index(an):]
                ends_in_return = isinstance(tail[-1], ast.Return) and len(tail) == 2
                # the loop's iteration space is the loop limit in the main phase (2 passes in the post phase)
                it_ok = (isinstance(lp.iter, ast.Call) and isinstance(lp.iter.func, ast.Name) and lp.iter.func.id == "range"
                         and any(isinstance(x, ast.Name) and x.id == "loop_limit" for x in ast.walk(lp.iter)))
                # every `break` of the fix loop is the stability exit `if fix and not changed:`
                brk = [b for b in ast.walk(ast.Module(body=lp.body, type_ignores=[])) if isinstance(b, ast.Break)]
                inner_loops = [s for s in ast.walk(ast.Module(body=lp.body, type_ignores=[])) if isinstance(s, (ast.For, ast.While))]
                own_brk = [b for b in brk if not any(b in list(ast.walk(il)) for il in inner_loops)]
                stab = [s for s in lp.body if isinstance(s, ast.If) and ast.unparse(s.test) == "fix and (not changed)"
                        and any(b in list(ast.walk(s)) for b in own_brk)]
                breaks_ok = len(own_brk) == 1 and len(stab) == 1
                ok2 = guards_ok and ends_in_return and it_ok and breaks_ok
                why = ("in the else-branch of `for loop in range(... loop_limit ...)`, under `if fix:` only, followed directly by "
                       "the return; the loop's only break is `if fix and not changed:`"
                       if ok2 else f"guards_ok={guards_ok} ends_in_return={ends_in_return} range_over_loop_limit={it_ok} breaks_ok={breaks_ok}")
        check("rollback-is-the-fix-loops-else-branch", ok2, why)
    return {"name": "C18-rollback-context", "obligations": n, "discharged": n - len(undecided), "failed": [],
            "undecided": undecided, "samples": samples[:4],
            "trusted": ["the context obligations of the loop-limit region are syntactic (shape of lint_fix_parsed's AST): for/else runs "
                        "the else-branch exactly when the loop was not left by `break`"],
            "backend": "ast pattern check on the source file of the imported function"}


# =============================================================================================== shared helpers
class _LoopLimitWatcher(logging.Handler):
    def __init__(self):
        super().__init__(level=logging.WARNING)
        self.hit = False

    def emit(self, record):
        try:
            if "Loop limit on fixes reached" in record.getMessage():
                self.hit = True
        except Exception:   # pragma: no cover
            pass


class _watch:
    def __enter__(self):
        self.lg = logging.getLogger("sqlfluff.linter")
        self.w = _LoopLimitWatcher()
        self.old_level = self.lg.level
        self.lg.addHandler(self.w)
        if self.lg.getEffectiveLevel() > logging.WARNING:
            self.lg.setLevel(logging.WARNING)
        return self.w

    def __exit__(self, *exc):
        self.lg.removeHandler(self.w)
        self.lg.setLevel(self.old_level)
        return False


def _read(path):
    with open(path, newline="", encoding="utf-8") as f:
        return f.read()


def _write(path, text):
    with open(path, "w", newline="", encoding="utf-8") as f:
        f.write(text)


class _Fails:
    def __init__(self):
        self.by_id = {}

    def add(self, id_, function, witness):
        rec = self.by_id.get(id_)
        if rec is None:
            self.by_id[id_] = rec = _failed(id_, function, {"witnesses": [], "count": 0})
        rec["detail"]["count"] += 1
        if len(rec["detail"]["witnesses"]) < 3:
            rec["detail"]["witnesses"].append(witness)

    def list(self):
        return list(self.by_id.values())


# =============================================================================================== BOUNDED: the route matrix
_BODIES = [
    # (text with {bad} / {noqa} slots, what is fixable in it)
    ("SELECT my_col\nFROM my_schema.my_table\nwhere processdate {bad}{noqa}\n", "CP01"),
    ("SELECT a,  b\nfrom tbl\nWHERE x {bad}{noqa}\n", "LT01 CP01"),
    ("select\n    a,\n    b\nFROM tbl\nWHERE a {bad}{noqa}\n", "CP01"),
    ("SELECT a AS x,b y from t WHERE  c {bad}{noqa}\n", "LT01 AL02 CP01"),
]
_BAD = [
    ("! 3", "parsing"),
    ("= 1 +++ 2 blah", "parsing"),
    ("= (((2", "parsing"),
    ("= {{ undefined_variable_xyz }}", "templating"),
    ("= {{ 1 + }}", "templating"),
    ("= 1 {% if %}", "templating"),
]
_SUPPRESS = ["none", "noqa-code", "noqa-all", "ignore", "warning"]      # warning: the error code configured as a warning


_WARN_CFG = {}


def _warn_cfg(code):
    """an extra config file (there is no CLI flag for `warnings`), written once per run into a private temp directory"""
    if code not in _WARN_CFG:
        import atexit, shutil, tempfile
        d = tempfile.mkdtemp(prefix="c18cfg_")
        atexit.register(shutil.rmtree, d, ignore_errors=True)
        path = os.path.join(d, "extra.cfg")
        with open(path, "w") as f:
            f.write(f"[sqlfluff]\nwarnings = {code}\n")
        _WARN_CFG[code] = path
    return _WARN_CFG[code]


def _route_cases():
    for (bi, (body, _)), (bad, kind), sup in itertools.product(enumerate(_BODIES), _BAD, _SUPPRESS):
        noqa = {"none": "", "ignore": "", "warning": "", "noqa-all": "  -- noqa",
                "noqa-code": "  -- noqa: " + ("PRS" if kind == "parsing" else "TMP")}[sup]
        sql = body.format(bad=bad, noqa=noqa)
        code = "PRS" if kind == "parsing" else "TMP"
        cli_extra = ["--ignore", kind] if sup == "ignore" else (["--config", _warn_cfg(code)] if sup == "warning" else [])
        overrides = {"ignore": kind} if sup == "ignore" else ({"warnings": code} if sup == "warning" else {})
        yield {"label": f"body{bi}/{kind}[{bad}]/{sup}", "sql": sql, "cli": cli_extra, "cfg": overrides, "kind": kind, "sup": sup,
               "clean": body.format(bad="= 3", noqa="")}


def _has_tmp_prs_error(sql, overrides):
    """independent of the gates: look at the classes of the raw violation list (nothing filtered)"""
    from sqlfluff.core import FluffConfig, Linter
    from sqlfluff.core.errors import SQLParseError, SQLTemplaterError
    lf = Linter(config=FluffConfig(overrides={"dialect": "ansi", **overrides})).lint_string(sql)
    return any(isinstance(v, (SQLParseError, SQLTemplaterError)) for v in lf.violations)


def route_matrix(tier="quick", seed=0):
    import sqlfluff
    from click.testing import CliRunner
    from sqlfluff.cli.commands import cli_format, fix
    from sqlfluff.core import FluffConfig, Linter
    t0 = time.time()
    fails = _Fails()
    cases = list(_route_cases())
    if tier != "thorough":
        # stratified seeded sample: every (error fragment x suppression) once, bodies round robin
        rng = random.Random(seed)
        picked = []
        for k, ((bad, kind), sup) in enumerate(itertools.product(_BAD, _SUPPRESS)):
            pool = [c for c in cases if f"[{bad}]" in c["label"] and c["sup"] == sup]
            picked.append(pool[(k + rng.randrange(len(pool))) % len(pool)])
        cases = picked
    # non-vacuity: the error-free version of every body is changed by the fixer
    for body, _ in _BODIES:
        clean = body.format(bad="= 3", noqa="")
        assert sqlfluff.fix(clean, dialect="ansi") != clean, f"route_matrix: control input is not fixable: {clean!r}"
    tmp = tempfile.mkdtemp(prefix="c18_routes_")
    ev, in_domain, samples = 0, 0, []
    nonvacuous = {"dir_good_file_not_fixed": 0}
    try:
        for ci, c in enumerate(cases):
            sql = c["sql"]
            if not _has_tmp_prs_error(sql, c["cfg"]):
                continue          # not in the property's domain under this configuration
            in_domain += 1
            runner = CliRunner()

            def stdin_route(cmd, name):
                res = runner.invoke(cmd, ["-", "--dialect", "ansi", *c["cli"]], input=sql)
                return res.stdout == sql, res.stdout

            def path_route(cmd, extra, inp=None):
                d = os.path.join(tmp, f"case{ci}_{len(os.listdir(tmp))}")
                os.makedirs(d)
                p = os.path.join(d, "demo_file.sql")
                _write(p, sql)
                runner.invoke(cmd, [p, "--dialect", "ansi", *c["cli"], *extra], input=inp)
                after = _read(p)
                others = sorted(x for x in os.listdir(d) if x != "demo_file.sql")
                return after == sql and not others, (after if after != sql else f"<extra files written: {others}>")

            def api_route():
                out = sqlfluff.fix(sql, config=FluffConfig(overrides={"dialect": "ansi", **c["cfg"]}))
                return out == sql, out

            def lint_paths_route(**kw):
                d = os.path.join(tmp, f"case{ci}_{len(os.listdir(tmp))}")
                os.makedirs(d)
                p = os.path.join(d, "demo_file.sql")
                _write(p, sql)
                Linter(config=FluffConfig(overrides={"dialect": "ansi", **c["cfg"]})).lint_paths((p,), fix=True, apply_fixes=True, **kw)
                after = _read(p)
                others = sorted(x for x in os.listdir(d) if x != "demo_file.sql")
                return after == sql and not others, (after if after != sql else f"<extra files written: {others}>")

            def dir_route(extra, inp=None):
                """a directory with the erroneous file next to a parsable, fixable one: only the latter is rewritten"""
                d = os.path.join(tmp, f"case{ci}_{len(os.listdir(tmp))}")
                os.makedirs(d)
                p, g = os.path.join(d, "demo_file.sql"), os.path.join(d, "good_file.sql")
                _write(p, sql)
                _write(g, c["clean"])
                runner.invoke(fix, [d, "--dialect", "ansi", *c["cli"], *extra], input=inp)
                after = _read(p)
                others = sorted(x for x in os.listdir(d) if x not in ("demo_file.sql", "good_file.sql"))
                if _read(g) == c["clean"]:
                    nonvacuous["dir_good_file_not_fixed"] += 1
                return after == sql and not others, (after if after != sql else f"<extra files written: {others}>")

            routes = [
                ("cli-stdin-fix", "sqlfluff.cli.commands:_stdin_fix", lambda: stdin_route(fix, "fix")),
                ("cli-stdin-format", "sqlfluff.cli.commands:_stdin_fix", lambda: stdin_route(cli_format, "format")),
                ("cli-path-fix", "sqlfluff.cli.commands:_paths_fix", lambda: path_route(fix, [])),
                ("cli-path-fix-check-y", "sqlfluff.cli.commands:_paths_fix", lambda: path_route(fix, ["--check"], "y")),
                ("cli-path-fix-suffix", "sqlfluff.cli.commands:_paths_fix", lambda: path_route(fix, ["--fixed-suffix", "_fixed"])),
                ("cli-path-format", "sqlfluff.cli.commands:_paths_fix", lambda: path_route(cli_format, [])),
                ("cli-dir-fix", "sqlfluff.cli.commands:_paths_fix", lambda: dir_route([])),
                ("cli-dir-fix-check-y", "sqlfluff.cli.commands:_paths_fix", lambda: dir_route(["--check"], "y")),
                ("api-fix", "sqlfluff.api.simple:fix", api_route),
                ("lint-paths-apply-fixes", "sqlfluff.core.linter.linter:Linter.lint_paths", lambda: lint_paths_route()),
                ("lint-paths-apply-fixes-suffix", "sqlfluff.core.linter.linter:Linter.lint_paths",
                 lambda: lint_paths_route(fixed_file_suffix="_fixed")),
            ]
            for rname, function, run in routes:
                ev += 1
                try:
                    ok, observed = run()
                except Exception as e:     # noqa -- a route that raises instead of leaving the input alone is decided too
                    fails.add(f"C18/route/{rname}/raised-on-input-with-tmp-prs-error", function,
                              {"case": c["label"], "input": sql, "exception": f"{type(e).__name__}: {str(e)[:200]}", "cli_args": c["cli"],
                               "config": c["cfg"]})
                    continue
                if not ok:
                    fails.add(f"C18/route/{rname}/unchanged-with-tmp-prs-error", function,
                              {"case": c["label"], "input": sql, "observed": observed, "cli_args": c["cli"], "config": c["cfg"]})
            if len(samples) < 4:
                samples.append({"case": c["label"], "input": sql})
    finally:
        shutil.rmtree(tmp, ignore_errors=True)
    assert in_domain >= (16 if tier != "thorough" else 60), f"route_matrix: too few in-domain inputs ({in_domain})"
    assert nonvacuous["dir_good_file_not_fixed"] == 0, "route_matrix: the parsable sibling file was not fixed (vacuous directory route)"
    return {"name": "route-matrix",
            "bound": f"{in_domain} generated inputs ({len(_BODIES)} bodies x {len(_BAD)} parse/template error fragments x {len(_SUPPRESS)} "
                     f"suppression modes{'' if tier == 'thorough' else ', stratified seeded sample'}) x 11 routes (CLI stdin fix/format, CLI path "
                     "fix / fix --check y / fix --fixed-suffix / format, CLI directory (with a parsable sibling that IS fixed) fix / fix --check y, sqlfluff.fix, Linter.lint_paths(apply_fixes) with and without suffix), "
                     "ansi dialect, fix_even_unparsable off",
            "rule": "in domain = the raw violation list of lint_string contains a SQLParseError / SQLTemplaterError (nothing filtered); "
                    "every body's error-free version is changed by the fixer",
            "evaluations": ev, "distinct_nontrivial": ev, "samples": samples, "failed": fails.list(), "wall_s": round(time.time() - t0, 1)}


# =============================================================================================== BOUNDED: the loop limit
_RUNAWAY = {}


def _runaway_rules():
    """deliberately non-converging rules: every pass widens every whitespace segment (Z001 main phase, Z002 post phase,
    Z003+Z004 active in the post phase only)"""
    if _RUNAWAY:
        return _RUNAWAY["rules"]
    from sqlfluff.core.plugin.host import get_plugin_manager
    get_plugin_manager()
    from sqlfluff.core.parser import WhitespaceSegment
    from sqlfluff.core.rules import BaseRule, LintFix, LintResult
    from sqlfluff.core.rules.crawlers import SegmentSeekerCrawler

    def _eval(self, context):
        if context.segment.is_type("whitespace"):
            return LintResult(anchor=context.segment,
                              fixes=[LintFix.replace(context.segment, [WhitespaceSegment(context.segment.raw + " ")])])
        return None

    doc = "Runaway rule ({}).\n\n    **Anti-pattern**\n\n    Any whitespace.\n    "
    ns = dict(groups=("all",), crawl_behaviour=SegmentSeekerCrawler({"whitespace"}), is_fix_compatible=True, _eval=_eval)
    z1 = type(BaseRule)("Rule_Z001", (BaseRule,), dict(ns, lint_phase="main", __doc__=doc.format("main phase")))
    z2 = type(BaseRule)("Rule_Z002", (BaseRule,), dict(ns, lint_phase="post", __doc__=doc.format("post phase")))

    # A runaway that starts only in the POST phase (post-phase rules are crawled during the main phase too, so Z002 already
    # exhausts the main loop).  Z003 is a main-phase sentinel that never reports anything: it is crawled (before Z004, rules
    # run in code order) in every pass of the main phase and in no pass of the post phase.  Z004 widens whitespace only in a
    # pass in which the sentinel has not been crawled.
    state = _RUNAWAY["state"] = {"main_pass": False}

    def _sentinel_crawl(self, *a, **k):
        state["main_pass"] = True
        return BaseRule.crawl(self, *a, **k)

    def _gated_crawl(self, *a, **k):
        state["active"] = not state["main_pass"]
        state["main_pass"] = False
        return BaseRule.crawl(self, *a, **k)

    def _gated_eval(self, context):
        return _eval(self, context) if state.get("active") else None

    z3 = type(BaseRule)("Rule_Z003", (BaseRule,), dict(ns, lint_phase="main", _eval=lambda self, context: None, crawl=_sentinel_crawl,
                                                       __doc__=doc.format("sentinel of the main phase, reports nothing")))
    z4 = type(BaseRule)("Rule_Z004", (BaseRule,), dict(ns, lint_phase="post", _eval=_gated_eval, crawl=_gated_crawl,
                                                       __doc__=doc.format("post phase only")))
    _RUNAWAY["rules"] = [z1, z2, z3, z4]
    return _RUNAWAY["rules"]


def _reset_runaway_state():
    if "state" in _RUNAWAY:
        _RUNAWAY["state"].update(main_pass=False, active=False)


_LL_QUERIES = [
    "SELECT a FROM foo f WHERE a = NULL\n",
    "select a, b from foo f\n",
    "SELECT\n    a AS x,\n    b y\nFROM tbl t\nwhere b = NULL\n",
]
_LL_COMPANIONS = ["AL01", "AL02", "CV05", "CP01", "AL01,AL02,CV05,CP01"]
_LL_BUILTIN = [
    "select a,b  from tbl where x =1 and y= 2\n",
    "SELECT a FROM foo f WHERE a = NULL\n",
    "select\n a,\n    b y\nFROM tbl t\nwhere b = NULL and c in (select  1 from x)\n",
    "select a from t where a in (select b from u) and   c =1\n",
]


def _check_linted(fails, route, function, label, sql, linted_file, witness):
    from sqlfluff.core.errors import SQLLintError
    fixed, _ = linted_file.fix_string()
    if fixed != sql:
        fails.add(f"C18/loop-limit/{route}/text-unchanged", function, dict(witness, case=label, input=sql, observed=fixed))
    still = sorted({v.rule_code() for v in linted_file.violations if isinstance(v, SQLLintError) and v.fixes})
    if still:
        fails.add(f"C18/loop-limit/{route}/violations-reported-unfixable", function,
                  dict(witness, case=label, input=sql, still_fixable=still))


def _check_paths(fails, route, function, label, sql, make_linter, tmp, witness, **kw):
    d = tempfile.mkdtemp(prefix="ll_", dir=tmp)
    p = os.path.join(d, "demo_file.sql")
    _write(p, sql)
    _reset_runaway_state()
    with _watch() as w:
        result = make_linter().lint_paths((p,), fix=True, apply_fixes=True, **kw)
    after = _read(p)
    others = sorted(x for x in os.listdir(d) if x != "demo_file.sql")
    if after != sql or others:
        fails.add(f"C18/loop-limit/{route}/file-unchanged", function,
                  dict(witness, case=label, input=sql, observed=after if after != sql else f"<extra files written: {others}>"))
    rec_fix = sorted({v["code"] for rec in result.as_records() for v in rec["violations"] if v.get("fixes")})
    if rec_fix:
        fails.add(f"C18/loop-limit/{route}/violations-reported-unfixable", function,
                  dict(witness, case=label, input=sql, still_fixable=rec_fix))
    return w.hit


def loop_limit_matrix(tier="quick", seed=0):
    from click.testing import CliRunner
    from sqlfluff.cli.commands import fix
    from sqlfluff.core import FluffConfig, Linter
    t0 = time.time()
    fails = _Fails()
    ev, nontrivial, samples = 0, 0, []
    rules = _runaway_rules()
    LP = "sqlfluff.core.linter.linter:Linter.lint_paths"
    tmp = tempfile.mkdtemp(prefix="c18_loop_")
    try:
        # ---- (A) non-converging by construction: the custom rule widens whitespace on every pass, the companions never
        # touch whitespace, so no pass can leave the tree unchanged
        limits = (2, 5) if tier != "thorough" else (2, 3, 5, 10)
        combos = list(itertools.product(_LL_QUERIES, _LL_COMPANIONS, ("Z001", "Z002", "Z003,Z004"), limits))
        if tier != "thorough":
            rng = random.Random(seed)
            rng.shuffle(combos)
            # every (companion x phase) and every (query x phase x limit) at least once
            keep, seen = [], set()
            for q, comp, z, lim in combos:
                ks = {("cz", comp, z), ("qzl", q, z, lim)}
                if not ks <= seen:
                    keep.append((q, comp, z, lim))
                    seen |= ks
            combos = keep
        for q, comp, z, lim in combos:
            label = f"rules={comp},{z} runaway_limit={lim}"

            def mk(r=f"{comp},{z}", lim=lim):
                return Linter(config=FluffConfig(overrides={"dialect": "ansi", "rules": r, "runaway_limit": lim}), user_rules=rules)
            alone = mk(r=comp).lint_string(q, fix=True)
            companion_fixes = alone.fix_string()[0] != q
            w = {"companion_rules_fix_something_alone": companion_fixes}
            ev += 1
            _reset_runaway_state()
            with _watch() as watcher:
                lf = mk().lint_string(q, fix=True)
            nontrivial += 1 if companion_fixes else 0
            w["loop_limit_warning_seen"] = watcher.hit
            _check_linted(fails, "lint-string", F_LFP, label, q, lf, w)
            ev += 1
            _check_paths(fails, "lint-paths", LP, label, q, mk, tmp, w)
            if len(samples) < 3:
                samples.append({"case": label, "input": q})
        n_a = len(combos)
        # ---- (B) built-in rules only, tiny loop limits: in domain when the linter itself reports that it hit the limit
        n_b = 0
        for lim, q in itertools.product((1, 2), _LL_BUILTIN):
            label = f"all rules runaway_limit={lim}"

            def mk(lim=lim):
                return Linter(config=FluffConfig(overrides={"dialect": "ansi", "runaway_limit": lim}))
            with _watch() as watcher:
                lf = mk().lint_string(q, fix=True)
            if not watcher.hit:
                continue
            n_b += 1
            ev += 1
            nontrivial += 1
            _check_linted(fails, "lint-string", F_LFP, label, q, lf, {})
            ev += 1
            _check_paths(fails, "lint-paths", LP, label, q, mk, tmp, {})
            # the CLI: a project directory with its own .sqlfluff
            d = tempfile.mkdtemp(prefix="cli_", dir=tmp)
            _write(os.path.join(d, ".sqlfluff"), f"[sqlfluff]\ndialect = ansi\nrunaway_limit = {lim}\n")
            p = os.path.join(d, "demo_file.sql")
            _write(p, q)
            cwd = os.getcwd()
            try:
                os.chdir(d)
                ev += 1
                CliRunner().invoke(fix, ["demo_file.sql"])
                after = _read(p)
                if after != q:
                    fails.add("C18/loop-limit/cli-path-fix/file-unchanged", "sqlfluff.cli.commands:_paths_fix",
                              {"case": label, "input": q, "observed": after})
                ev += 1
                res = CliRunner().invoke(fix, ["-"], input=q)
                if res.stdout != q:
                    fails.add("C18/loop-limit/cli-stdin-fix/text-unchanged", "sqlfluff.cli.commands:_stdin_fix",
                              {"case": label, "input": q, "observed": res.stdout})
            finally:
                os.chdir(cwd)
    finally:
        shutil.rmtree(tmp, ignore_errors=True)
    assert n_a >= 10 and n_b >= 4, f"loop_limit_matrix: too few non-converging runs (custom rule {n_a}, built-in {n_b})"
    return {"name": "loop-limit-matrix",
            "bound": f"{n_a} runs with a non-converging custom rule (main phase / post phase / active in the post phase only) next to AL01 / AL02 / CV05 / CP01, runaway_limit in "
                     f"{list(limits)}, {len(_LL_QUERIES)} queries; {n_b} runs of all built-in rules with runaway_limit 1 / 2 that report the "
                     "loop limit; each through Linter.lint_string + fix_string and Linter.lint_paths(apply_fixes) on a real file, the "
                     "built-in ones also through `sqlfluff fix <path>` and `sqlfluff fix -`",
            "rule": "in domain = non-converging by construction (custom rule) or the linter's own `Loop limit on fixes reached` warning "
                    "(built-in rules); non-trivial = the well-behaved rules alone do change the query",
            "evaluations": ev, "distinct_nontrivial": nontrivial, "samples": samples, "failed": fails.list(),
            "wall_s": round(time.time() - t0, 1)}


EXTRA = [rollback_context]
BOUNDED = [route_matrix, loop_limit_matrix]
