"""C27 -- configuration precedence and isolation.

    "Each setting takes its value from the highest-precedence source that sets it, in increasing order:
     built-in defaults, user config, config files from the working directory down towards the file (nearer
     wins), an explicitly supplied config file, then command-line overrides.  A file's `-- sqlfluff:` inline
     comments override all of these for that file only.  Settings never leak from one file's nested or inline
     configuration into another file."

The code (core/helpers/dict.py nested_combine, core/config/loader.py, core/config/fluffconfig.py,
core/linter/linter.py) works on nested dictionaries of arbitrary depth.  pyvc models dicts as flat maps and
cannot execute `for k in d` over a dict nor the annotated `r: ... = {}` initialisation (both UNDECIDED
"unsupported" when tried on nested_combine), so NOTHING here is an SMT proof.  Three separately reported parts:

  (2) BOUNDED stand-ins, real code run under executable contracts written from the property statement
      a. nested_combine: last-definer-wins per key path, inputs unchanged, result owns all its containers
      b. end-to-end precedence on generated directory trees (ini/toml, appdir, home, cwd, sub, sub/sub,
         extra config file, overrides, inline), root config -> per-file config, inline effectiveness
      c. isolation over histories of files linted in one process, warm caches, cache-pollution probes,
         copy()/set_value ownership
  (3) SYNTACTIC data-flow obligations over the real AST (argument order of the combine calls, order-preserving
      construction of the directory stack, deepcopy on every store of nested_combine, cached loaders never
      mutated, inline config applied to a per-file object).
"""
from __future__ import annotations

import ast
import copy as _copy
import inspect
import itertools
import os
import random
import shutil
import sys
import tempfile
import textwrap
import time
import traceback

PROP = "C27"
LEVEL = "other"
NATIVE_TRIES = {"quick": 0, "thorough": 0}
_CACHE: dict = {}
_BACKEND_B = "CPython (bounded run of the real code under an executable contract)"


def _fail(ident, function, detail, kind="bounded"):
    return {"name": ident, "id": ident, "kind": kind, "status": "failed", "function": function,
            "detail": detail, "reproduced": True, "backend": _BACKEND_B}


class _Failures:
    """one failure entry per stable id; further failing inputs are counted and a few are kept"""

    def __init__(self):
        self.by_id = {}

    def add(self, ident, function, detail):
        f = self.by_id.get(ident)
        if f is None:
            self.by_id[ident] = _fail(ident, function, dict(detail, failing_cases=1))
        else:
            f["detail"]["failing_cases"] += 1
            more = f["detail"].setdefault("further_failing_inputs", [])
            if len(more) < 3:
                more.append(detail)

    def list(self):
        return list(self.by_id.values())


# =================================================================================================
# (2a) nested_combine -- executable contract, written from the property statement
# =================================================================================================
MISSING = "<missing>"
SECTION = "<section>"


def lookup(d, path):
    """value of the setting / section at `path`: MISSING, SECTION (a dict) or the leaf value"""
    for k in path:
        if not isinstance(d, dict) or k not in d:
            return MISSING
        d = d[k]
    return SECTION if isinstance(d, dict) else d


def paths(d, pre=()):
    for k, v in d.items():
        yield pre + (k,)
        if isinstance(v, dict):
            yield from paths(v, pre + (k,))


def containers(x, acc):
    """ids of every mutable container (dict / list) reachable from x"""
    if isinstance(x, dict):
        acc.add(id(x))
        for v in x.values():
            containers(v, acc)
    elif isinstance(x, list):
        acc.add(id(x))
        for v in x:
            containers(v, acc)
    return acc


def shape_conflict(args):
    """(code-derived) some path is a section in an earlier source and a plain value in a later one: the only
    inputs on which nested_combine is allowed to refuse (ValueError)"""
    allp = set(p for a in args for p in paths(a))
    for p in allp:
        seen_section = False
        for a in args:
            v = lookup(a, p)
            if v == MISSING:
                continue
            if v == SECTION:
                seen_section = True
            elif seen_section:
                return p
    return None


def nc_contract(args, snapshot, in_ids, result):
    """ensures of nested_combine(*args) -> result.  Returns [(clause, detail)] of violated clauses."""
    bad = []
    # frame: the sources are not modified
    if args != snapshot:
        bad.append(("inputs-unchanged", {"after": repr(args)}))
    # ownership: every container of the result was allocated by the call
    shared = containers(result, set()) & in_ids
    if shared:
        bad.append(("ownership", {"shared_containers": len(shared)}))
    # each setting takes its value from the LAST source that sets it
    allp = set(p for a in args for p in paths(a))
    for p in sorted(allp):
        vals = [v for v in (lookup(a, p) for a in args) if v != MISSING]
        got = lookup(result, p)
        want = vals[-1]
        if got != want or type(got) is not type(want):
            bad.append(("last-wins", {"path": list(p), "expected": repr(want), "got": repr(got)}))
            break
    # nothing invented
    for p in paths(result):
        if p not in allp:
            bad.append(("nothing-invented", {"path": list(p)}))
            break
    return bad


def _universe(level_keys, leaves):
    """all dict specs with keys of nesting level i drawn from level_keys[i]; a value is absent, a leaf or a
    dict of the next level (the empty dict included); spec = tuple of (key, ('L', leaf) | ('D', spec))"""
    def rec(i):
        if i >= len(level_keys):
            return [()]
        subs = rec(i + 1)
        opts = [None] + [("L", v) for v in leaves] + [("D", s) for s in subs]
        out = []
        for combo in itertools.product(opts, repeat=len(level_keys[i])):
            out.append(tuple((k, o) for k, o in zip(level_keys[i], combo) if o is not None))
        return out
    return rec(0)


def _build(spec):
    d = {}
    for k, (tag, v) in spec:
        if tag == "D":
            d[k] = _build(v)
        else:
            d[k] = list(v) if isinstance(v, tuple) else v
    return d


FAMILIES = {
    # name: (keys per nesting level, leaf values)          -- tuples stand for list-valued settings
    "deep": (["ab", "a", "a"], [1, 2]),                    # depth 3: 100 dicts
    "wide": (["abc", "a"], [1, 2, (3,)]),                  # depth 2, 3 keys, a mutable leaf: 729 dicts
}


def bounded_nested_combine(tier, seed):
    if ("nc", tier, seed) in _CACHE:
        return _CACHE[("nc", tier, seed)]
    t0 = time.time()
    from sqlfluff.core.helpers.dict import nested_combine
    rng = random.Random(seed)
    F = _Failures()
    fn = "sqlfluff.core.helpers.dict:nested_combine"
    evaluations = nontrivial = refused = 0
    samples, plan = [], []
    for fam, (lk, leaves) in FAMILIES.items():
        U = _universe(lk, leaves)
        for n in (1, 2, 3):
            total = len(U) ** n
            cap = {"quick": {"deep": 12000, "wide": 6000}, "thorough": {"deep": 1100000, "wide": 540000}}[tier][fam]
            if total <= cap:
                it = itertools.product(U, repeat=n)
                plan.append(f"{fam}: all {total} {n}-tuples of {len(U)} dicts")
            else:
                it = (tuple(rng.choice(U) for _ in range(n)) for _ in range(cap))
                plan.append(f"{fam}: {cap} sampled {n}-tuples of {total}")
            seen = set() if total > cap else None
            for specs in it:
                if seen is not None:
                    if specs in seen:
                        continue
                    seen.add(specs)
                args = [_build(s) for s in specs]
                snap = [_build(s) for s in specs]
                in_ids = set()
                for a in args:
                    containers(a, in_ids)
                conflict = shape_conflict(args)
                evaluations += 1
                try:
                    res = nested_combine(*args)
                except ValueError as e:
                    refused += 1
                    if conflict is None:
                        F.add(f"{PROP}/nested_combine/spurious-ValueError", fn, {"args": repr(snap), "exception": repr(e)[:200]})
                    continue
                except Exception:
                    F.add(f"{PROP}/nested_combine/exception", fn, {"args": repr(snap), "exception": traceback.format_exc()[-400:]})
                    continue
                if conflict is not None:
                    continue        # accepted a shape conflict: not demanded either way by the property
                for clause, det in nc_contract(args, snap, in_ids, res):
                    F.add(f"{PROP}/nested_combine/{clause}", fn, dict(det, args=repr(snap), result=repr(res)))
                if n >= 2:
                    keys = [set(paths(a)) for a in args]
                    if any(keys[i] & keys[j] for i in range(n) for j in range(i + 1, n)):
                        nontrivial += 1
                        if len(samples) < 4 and rng.random() < 0.002:
                            samples.append({"args": repr(snap), "result": repr(res)})
        # aliasing: the same object passed twice
        for s in U[:: max(1, len(U) // 100)]:
            d = _build(s)
            snap = _build(s)
            evaluations += 1
            try:
                res = nested_combine(d, d)
            except ValueError:
                continue
            for clause, det in nc_contract([d, d], [snap, snap], containers(d, set()), res):
                F.add(f"{PROP}/nested_combine/{clause}", fn, dict(det, args=repr([snap, snap]), result=repr(res)))
    if not samples:
        a = [{"a": {"a": 1}, "b": 2}, {"a": {"a": {"a": 2}}}]
        samples.append({"args": repr(a), "result": repr(nested_combine(*a))})
    out = {"name": "C27-nested_combine-contract", "bound": "; ".join(plan),
           "rule": "arguments are 1..3 nested dicts from two families (deep: keys {a,b}/{a}/{a}, leaves {1,2}, empty sections "
                   "allowed, depth<=3; wide: keys {a,b,c}/{a}, leaves {1,2,[3]}); exhaustive where the count is below the tier cap, "
                   "otherwise seeded sampling; contract: for every key path the result holds the value of the LAST argument "
                   "defining it (sections merge), nothing is invented, arguments are value-unchanged, and no dict/list object "
                   "reachable from the result is reachable from an argument (by id); ValueError is accepted only when an earlier "
                   "section meets a later plain value at one path; non-trivial = >=2 arguments sharing at least one key path and "
                   "no refusal (each enumerated tuple is distinct)",
           "evaluations": evaluations, "distinct_nontrivial": nontrivial, "refused_with_ValueError": refused,
           "samples": samples, "wall_s": round(time.time() - t0, 2), "failed": F.list()}
    _CACHE[("nc", tier, seed)] = out
    return out


# =================================================================================================
# sandbox: a private HOME, appdir, project tree and working directory; loader caches under control
# =================================================================================================
def _clear_caches():
    import sqlfluff.core.config.file as cf
    import sqlfluff.core.config.loader as cl
    for mod, names in ((cf, ("load_config_file_as_dict", "load_config_string_as_dict")), (cl, ("load_config_at_path",))):
        for n in names:
            f = getattr(mod, n, None)
            if hasattr(f, "cache_clear"):
                f.cache_clear()


class _Sandbox:
    """layout A: HOME=<top>/home, cwd=<top>/proj          (home is not an ancestor of the project)
       layout B: HOME=<top>/home, cwd=<top>/home/work/proj (home is an ancestor of the project)"""

    def __init__(self, layout="A"):
        self.layout = layout

    def __enter__(self):
        self.top = os.path.realpath(tempfile.mkdtemp(prefix="c27_"))
        self.env0 = {k: os.environ.get(k) for k in ("HOME", "XDG_CONFIG_HOME")}
        self.cwd0 = os.getcwd()
        self.home = os.path.join(self.top, "home")
        self.appdir = os.path.join(self.home, ".config", "sqlfluff")
        self.proj = os.path.join(self.top, "proj") if self.layout == "A" else os.path.join(self.home, "work", "proj")
        self.sub = os.path.join(self.proj, "sub")
        self.sub2 = os.path.join(self.sub, "sub2")
        self.extradir = os.path.join(self.top, "extra")
        for d in (self.appdir, self.sub2, self.extradir):
            os.makedirs(d)
        os.environ["HOME"] = self.home
        os.environ.pop("XDG_CONFIG_HOME", None)
        os.chdir(self.proj)
        _clear_caches()
        return self

    def __exit__(self, *exc):
        os.chdir(self.cwd0)
        for k, v in self.env0.items():
            if v is None:
                os.environ.pop(k, None)
            else:
                os.environ[k] = v
        shutil.rmtree(self.top, ignore_errors=True)
        _clear_caches()
        return False


def _write(path, text):
    with open(path, "w", newline="") as fh:
        fh.write(text)


def _ini(settings):
    """{path tuple: value} -> .sqlfluff text"""
    secs = {}
    for p, v in settings.items():
        secs.setdefault(p[:-1], []).append((p[-1], v))
    out = []
    for sec, kv in secs.items():
        out.append("[sqlfluff]" if sec == ("core",) else "[sqlfluff:" + ":".join(sec) + "]")
        out.extend(f"{k} = {v}" for k, v in kv)
        out.append("")
    return "\n".join(out)


def _toml(settings):
    """{path tuple: value} -> pyproject.toml text"""
    q = lambda s: '"%s"' % s if not s.replace("_", "").isalnum() else s
    secs = {}
    for p, v in settings.items():
        secs.setdefault(p[:-1], []).append((p[-1], v))
    out = ["[project]", 'name = "c27"', ""]
    for sec, kv in secs.items():
        out.append("[tool.sqlfluff." + ".".join(q(s) for s in sec) + "]")
        out.extend(f"{q(k)} = {v if isinstance(v, int) else chr(34) + str(v) + chr(34)}" for k, v in kv)
        out.append("")
    return "\n".join(out)


def _inline(path, value):
    return "-- sqlfluff:" + ":".join(path[1:] if path[0] == "core" else path) + ":" + str(value)


def _plain(x):
    """config values as plain comparable data; live objects (dialect, templater) by type name"""
    if isinstance(x, dict):
        return {k: _plain(v) for k, v in x.items()}
    if isinstance(x, (list, tuple)):
        return [_plain(v) for v in x]
    if x is None or isinstance(x, (str, int, float, bool)):
        return x
    return f"<{type(x).__name__}:{getattr(x, 'name', '')}>"


# =================================================================================================
# (2b) end-to-end precedence
# =================================================================================================
SRC_NAMES = {0: "built-in default", 1: "user appdir config", 2: "user home config", 3: "cwd config", 4: "sub/ config",
             5: "sub/sub2/ config (the file's directory)", 6: "extra config file", 7: "overrides", 8: "inline comment"}
DIALECTS = {1: "ansi", 2: "mysql", 3: "sqlite", 4: "postgres", 5: "duckdb", 6: "hive", 7: "exasol", 8: "db2"}
SETTINGS = [
    # (path, value given by source i, sources that can set it)
    (("core", "max_line_length"), lambda i: 100 + i, range(1, 9)),
    (("core", "runaway_limit"), lambda i: 200 + i, range(1, 9)),
    (("core", "dialect"), lambda i: DIALECTS[i], range(1, 9)),
    (("indentation", "tab_space_size"), lambda i: 300 + i, (1, 2, 3, 4, 5, 6, 8)),      # overrides are core-only
    (("rules", "capitalisation.keywords", "capitalisation_policy"), lambda i: f"src{i}", (1, 2, 3, 4, 5, 6, 8)),
    (("templater", "jinja", "context", "c27_var"), lambda i: f"ctx{i}", (1, 2, 3, 4, 5, 6, 8)),   # no built-in default
]
_MULT = [1, 37, 91, 11, 53, 201]
_ADD = [0, 77, 130, 5, 219, 164]


def _assignment(mask):
    """mask (one bit per source 1..8) -> {setting path: set of sources that set it}; setting j walks through all
    256 subsets as the mask does (odd multiplier = bijection), decorrelated from the other settings"""
    out = {}
    for j, (path, val, allowed) in enumerate(SETTINGS):
        m = (mask * _MULT[j] + _ADD[j]) % 256
        out[path] = {i for i in allowed if m >> (i - 1) & 1}
    return out


def _expected(asg, visible, defaults):
    """the property: the value of the highest-precedence visible source that sets the setting, else the default"""
    exp = {}
    for path, val, _ in SETTINGS:
        srcs = [i for i in asg[path] if i in visible]
        exp[path] = (val(max(srcs)), max(srcs)) if srcs else (defaults[path], 0)
    return exp


def _get(cfg, path):
    return cfg.get_section(list(path))


def bounded_precedence(tier, seed):
    if ("prec", tier, seed) in _CACHE:
        return _CACHE[("prec", tier, seed)]
    t0 = time.time()
    from sqlfluff.core import FluffConfig, Linter
    from sqlfluff.core.helpers.file import iter_intermediate_paths
    from pathlib import Path
    rng = random.Random(seed)
    F = _Failures()
    evaluations = 0
    distinct = set()
    samples = []
    masks = list(range(256))
    if tier == "quick":
        rng.shuffle(masks)
        masks = sorted(masks[:96])
        variants = [("A", "mixed")]
    else:
        variants = [("A", "mixed"), ("A", "ini"), ("B", "mixed"), ("B", "toml")]
    for layout, fmt in variants:
        with _Sandbox(layout) as sb:
            defaults_cfg = FluffConfig(require_dialect=False)
            defaults = {p: _get(defaults_cfg, p) for p, _, _ in SETTINGS}
            dirs = {1: sb.appdir, 2: sb.home, 3: sb.proj, 4: sb.sub, 5: sb.sub2}
            target = os.path.join(sb.sub2, "target.sql")
            sibling = os.path.join(sb.sub2, "sibling.sql")
            outside = os.path.join(sb.proj, "outside.sql")
            _write(sibling, "SELECT 1\n")
            _write(outside, "SELECT 1\n")
            # iter_intermediate_paths: outer -> inner, ends at the inner directory
            for inner in (sb.proj, sb.sub, sb.sub2, sibling):
                for outer in (sb.proj, sb.top, sb.home):
                    evaluations += 1
                    got = [str(p) for p in iter_intermediate_paths(Path(inner), Path(outer))]
                    inner_dir = inner if os.path.isdir(inner) else os.path.dirname(inner)
                    ok = (got and got[-1] == inner_dir
                          and all(got[k + 1].startswith(got[k].rstrip("/") + "/") for k in range(len(got) - 1))
                          and (got[0] == outer if (inner_dir + "/").startswith(outer + "/") else True))
                    if not ok:
                        F.add(f"{PROP}/iter_intermediate_paths/outer-to-inner", "sqlfluff.core.helpers.file:iter_intermediate_paths",
                              {"inner": inner.replace(sb.top, "<top>"), "outer": outer.replace(sb.top, "<top>"),
                               "yielded": [g.replace(sb.top, "<top>") for g in got]})
            for mask in masks:
                asg = _assignment(mask)
                # ---- materialise the sources
                use_toml = lambda i: fmt == "toml" or (fmt == "mixed" and (mask + i) % 3 == 0)
                for i, d in dirs.items():
                    for fnm in (".sqlfluff", "pyproject.toml"):
                        if os.path.exists(os.path.join(d, fnm)):
                            os.remove(os.path.join(d, fnm))
                    st = {p: val(i) for p, val, _ in SETTINGS if i in asg[p]}
                    if st:
                        _write(os.path.join(d, "pyproject.toml" if use_toml(i) else ".sqlfluff"), (_toml if use_toml(i) else _ini)(st))
                st6 = {p: val(6) for p, val, _ in SETTINGS if 6 in asg[p]}
                extra = None
                if st6:
                    extra = os.path.join(sb.extradir, "pyproject.toml" if use_toml(6) else "extra.cfg")
                    _write(extra, (_toml if use_toml(6) else _ini)(st6))
                ov = lambda: ({p[1]: val(7) for p, val, _ in SETTINGS if 7 in asg[p]} or None)
                inl = [(p, val(8)) for p, val, _ in SETTINGS if 8 in asg[p]]
                raw = "".join(_inline(p, v) + "\n" for p, v in inl) + "SELECT 1\n"
                _write(target, raw)
                _clear_caches()
                label = {"layout": layout, "format": fmt, "mask": mask,
                         "sources setting each value": {":".join(p): sorted(s) for p, s in asg.items()},
                         "source names": SRC_NAMES}

                def check(ident, function, cfg, visible):
                    nonlocal evaluations
                    evaluations += 1
                    exp = _expected(asg, visible, defaults)
                    for p, (want, src) in exp.items():
                        got = _get(cfg, p)
                        if got != want:
                            F.add(ident, function, dict(label, setting=":".join(p), expected=repr(want),
                                                        expected_from=SRC_NAMES[src], got=repr(got)))
                            return False
                    dn = _get(cfg, ("core", "dialect"))
                    dobj = _get(cfg, ("core", "dialect_obj"))
                    if dn is not None and getattr(dobj, "name", None) != dn:
                        F.add(ident, function, dict(label, setting="core:dialect_obj", expected=dn, got=repr(getattr(dobj, "name", None))))
                        return False
                    distinct.add((ident, tuple(sorted((p, src) for p, (_, src) in exp.items()))))
                    return True

                try:
                    # (A) FluffConfig.from_path(file): every source but inline
                    c = FluffConfig.from_path(target, extra_config_path=extra, overrides=ov(), require_dialect=False)
                    okA = check(f"{PROP}/precedence/from_path", "sqlfluff.core.config.fluffconfig:FluffConfig.from_path", c, {1, 2, 3, 4, 5, 6, 7})
                    # (C) inline on that object only
                    ref = FluffConfig.from_path(target, extra_config_path=extra, overrides=ov(), require_dialect=False)
                    before = _plain(ref._configs)
                    c.process_raw_file_for_config(raw, target)
                    check(f"{PROP}/precedence/inline(process_raw_file_for_config)",
                          "sqlfluff.core.config.fluffconfig:FluffConfig.process_raw_file_for_config", c, {1, 2, 3, 4, 5, 6, 7, 8})
                    evaluations += 1
                    if _plain(ref._configs) != before:
                        F.add(f"{PROP}/isolation/inline-reaches-another-config-object",
                              "sqlfluff.core.config.fluffconfig:FluffConfig.process_raw_file_for_config", dict(label, inline=[_inline(p, v) for p, v in inl]))
                    # (B) the CLI flow: root config for the working directory, then a child config per file
                    root = FluffConfig.from_root(extra_config_path=extra, overrides=ov(), require_dialect=False)
                    check(f"{PROP}/precedence/from_root", "sqlfluff.core.config.fluffconfig:FluffConfig.from_root", root, {1, 2, 3, 6, 7})
                    have_dialect_all = any(asg[("core", "dialect")] & {1, 2, 3, 6, 7})
                    if have_dialect_all:
                        root_before = _plain(root._configs)
                        _, fc, _ = Linter.load_raw_file_and_config(target, root)
                        check(f"{PROP}/precedence/per-file(load_raw_file_and_config)",
                              "sqlfluff.core.linter.linter:Linter.load_raw_file_and_config", fc, {1, 2, 3, 4, 5, 6, 7, 8})
                        _, sc, _ = Linter.load_raw_file_and_config(sibling, root)
                        check(f"{PROP}/isolation/sibling-file-config", "sqlfluff.core.linter.linter:Linter.load_raw_file_and_config", sc, {1, 2, 3, 4, 5, 6, 7})
                        _, oc, _ = Linter.load_raw_file_and_config(outside, root)
                        check(f"{PROP}/isolation/outside-file-config", "sqlfluff.core.linter.linter:Linter.load_raw_file_and_config", oc, {1, 2, 3, 6, 7})
                        evaluations += 1
                        if _plain(root._configs) != root_before or root.diff_to(FluffConfig.from_root(extra_config_path=extra, overrides=ov(), require_dialect=False)):
                            F.add(f"{PROP}/isolation/root-config-changed-by-file", "sqlfluff.core.linter.linter:Linter.load_raw_file_and_config",
                                  dict(label, inline=[_inline(p, v) for p, v in inl]))
                    if okA and len(samples) < 3 and mask % 50 == 7:
                        samples.append({"mask": mask, "layout": layout, "sources setting each value": label["sources setting each value"],
                                        "resolved": {":".join(p): repr(_get(c, p)) for p, _, _ in SETTINGS}})
                except Exception:
                    F.add(f"{PROP}/precedence/exception", "sqlfluff.core.config.fluffconfig:FluffConfig", dict(label, exception=traceback.format_exc()[-700:]))
    if not samples:
        samples.append({"note": "no passing sample case"})
    out = {"name": "C27-precedence-end-to-end",
           "bound": f"{len(masks)} source-subset assignments x {len(variants)} (layout, file format) variants x 6 settings x up to 8 checks (tier {tier})",
           "rule": "a private HOME (appdir ~/.config/sqlfluff and ~), a project tree cwd/sub/sub2, an extra config file, an overrides dict and "
                   "inline comments are the sources 1..8 on top of the built-in defaults (0); source i gives setting s the value v(s,i) which "
                   "names the source; for each 8-bit mask, setting j is set by exactly the sources in the bits of (mask*m_j+a_j) mod 256 "
                   "(m_j odd, so each setting runs through all subsets; overrides only for core settings); files are .sqlfluff or "
                   "pyproject.toml; loader caches are cleared between assignments; contract: FluffConfig.from_path / from_root / "
                   "Linter.load_raw_file_and_config (root -> child -> inline) / process_raw_file_for_config give each setting the value of "
                   "the highest-precedence source visible to that file which sets it, else the built-in default; a sibling file sees no "
                   "inline value, a file outside sub/ sees no nested value, the root config is unchanged afterwards; iter_intermediate_paths "
                   "yields outer->inner; distinct_nontrivial = distinct (check, winning source per setting) vectors",
           "evaluations": evaluations, "distinct_nontrivial": len(distinct), "samples": samples,
           "wall_s": round(time.time() - t0, 2), "failed": F.list()}
    _CACHE[("prec", tier, seed)] = out
    return out


# =================================================================================================
# (2b') inline directives are EFFECTIVE for the file that carries them (both ways of handing a file to the linter)
# =================================================================================================
BODY = ("SELECT\n    aaaaaaaa,\n    bbbbbbbbbbb  as cc\nfrom some_long_table_name_for_the_line_length_check_" + "x" * 40 + "\n")
DIRECTIVES = [
    # (setting path, value, sql body)
    (("core", "max_line_length"), "200", BODY),
    (("core", "exclude_rules"), "LT01,CP01", BODY),
    (("core", "rules"), "LT05", BODY),
    (("core", "warnings"), "LT01", BODY),
    (("core", "dialect"), "tsql", "SELECT TOP 1 a FROM t;\n"),
    (("rules", "capitalisation.keywords", "capitalisation_policy"), "lower", BODY),
    (("indentation", "tab_space_size"), "2", BODY),
    (("layout", "type", "comma", "line_position"), "leading", BODY),
]


def _sig(violations):
    return sorted((v.rule_code(), v.line_no, v.line_pos, bool(getattr(v, "warning", False))) for v in violations)


def bounded_inline_effective(tier, seed):
    if ("inl", tier, seed) in _CACHE:
        return _CACHE[("inl", tier, seed)]
    t0 = time.time()
    from sqlfluff.core import FluffConfig, Linter
    F = _Failures()
    evaluations, distinct, samples = 0, set(), []
    with _Sandbox("A") as sb:
        for path, value, body in DIRECTIVES:
            directive = _inline(path, value)
            text = directive + "\n" + body
            neutral = directive.replace("sqlfluff:", "sqlflufX:") + "\n" + body      # same shape, not a directive
            extra = os.path.join(sb.extradir, "top.cfg")
            is_dialect = path == ("core", "dialect")
            _write(extra, "" if is_dialect else _ini({path: value}))
            base_ov = lambda: {"dialect": "ansi"}
            top_ov = lambda: {"dialect": value if is_dialect else "ansi"}
            key = ":".join(path[1:] if path[0] == "core" else path)
            for entry in ("Linter.lint_paths", "Linter.lint_string"):
                ident = f"{PROP}/inline-effective/{entry.split('.')[1]}/{key}"
                label = {"entry": entry, "text": text, "directive": directive}
                try:
                    def run(txt, top):
                        _clear_caches()
                        cfg = (FluffConfig.from_root(extra_config_path=extra, overrides=top_ov()) if top
                               else FluffConfig.from_root(overrides=base_ov()))
                        lnt = Linter(config=cfg)
                        if entry == "Linter.lint_paths":
                            p = os.path.join(sb.proj, "f.sql")
                            _write(p, txt)
                            return _sig(lnt.lint_paths((p,)).get_violations())
                        return _sig(lnt.lint_string(txt, fname="f.sql").get_violations())
                    evaluations += 3
                    got = run(text, False)            # the directive only inline
                    want = run(text, True)            # the same text, the same setting also given at the top non-inline precedence
                    plain = run(neutral, False)       # the directive neutralised
                    if want != plain:
                        distinct.add((entry, key))
                    if got != want:
                        F.add(ident, "sqlfluff.core.linter.linter:" + entry,
                              dict(label, violations_with_inline_directive=got,
                                   violations_when_the_setting_is_given_as_override_or_extra_config=want,
                                   violations_without_the_directive=plain,
                                   how_to_rerun=("sqlfluff lint f.sql --dialect ansi" if entry == "Linter.lint_paths" else
                                                 "sqlfluff lint - --dialect ansi < f.sql   (or sqlfluff.lint(text, dialect='ansi'))")))
                    elif len(samples) < 3 and want != plain:
                        samples.append(dict(label, violations=got, violations_without_the_directive=plain))
                except Exception:
                    F.add(ident, "sqlfluff.core.linter.linter:" + entry, dict(label, exception=traceback.format_exc()[-700:]))
    out = {"name": "C27-inline-directives-effective",
           "bound": f"{len(DIRECTIVES)} inline directives x 2 entry points (file on disk via lint_paths, text via lint_string = stdin / API) x 3 runs",
           "rule": "for each directive d and entry point: violations(text with `-- sqlfluff:d`, base config) must equal violations(same text, "
                   "base config + d supplied through the extra config file / overrides), i.e. the inline value is what the linter uses; "
                   "non-trivial = the directive changes the violations at all (compared with the directive neutralised)",
           "evaluations": evaluations, "distinct_nontrivial": len(distinct), "samples": samples or [{"note": "no passing non-trivial case"}],
           "wall_s": round(time.time() - t0, 2), "failed": F.list()}
    _CACHE[("inl", tier, seed)] = out
    return out


# =================================================================================================
# (2c) isolation: histories of files linted in one process; cache pollution; copy / set_value ownership
# =================================================================================================
def _iso_files(sb):
    """(label, path relative to the project, text, config files to write next to it)"""
    nested_cfg = _ini({("core", "max_line_length"): 200, ("rules", "capitalisation.keywords", "capitalisation_policy"): "upper",
                       ("indentation", "tab_space_size"): 2, ("core", "exclude_rules"): "LT01"})
    return [
        ("plain", "plain.sql", BODY, None),
        ("inline max_line_length", "i_mll.sql", "-- sqlfluff:max_line_length:200\n" + BODY, None),
        ("inline rule option", "i_cap.sql", "-- sqlfluff:rules:capitalisation.keywords:capitalisation_policy:lower\n" + BODY, None),
        ("inline exclude_rules", "i_excl.sql", "-- sqlfluff:exclude_rules:LT01,CP01\n" + BODY, None),
        ("inline indentation", "i_tab.sql", "-- sqlfluff:indentation:tab_space_size:2\n" + BODY, None),
        ("inline layout", "i_lay.sql", "-- sqlfluff:layout:type:comma:line_position:leading\n" + BODY, None),
        ("inline dialect", "i_dia.sql", "-- sqlfluff:dialect:tsql\n" + BODY, None),
        # the directive prefix is also accepted without the space (process_raw_file_for_config); seed C27_C
        ("inline rule option, no space", "i_cap2.sql", "--sqlfluff:rules:capitalisation.keywords:capitalisation_policy:upper\n" + BODY, None),
        ("inline max_line_length, no space", "i_mll2.sql", "--sqlfluff:max_line_length:30\n" + BODY, None),
        ("nested .sqlfluff", os.path.join("nest", "n.sql"), BODY, (".sqlfluff", nested_cfg)),
        ("plain in sub", os.path.join("sub", "p2.sql"), BODY, None),
    ]


def bounded_isolation(tier, seed):
    if ("iso", tier, seed) in _CACHE:
        return _CACHE[("iso", tier, seed)]
    t0 = time.time()
    from sqlfluff.core import FluffConfig, Linter
    import sqlfluff.core.config.file as cfile
    import sqlfluff.core.config.loader as cloader
    rng = random.Random(seed)
    F = _Failures()
    evaluations, distinct, samples = 0, set(), []
    with _Sandbox("A") as sb:
        _write(os.path.join(sb.proj, ".sqlfluff"), _ini({("core", "dialect"): "ansi", ("core", "max_line_length"): 80}))
        _write(os.path.join(sb.home, ".sqlfluff"), _ini({("indentation", "tab_space_size"): 4}))
        files = _iso_files(sb)
        os.makedirs(os.path.join(sb.proj, "nest"))
        for _, rel, text, cf in files:
            _write(os.path.join(sb.proj, rel), text)
            if cf:
                _write(os.path.join(sb.proj, os.path.dirname(rel), cf[0]), cf[1])
        cfg_files = [os.path.join(sb.proj, ".sqlfluff"), os.path.join(sb.home, ".sqlfluff"), os.path.join(sb.proj, "nest", ".sqlfluff")]
        cfg_dirs = [sb.proj, sb.home, os.path.join(sb.proj, "nest"), sb.sub]
        new_root = lambda: FluffConfig.from_root(overrides={"dialect": "ansi"})
        by_path = lambda res: {os.path.relpath(f.path, sb.proj): _sig(f.get_violations()) for d in res.paths for f in d.files}

        # ---- each file alone, cold caches, fresh objects: the reference
        solo_p, solo_s = {}, {}
        for lab, rel, text, _ in files:
            _clear_caches()
            solo_p[rel] = by_path(Linter(config=new_root()).lint_paths((os.path.join(sb.proj, rel),)))[rel]
            _clear_caches()
            solo_s[rel] = _sig(Linter(config=new_root()).lint_string(text, fname=rel).get_violations())
            evaluations += 2
        defaults_before = _plain(cloader.nested_combine(*new_root()._plugin_manager.hook.load_default_config()))
        if len({repr(v) for v in solo_p.values()}) < 5:
            F.add(f"{PROP}/isolation/harness-not-sensitive", "harness", {"solo": {k: repr(v) for k, v in solo_p.items()}})

        # ---- histories: sequences of files through ONE linter / ONE root config with warm caches
        n = len(files)
        seqs = [(i, j) for i in range(n) for j in range(n) if i != j]
        if tier == "quick":
            rng.shuffle(seqs)
            seqs = sorted(seqs[:30])
        longs = [tuple(rng.sample(range(n), n)) for _ in range(2 if tier == "quick" else 12)]
        _clear_caches()
        shared_linter = Linter(config=new_root())          # also one linter reused across all histories
        for num, seq in enumerate(seqs + longs):
            modes = ("fresh linter per history", "one linter for all histories")
            if tier == "quick" and len(seq) == 2:
                modes = modes[num % 2:num % 2 + 1]          # quick tier: pairs alternate between the two modes
            for mode in modes:
                lnt = Linter(config=new_root()) if mode.startswith("fresh") else shared_linter
                label = {"history": [files[k][0] + " (" + files[k][1] + ")" for k in seq], "linter": mode}
                try:
                    evaluations += 1
                    got = by_path(lnt.lint_paths(tuple(os.path.join(sb.proj, files[k][1]) for k in seq)))
                    for k in seq:
                        rel = files[k][1]
                        if got.get(rel) != solo_p[rel]:
                            F.add(f"{PROP}/isolation/sequence/lint_paths", "sqlfluff.core.linter.linter:Linter.lint_paths",
                                  dict(label, file=rel, text=files[k][2], violations_in_this_history=got.get(rel), violations_alone=solo_p[rel]))
                            break
                    else:
                        distinct.add(("paths", seq))
                    evaluations += 1
                    for pos, k in enumerate(seq):
                        rel, text = files[k][1], files[k][2]
                        cfg_before = repr(_plain(lnt.config._configs))
                        g = _sig(lnt.lint_string(text, fname=rel).get_violations())
                        if repr(_plain(lnt.config._configs)) != cfg_before:
                            # "settings never leak": the linter's own config is not the file's config
                            F.add(f"{PROP}/isolation/linter-config-unchanged/lint_string", "sqlfluff.core.linter.linter:Linter.parse_string",
                                  dict(label, position=pos, file=rel, text=text, config_before=cfg_before[:600],
                                       config_after=repr(_plain(lnt.config._configs))[:600]))
                        if g != solo_s[rel]:
                            F.add(f"{PROP}/isolation/sequence/lint_string", "sqlfluff.core.linter.linter:Linter.lint_string",
                                  dict(label, position=pos, file=rel, text=text, violations_in_this_history=g, violations_alone=solo_s[rel]))
                            break
                    else:
                        distinct.add(("string", seq))
                except Exception:
                    F.add(f"{PROP}/isolation/sequence/exception", "sqlfluff.core.linter.linter:Linter", dict(label, exception=traceback.format_exc()[-700:]))
        if len(samples) < 2:
            samples.append({"history": [files[k][1] for k in longs[0]], "violations per file == violations alone": not any("/sequence/" in k for k in F.by_id),
                            "violations alone": {files[k][1]: repr(solo_p[files[k][1]]) for k in longs[0][:3]}})

        # ---- the caches after all that (warm): value-equal to a fresh read
        def cache_probe(tag):
            nonlocal evaluations
            for p in cfg_files:
                evaluations += 1
                f = cfile.load_config_file_as_dict
                if hasattr(f, "__wrapped__") and _plain(f(p)) != _plain(f.__wrapped__(p)):
                    F.add(f"{PROP}/isolation/cache-polluted/load_config_file_as_dict", "sqlfluff.core.config.file:load_config_file_as_dict",
                          {"when": tag, "file": p.replace(sb.top, "<top>"), "cached": repr(_plain(f(p))), "fresh": repr(_plain(f.__wrapped__(p)))})
            for d in cfg_dirs:
                evaluations += 1
                f = cloader.load_config_at_path
                if hasattr(f, "__wrapped__") and _plain(f(d)) != _plain(f.__wrapped__(d)):
                    F.add(f"{PROP}/isolation/cache-polluted/load_config_at_path", "sqlfluff.core.config.loader:load_config_at_path",
                          {"when": tag, "dir": d.replace(sb.top, "<top>"), "cached": repr(_plain(f(d))), "fresh": repr(_plain(f.__wrapped__(d)))})
            evaluations += 1
            now = _plain(cloader.nested_combine(*new_root()._plugin_manager.hook.load_default_config()))
            if now != defaults_before:
                diff = [k for k in now if now.get(k) != defaults_before.get(k)]
                F.add(f"{PROP}/isolation/cache-polluted/default-config", "sqlfluff.core.config.file:load_config_string_as_dict",
                      {"when": tag, "sections changed": diff, "now": repr({k: now[k] for k in diff})[:600],
                       "before": repr({k: defaults_before.get(k) for k in diff})[:600]})
        cache_probe("after the histories")

        # ---- writes through the public mutators of one file's config reach nothing else
        WRITES = [(("core", "max_line_length"), 7), (("indentation", "tab_space_size"), 9), (("layout", "type", "comma", "line_position"), "leading"),
                  (("rules", "capitalisation.keywords", "capitalisation_policy"), "upper"), (("rules", "c27.new", "opt"), "x"),
                  (("templater", "jinja", "context", "c27"), "y"), (("c27section", "k"), "v")]
        root = new_root()
        tgt = os.path.join(sb.proj, "nest", "n.sql")
        oth = os.path.join(sb.proj, "sub", "p2.sql")
        for maker, mlabel in ((lambda: Linter.load_raw_file_and_config(tgt, root)[1], "Linter.load_raw_file_and_config(nest/n.sql, root)"),
                              (lambda: root.copy(), "root.copy()"),
                              (lambda: root.make_child_from_path(tgt), "root.make_child_from_path(nest/n.sql)")):
            for path, val in WRITES:
                evaluations += 1
                label = {"object": mlabel, "write": f"set_value({list(path)!r}, {val!r})"}
                try:
                    root_before = _plain(root._configs)
                    other_before = _plain(Linter.load_raw_file_and_config(oth, root)[1]._configs)
                    twin = maker()
                    victim = maker()
                    twin_before = _plain(twin._configs)
                    victim.set_value(list(path), val)
                    if _get(victim, path) != val:
                        F.add(f"{PROP}/isolation/set_value-not-applied", "sqlfluff.core.config.fluffconfig:FluffConfig.set_value", dict(label, got=repr(_get(victim, path))))
                    if _plain(root._configs) != root_before or root.diff_to(new_root()) or new_root().diff_to(root):
                        F.add(f"{PROP}/isolation/write-reaches-root-config", "sqlfluff.core.config.fluffconfig:FluffConfig.set_value",
                              dict(label, root_value_now=repr(_get(root, path))))
                    if _plain(twin._configs) != twin_before:
                        F.add(f"{PROP}/isolation/write-reaches-sibling-object", "sqlfluff.core.config.fluffconfig:FluffConfig.set_value",
                              dict(label, sibling_value_now=repr(_get(twin, path))))
                    if _plain(Linter.load_raw_file_and_config(oth, root)[1]._configs) != other_before:
                        F.add(f"{PROP}/isolation/write-reaches-next-file-config", "sqlfluff.core.config.fluffconfig:FluffConfig.set_value", label)
                    distinct.add(("write", mlabel, path))
                except Exception:
                    F.add(f"{PROP}/isolation/write/exception", "sqlfluff.core.config.fluffconfig:FluffConfig.set_value", dict(label, exception=traceback.format_exc()[-700:]))
        cache_probe("after set_value on per-file / copied configs")
    out = {"name": "C27-isolation-histories",
           "bound": f"{len(files)} files (7 with inline directives, 1 under a nested .sqlfluff, 2 plain) ; {len(seqs)} ordered pairs + {len(longs)} "
                    f"permutations of all, with a fresh linter and / or one linter reused for everything (quick tier: pairs alternate), lint_paths and lint_string; "
                    f"{len(WRITES)} set_value writes x 3 ways of obtaining a per-file config; cache probes (tier {tier})",
           "rule": "reference = each file linted alone with cold loader caches and fresh objects; contract: in every history each file's "
                   "violations (rule, line, position, warning flag) equal its reference; afterwards every cached config dict "
                   "(load_config_file_as_dict, load_config_at_path, default config) is value-equal to a fresh read; set_value on a config "
                   "obtained by load_raw_file_and_config / copy() / make_child_from_path changes neither the root config (diff_to empty both "
                   "ways), nor a sibling object, nor the next file's config, nor the caches; all files share one sensor SQL body whose "
                   "violations differ under each directive (harness-not-sensitive fails otherwise); distinct_nontrivial = distinct passed "
                   "histories / writes",
           "evaluations": evaluations, "distinct_nontrivial": len(distinct), "samples": samples,
           "wall_s": round(time.time() - t0, 2), "failed": F.list()}
    _CACHE[("iso", tier, seed)] = out
    return out


# =================================================================================================
# (3) syntactic data-flow obligations over the real source
# =================================================================================================
class _Stale(Exception):
    """the code no longer has the shape the obligation talks about: undecided, not failed"""


def _fn_ast(obj):
    """(file, FunctionDef) of a real function / method, from the file it was imported from"""
    obj = inspect.unwrap(obj)
    obj = getattr(obj, "__func__", obj)
    obj = inspect.unwrap(obj)
    file = inspect.getsourcefile(obj)
    lines, start = inspect.getsourcelines(obj)
    tree = ast.parse(textwrap.dedent("".join(lines)))
    node = tree.body[0]
    if not isinstance(node, (ast.FunctionDef, ast.AsyncFunctionDef)):
        raise _Stale(f"{obj!r}: not a function definition")
    ast.increment_lineno(node, start - 1)
    return file, node


def _callee(call):
    f = call.func
    return f.id if isinstance(f, ast.Name) else f.attr if isinstance(f, ast.Attribute) else None


def _calls(node, name):
    return [n for n in ast.walk(node) if isinstance(n, ast.Call) and _callee(n) == name]


def _root(e):
    """the variable an argument expression stands for: x, x or <default>, *x, list(x)"""
    star = ""
    if isinstance(e, ast.Starred):
        star, e = "*", e.value
    if isinstance(e, ast.BoolOp) and isinstance(e.op, ast.Or):
        e = e.values[0]
    if isinstance(e, ast.Call) and _callee(e) in ("list", "tuple") and len(e.args) == 1:
        e = e.args[0]
    if isinstance(e, ast.Name):
        return star + e.id
    if isinstance(e, ast.Attribute):
        return star + ast.unparse(e)
    return star + "<" + ast.unparse(e)[:40] + ">"


def _assigned(fnode, name):
    """values assigned to local `name` (or attribute text like self._configs) in the function"""
    out = []
    for n in ast.walk(fnode):
        tg, val = [], None
        if isinstance(n, ast.Assign):
            tg, val = n.targets, n.value
        elif isinstance(n, ast.AnnAssign) and n.value is not None:
            tg, val = [n.target], n.value
        for t in tg:
            if isinstance(t, ast.Tuple):
                pair = isinstance(val, ast.Tuple) and len(val.elts) == len(t.elts)
                for k, t2 in enumerate(t.elts):
                    if ast.unparse(t2) == name:
                        out.append(val.elts[k] if pair else val)
            elif ast.unparse(t) == name:
                out.append(val)
    return out


def _order_obligation(call, expected):
    """positional arguments of `call` stand for `expected` in exactly this order"""
    got = [_root(a) for a in call.args]
    if got == expected:
        return True, got
    if sorted(got) == sorted(expected):
        return False, got                          # the same sources, another precedence order
    raise _Stale(f"combine arguments are {got}, the obligation knows {expected}")


def _order_preserving(fnode, stack, source_names):
    """local list `stack` is built from the iterable `source` in iteration order"""
    vals = [v for v in _assigned(fnode, stack) if not (isinstance(v, ast.List) and not v.elts)]
    ok_any = False
    for v in vals:
        if isinstance(v, ast.ListComp) and len(v.generators) == 1:
            it = v.generators[0].iter
            txt = ast.unparse(it)
            if any(w in txt for w in ("reversed(", "sorted(", "[::-1]")):
                return False, f"{stack} built from {txt}"
            if _root(it) not in source_names:
                raise _Stale(f"{stack} iterates {txt}")
            ok_any = True
        else:
            raise _Stale(f"{stack} = {ast.unparse(v)[:60]}")
    for c in ast.walk(fnode):
        if isinstance(c, ast.Call) and isinstance(c.func, ast.Attribute) and ast.unparse(c.func.value) == stack:
            if c.func.attr in ("insert", "reverse", "sort"):
                return False, f"{stack}.{c.func.attr}(...)"
            if c.func.attr in ("append", "extend"):
                ok_any = True
    if not ok_any:
        raise _Stale(f"no construction of {stack} found")
    return True, f"{stack} <- {source_names} in iteration order"


def _kw(call, name):
    for k in call.keywords:
        if k.arg == name:
            return ast.unparse(k.value)
    return None


def dataflow_obligations(tier, seed):
    t0 = time.time()
    from sqlfluff.core.config.fluffconfig import FluffConfig
    from sqlfluff.core.config import loader as L, file as CF
    from sqlfluff.core.helpers import dict as HD
    from sqlfluff.core.linter.linter import Linter
    import sqlfluff
    pkgdir = os.path.dirname(os.path.abspath(sqlfluff.__file__))
    n = ok = 0
    failed, undecided, samples, trusted = [], [], [], []

    def obligation(what, function, thunk):
        nonlocal n, ok
        n += 1
        ident = f"{PROP}/dataflow/{what}"
        try:
            good, info = thunk()
        except _Stale as e:
            undecided.append({"function": function, "obligation": ident, "reason": f"source shape changed: {e}"})
            return
        except Exception:
            undecided.append({"function": function, "obligation": ident, "reason": traceback.format_exc()[-400:]})
            return
        if good:
            ok += 1
            samples.append({"obligation": ident, "backend": "syntactic data-flow", "witness": str(info)[:300]})
        else:
            failed.append({"name": ident, "id": ident, "kind": "syntactic", "status": "failed", "function": function,
                           "backend": "syntactic data-flow (python ast of the imported source)", "reproduced": False,
                           "detail": {"found": str(info)[:600], "file": function}})

    # ---- FluffConfig.__init__
    def init_order():
        file, fn = _fn_ast(FluffConfig.__init__)
        vals = [v for v in _assigned(fn, "self._configs") if isinstance(v, ast.Call) and _callee(v) == "nested_combine"]
        if len(vals) != 1:
            raise _Stale("self._configs is not assigned from exactly one nested_combine(...) call")
        return _order_obligation(vals[0], ["defaults", "configs", "overrides"])
    obligation("FluffConfig.__init__/combine-order(defaults,configs,overrides)", "sqlfluff.core.config.fluffconfig:FluffConfig.__init__", init_order)

    def init_sources():
        file, fn = _fn_ast(FluffConfig.__init__)
        params = [a.arg for a in fn.args.args]
        if "configs" not in params or "overrides" not in params:
            raise _Stale("parameters configs / overrides")
        if _assigned(fn, "configs"):
            return False, "parameter `configs` is re-bound before the combine"
        d = _assigned(fn, "defaults")
        if len(d) != 1 or "load_default_config" not in ast.unparse(d[0]) or _callee(d[0]) != "nested_combine":
            return False, "defaults = " + "; ".join(ast.unparse(x) for x in d)
        o = [ast.unparse(x) for x in _assigned(fn, "overrides")]
        if o != ["{'core': overrides}"]:
            return False, f"overrides re-bound as {o}"
        return True, "configs: parameter; defaults = nested_combine(*hook.load_default_config()); overrides = {'core': overrides}"
    obligation("FluffConfig.__init__/sources(defaults-from-plugins,overrides-under-core)", "sqlfluff.core.config.fluffconfig:FluffConfig.__init__", init_sources)

    # ---- load_config_up_to_path
    def upto_order():
        file, fn = _fn_ast(L.load_config_up_to_path)
        rets = [r.value for r in ast.walk(fn) if isinstance(r, ast.Return) and isinstance(r.value, ast.Call) and _callee(r.value) == "nested_combine"]
        if len(rets) != 1 or any(isinstance(r, ast.Return) and not (isinstance(r.value, ast.Call) and _callee(r.value) == "nested_combine") for r in ast.walk(fn)):
            raise _Stale("not exactly one `return nested_combine(...)`")
        return _order_obligation(rets[0], ["user_appdir_config", "user_config", "*parent_config_stack", "*config_stack", "extra_config"])
    obligation("load_config_up_to_path/combine-order(appdir,home,*parents,*cwd->path,extra)", "sqlfluff.core.config.loader:load_config_up_to_path", upto_order)

    def upto_stack():
        file, fn = _fn_ast(L.load_config_up_to_path)
        g1, i1 = _order_preserving(fn, "config_stack", ["config_paths"])
        g2, i2 = _order_preserving(fn, "parent_config_stack", ["parent_config_paths"])
        return g1 and g2, f"{i1}; {i2}"
    obligation("load_config_up_to_path/directory-stacks-keep-iteration-order", "sqlfluff.core.config.loader:load_config_up_to_path", upto_stack)

    def upto_sources():
        file, fn = _fn_ast(L.load_config_up_to_path)
        want = {"user_appdir_config": lambda t: t == "_load_user_appdir_config()",
                "user_config": lambda t: t.startswith("load_config_at_path(") and "expanduser('~')" in t,
                "extra_config": lambda t: t.startswith("load_config_file_as_dict(") and "config_path" in t,
                "config_paths": lambda t: t.startswith("iter_intermediate_paths(Path(path)") and t.endswith("Path.cwd())"),
                "parent_config_paths": lambda t: ("iter_intermediate_paths(Path(path)" in t and "expanduser('~')" in t) or t == "parent_config_paths[1:-1]"}
        seen = {}
        for name, pred in want.items():
            vals = [ast.unparse(v) for v in _assigned(fn, name) if ast.unparse(v) != "{}"]
            if not vals:
                raise _Stale(f"{name} is not assigned")
            bad = [v for v in vals if not pred(v)]
            if bad:
                return False, f"{name} = {bad[0]}"
            seen[name] = vals
        elts = [ast.unparse(v.elt) for nm in ("config_stack", "parent_config_stack") for v in _assigned(fn, nm) if isinstance(v, ast.ListComp)]
        if not elts or any(not e.startswith("load_config_at_path(") for e in elts):
            return False, f"stack elements {elts}"
        return True, seen
    obligation("load_config_up_to_path/each-name-bound-to-its-source", "sqlfluff.core.config.loader:load_config_up_to_path", upto_sources)

    # ---- from_path / from_root / make_child_from_path hand the sources on unchanged
    def feeds(method, loader_path):
        def thunk():
            file, fn = _fn_ast(getattr(FluffConfig, method))
            lc = _calls(fn, "load_config_up_to_path")
            cc = [c for c in ast.walk(fn) if isinstance(c, ast.Call) and ast.unparse(c.func) == "cls"]
            if len(lc) != 1 or len(cc) != 1:
                raise _Stale("expected one load_config_up_to_path(...) and one cls(...)")
            tgt = [ast.unparse(t) for a in ast.walk(fn) if isinstance(a, ast.Assign) and a.value is lc[0] for t in a.targets]
            facts = {"loader path": _kw(lc[0], "path"), "loader extra": _kw(lc[0], "extra_config_path"), "loader result": tgt,
                     "cls configs": _kw(cc[0], "configs"), "cls overrides": _kw(cc[0], "overrides"), "cls extra": _kw(cc[0], "extra_config_path")}
            good = (facts["loader path"] == loader_path and facts["loader extra"] == "extra_config_path" and tgt == [facts["cls configs"]]
                    and facts["cls overrides"] == "overrides" and facts["cls extra"] == "extra_config_path")
            return good, facts
        return thunk
    obligation("FluffConfig.from_path/loader-result-is-configs,overrides-and-extra-passed-on", "sqlfluff.core.config.fluffconfig:FluffConfig.from_path", feeds("from_path", "path"))
    obligation("FluffConfig.from_root/loader-result-is-configs,overrides-and-extra-passed-on", "sqlfluff.core.config.fluffconfig:FluffConfig.from_root", feeds("from_root", "'.'"))

    def child():
        file, fn = _fn_ast(FluffConfig.make_child_from_path)
        c = _calls(fn, "from_path")
        if len(c) != 1:
            raise _Stale("expected one from_path(...) call")
        facts = {"path": ast.unparse(c[0].args[0]) if c[0].args else _kw(c[0], "path"), "extra": _kw(c[0], "extra_config_path"),
                 "overrides": _kw(c[0], "overrides"), "ignore_local_config": _kw(c[0], "ignore_local_config")}
        return facts == {"path": "path", "extra": "self._extra_config_path", "overrides": "self._overrides",
                         "ignore_local_config": "self._ignore_local_config"}, facts
    obligation("FluffConfig.make_child_from_path/inherits-extra-config-and-overrides", "sqlfluff.core.config.fluffconfig:FluffConfig.make_child_from_path", child)

    # ---- nested_combine: fresh result, deep copies on every store
    def nc_fresh():
        file, fn = _fn_ast(HD.nested_combine)
        res = [ast.unparse(r.value) for r in ast.walk(fn) if isinstance(r, ast.Return)]
        if len(res) != 1 or not isinstance(ast.parse(res[0]).body[0].value, ast.Name):
            raise _Stale(f"returns {res}")
        r = res[0]
        init = [ast.unparse(v) for v in _assigned(fn, r)]
        if init != ["{}"]:
            return False, f"{r} initialised as {init}"
        stores = []
        for a in ast.walk(fn):
            if isinstance(a, (ast.Assign, ast.AugAssign, ast.AnnAssign)):
                tgs = a.targets if isinstance(a, ast.Assign) else [a.target]
                for t in tgs:
                    if isinstance(t, ast.Subscript) and ast.unparse(t.value) == r:
                        v = a.value
                        kind = _callee(v) if isinstance(v, ast.Call) else None
                        stores.append((a.lineno, ast.unparse(v)[:80], kind))
            if isinstance(a, ast.Call) and isinstance(a.func, ast.Attribute) and ast.unparse(a.func.value) == r \
                    and a.func.attr in ("update", "setdefault", "__setitem__"):
                stores.append((a.lineno, ast.unparse(a)[:80], None))
        if not stores:
            raise _Stale("no store into the result found")
        bad = [s for s in stores if s[2] not in ("deepcopy", "nested_combine")]
        if bad:
            return False, f"{file}:{bad[0][0]}: result[...] = {bad[0][1]}  (an input object is stored without a copy)"
        return True, [f"line {ln}: {r}[k] = {tx}" for ln, tx, _ in stores]
    obligation("nested_combine/result-fresh-and-every-stored-value-deepcopied", "sqlfluff.core.helpers.dict:nested_combine", nc_fresh)

    # ---- the cached loaders: decorated, and their results are never written to
    def cached_never_mutated():
        cached = {}
        for mod in (CF, L):
            file = inspect.getsourcefile(mod)
            tree = ast.parse(open(file).read())
            for f in tree.body:
                if isinstance(f, ast.FunctionDef) and any(ast.unparse(d) in ("cache", "functools.cache", "lru_cache", "functools.lru_cache(maxsize=None)",
                                                                              "lru_cache(maxsize=None)") for d in f.decorator_list):
                    cached[f.name] = file
        for must in ("load_config_file_as_dict", "load_config_string_as_dict", "load_config_at_path"):
            if must not in cached:
                raise _Stale(f"{must} is no longer a cached function")
        MUT = {"update", "setdefault", "pop", "popitem", "clear", "append", "extend", "insert", "remove", "sort", "reverse", "__setitem__", "__delitem__"}
        taint_fns = set(cached)
        sites, escapes = [], []
        for _round in range(4):
            grew = False
            for dirpath, _, fnames in os.walk(pkgdir):
                for fnm in fnames:
                    if not fnm.endswith(".py"):
                        continue
                    p = os.path.join(dirpath, fnm)
                    src = open(p, encoding="utf-8").read()
                    if not any(t in src for t in taint_fns):
                        continue
                    for f in [x for x in ast.walk(ast.parse(src)) if isinstance(x, (ast.FunctionDef, ast.AsyncFunctionDef))]:
                        tainted = set()
                        is_t = lambda e: (isinstance(e, ast.Call) and _callee(e) in taint_fns) or \
                                         (isinstance(e, ast.Name) and e.id in tainted) or \
                                         (isinstance(e, ast.ListComp) and is_t(e.elt)) or \
                                         (isinstance(e, ast.Call) and isinstance(e.func, ast.Attribute) and e.func.attr == "get" and is_t(e.func.value)) or \
                                         (isinstance(e, ast.Subscript) and is_t(e.value))
                        for _ in range(3):
                            for a in ast.walk(f):
                                if isinstance(a, ast.Assign) and is_t(a.value):
                                    for t in a.targets:
                                        if isinstance(t, ast.Name):
                                            tainted.add(t.id)
                        for a in ast.walk(f):
                            if isinstance(a, ast.Return) and a.value is not None and is_t(a.value) and f.name not in taint_fns:
                                taint_fns.add(f.name)
                                grew = True
                            if _round == 3 or not grew:
                                tg = []
                                if isinstance(a, ast.Assign):
                                    tg = a.targets
                                elif isinstance(a, (ast.AugAssign, ast.AnnAssign)):
                                    tg = [a.target]
                                elif isinstance(a, ast.Delete):
                                    tg = a.targets
                                for t in tg:
                                    if isinstance(t, (ast.Subscript, ast.Attribute)) and is_t(t.value):
                                        sites.append(f"{p}:{a.lineno}: {ast.unparse(a)[:80]}")
                                if isinstance(a, ast.Call) and isinstance(a.func, ast.Attribute) and a.func.attr in MUT and is_t(a.func.value):
                                    sites.append(f"{p}:{a.lineno}: {ast.unparse(a)[:80]}")
                                if isinstance(a, ast.Call) and _callee(a) not in taint_fns and _callee(a) not in ("nested_combine", "isinstance", "len", "get"):
                                    for arg in list(a.args) + [k.value for k in a.keywords]:
                                        arg = arg.value if isinstance(arg, ast.Starred) else arg
                                        if is_t(arg):
                                            escapes.append(f"{os.path.relpath(p, pkgdir)}:{a.lineno}: {_callee(a)}({ast.unparse(arg)[:30]})")
            if not grew:
                break
        sites = sorted(set(sites))
        for e in sorted(set(escapes)):
            trusted.append("cached config object handed to a callee that is assumed not to write to it: " + e)
        if sites:
            return False, "a cached config object is written to: " + "; ".join(sites[:4])
        return True, {"cached": sorted(cached), "functions returning cached objects": sorted(taint_fns - set(cached))}
    obligation("cached-loaders/decorated-and-results-never-written-to", "sqlfluff.core.config.file:load_config_file_as_dict", cached_never_mutated)

    # ---- copies and per-file objects
    def copy_deep():
        file, fn = _fn_ast(FluffConfig.copy)
        stores = [(ast.unparse(a.value), a) for a in ast.walk(fn) if isinstance(a, ast.Assign)
                  and any(isinstance(t, ast.Attribute) and t.attr == "_configs" for t in a.targets)]
        if len(stores) != 1:
            raise _Stale("expected one assignment to <copy>._configs")
        src = stores[0][0]
        vals = [stores[0][1].value] if isinstance(stores[0][1].value, ast.Call) else _assigned(fn, src)
        if len(vals) != 1:
            raise _Stale(f"_configs = {src}")
        v = vals[0]
        good = isinstance(v, ast.Call) and _callee(v) == "deepcopy" and v.args and ast.unparse(v.args[0]) == "self._configs"
        return good, f"<copy>._configs = {ast.unparse(v)}"
    obligation("FluffConfig.copy/_configs-is-a-deepcopy", "sqlfluff.core.config.fluffconfig:FluffConfig.copy", copy_deep)

    def inline_target(method, maker):
        def thunk():
            file, fn = _fn_ast(getattr(Linter, method))
            calls = _calls(fn, "process_raw_file_for_config")
            if len(calls) != 1 or not isinstance(calls[0].func.value, ast.Name):
                raise _Stale("expected one <name>.process_raw_file_for_config(...) call")
            var = calls[0].func.value.id
            binds = [(a.lineno, ast.unparse(a.value)) for a in ast.walk(fn) if isinstance(a, ast.Assign)
                     and any(ast.unparse(t) == var for t in a.targets) and a.lineno < calls[0].lineno]
            if var in [a.arg for a in fn.args.args] and not binds:
                return False, f"inline config is written into the parameter `{var}` itself"
            if not binds:
                raise _Stale(f"{var} not bound before the call")
            last = sorted(binds)[-1][1]
            return last.endswith(maker), f"{var} = {last}; {var}.process_raw_file_for_config(...)"
        return thunk
    obligation("Linter.parse_string/inline-config-applied-to-a-copy", "sqlfluff.core.linter.linter:Linter.parse_string", inline_target("parse_string", ".copy()"))
    obligation("Linter.load_raw_file_and_config/inline-config-applied-to-the-child-config", "sqlfluff.core.linter.linter:Linter.load_raw_file_and_config",
               inline_target("load_raw_file_and_config", ".make_child_from_path(fname)"))

    def inline_writes():
        seen = []
        for m in ("process_inline_config", "process_raw_file_for_config", "set_value"):
            file, fn = _fn_ast(getattr(FluffConfig, m))
            local = {a.arg for a in fn.args.args} | {t.id for a in ast.walk(fn) for t in ast.walk(a) if isinstance(t, ast.Name) and isinstance(t.ctx, ast.Store)}
            for a in ast.walk(fn):
                tg = a.targets if isinstance(a, ast.Assign) else [a.target] if isinstance(a, (ast.AugAssign, ast.AnnAssign)) else []
                tg = [e for t in tg for e in (t.elts if isinstance(t, (ast.Tuple, ast.List)) else [t])]
                for t in tg:
                    base = t
                    while isinstance(base, (ast.Subscript, ast.Attribute)):
                        if isinstance(base, ast.Attribute) and ast.unparse(base) == "self._configs":
                            break
                        base = base.value
                    txt = ast.unparse(t)
                    if isinstance(t, ast.Name) or ast.unparse(base) == "self._configs" or (isinstance(base, ast.Name) and base.id in local - {"self"}):
                        if m != "set_value" and not isinstance(t, ast.Name):
                            return False, f"{m}: writes {txt} directly (not through set_value)"
                        continue
                    return False, f"{m}: writes {txt}, which is not this object's _configs"
            for c in ast.walk(fn):
                if isinstance(c, ast.Call) and isinstance(c.func, ast.Attribute) and c.func.attr in ("update", "setdefault", "__setitem__") \
                        and "self." in ast.unparse(c.func.value) and not ast.unparse(c.func.value).startswith("self._configs"):
                    return False, f"{m}: {ast.unparse(c)[:80]}"
            seen.append(m)
        file, fn = _fn_ast(FluffConfig.process_inline_config)
        if len(_calls(fn, "set_value")) != 1:
            raise _Stale("process_inline_config no longer calls set_value exactly once")
        return True, f"{seen}: only locals and self._configs are assigned; the directive is written by self.set_value(config_key, ...)"
    obligation("inline-config/written-only-through-set_value-into-self._configs", "sqlfluff.core.config.fluffconfig:FluffConfig.process_inline_config", inline_writes)

    # a syntactic failure is `reproduced` when the bounded run of the same tree also fails
    if failed:
        witnesses = []
        for b in (bounded_nested_combine, bounded_precedence, bounded_isolation):
            try:
                witnesses.extend(b(tier, seed)["failed"])
            except Exception:
                pass
        for f in failed:
            topic = f["id"].split("/")[2].split(".")[-1].split(",")[0]
            rel = {"nested_combine": ("nested_combine", "isolation"), "__init__": ("precedence",), "load_config_up_to_path": ("precedence",),
                   "from_path": ("precedence",), "from_root": ("precedence",), "make_child_from_path": ("precedence",),
                   "copy": ("isolation",), "parse_string": ("isolation",), "load_raw_file_and_config": ("isolation",),
                   "cached-loaders": ("isolation",), "inline-config": ("isolation",)}.get(topic, ())
            w = [x for x in witnesses if any(f"/{r}/" in x["id"] for r in rel)]
            if w:
                f["reproduced"] = True
                f["detail"]["reproduced by the bounded run"] = {"id": w[0]["id"], "input": {k: v for k, v in w[0]["detail"].items() if k != "further_failing_inputs"}}
    trusted.append(f"python ast of the modules the functions were imported from (under {pkgdir}); argument identity is by variable name")
    pri = ("combine-order", "deepcopied", "never-written")
    samples.sort(key=lambda s: 0 if any(p in s["obligation"] for p in pri) else 1)
    return {"name": "C27-dataflow", "obligations": n, "discharged": ok, "failed": failed, "undecided": undecided, "samples": samples[:3],
            "trusted": trusted, "backend": "syntactic data-flow", "wall_s": round(time.time() - t0, 2)}


# =================================================================================================
# runner interface
# =================================================================================================
EXTRA = [dataflow_obligations]
BOUNDED = [bounded_nested_combine, bounded_precedence, bounded_inline_effective, bounded_isolation]

RULE = ("bounded stand-ins (see bounded_stand_ins[*].rule for each): (a) nested_combine on 1..3 nested dicts enumerated from two finite families "
        "(exhaustive below the tier cap, otherwise seeded sampling); (b) generated config hierarchies: for each 8-bit mask every one of 6 settings "
        "is set by a mask-derived subset of the 8 sources (appdir, home, cwd, sub, sub/sub2, extra file, overrides, inline) in ini or toml; "
        "(b') 8 inline directives x 2 entry points; (c) ordered pairs and permutations of 9 files through one linter with warm caches, cache "
        "probes and set_value writes; a case is non-trivial when >=2 sources define a common path (a), by distinct winning-source vector (b), "
        "when the directive changes the result (b'), per distinct passed history / write (c)")

EXPLANATION = (
    "NOTHING is proved by SMT for C27. The config values are nested dictionaries of arbitrary depth (a recursive datatype); pyvc models dicts "
    "as flat maps and stops on nested_combine at `r: NestedStringDict[T] = {}` ('dict where Dict[...] expected') and cannot iterate `for k in d` "
    "over a dict, and iter_intermediate_paths / load_config_up_to_path are pathlib and os calls. So the decision consists of two separately "
    "counted parts, neither of which is a proof. "
    "SYNTACTIC (coverage.obligations / discharged, backend 'syntactic data-flow'): 14 data-flow obligations checked on the python ast of the "
    "modules the real functions were imported from, re-read on every run: FluffConfig.__init__ combines (defaults, configs, {core: overrides}) in "
    "this order, with defaults from the plugin hook and overrides wrapped under 'core'; load_config_up_to_path returns nested_combine(appdir, home, "
    "*parents, *cwd->path, extra) in this order, each name bound to its source, the directory stacks built in iteration order of "
    "iter_intermediate_paths (no reversed/sorted/insert); from_path / from_root pass the loader result as `configs` and hand overrides and the extra "
    "path on; make_child_from_path inherits extra path and overrides; nested_combine returns a fresh dict and stores only deepcopy(...) or "
    "nested_combine(...) results; the three cached loaders are decorated and no function in the package writes to (subscript/attribute store, del, "
    "mutating method) a value that flows from them, functions returning them being followed transitively (callees receiving one are listed in "
    "trusted_base); FluffConfig.copy deep-copies _configs; "
    "Linter.parse_string applies inline config to a .copy(), Linter.load_raw_file_and_config to the make_child_from_path result; the inline "
    "methods assign only locals and self._configs and write through set_value. A reversed order is FAILED, a source shape the obligation does not "
    "recognise is UNDECIDED (exit 2), never a violation. A syntactic failure has no failing input unless a bounded run of the same tree fails too. "
    "BOUNDED (coverage.bounded_stand_ins, evaluations / distinct_nontrivial): the real functions run under executable contracts written from the "
    "property statement: (a) nested_combine: last source defining a key path wins, sections merge, nothing invented, arguments unchanged, no "
    "dict/list of the result shared with an argument (the ownership fact that keeps the @cache'd loader dictionaries safe from set_value), "
    "ValueError only when a section meets a later plain value; (b) FluffConfig.from_path / from_root / Linter.load_raw_file_and_config / "
    "process_raw_file_for_config on generated trees resolve every setting to the highest-precedence source that sets it, a sibling file gets no "
    "inline value, a file elsewhere gets no nested value, the root config is unchanged; iter_intermediate_paths yields outer->inner; (b') an "
    "inline directive has the same effect on the linted result as the same setting at top precedence, for files (lint_paths) and for text "
    "(lint_string = stdin / python API); (c) every file's violations in any history equal its violations alone, caches stay value-equal to a fresh "
    "read, set_value on per-file / copied configs reaches nothing else. "
    "KNOWN FINDING (reproduced): Linter.lint_string builds the rule pack from the config BEFORE inline directives are applied "
    "(linter.py: parse_string applies them to a copy, then get_rulepack(config=config) uses the original), so `-- sqlfluff:rules:...`, "
    "`-- sqlfluff:exclude_rules:...` and `-- sqlfluff:rules:<rule>:<option>:...` are ignored for text given on stdin or through sqlfluff.lint(), "
    "while the same file given by path honours them.")

TRUSTED = [
    "CPython ast.parse / ast.unparse / inspect.getsource of the imported modules",
    "argument identity in the syntactic obligations is by variable name (a name re-bound to another source between its definition and the combine "
    "call is only detected for the names the obligations list)",
    "os.environ['HOME'] is what os.path.expanduser('~') and platformdirs resolve on this platform (linux); the macOS / Windows branches of "
    "_get_user_config_dir_path are not run",
    "copy.deepcopy returns an owned, value-equal copy",
]
NOT_COVERED = [
    "no SMT obligation: nested dictionaries are outside pyvc's value model (see explanation); nothing is counted as proved",
    "reference leaks: code that obtains a dict through FluffConfig.get_section / get and writes to it (rules, templaters, plugins) -- whole-program "
    "aliasing is not decided; only the public mutators set_value / process_inline_config are exercised",
    "FluffConfig._overrides is shared by reference between a root config and all its children and copies; no in-tree code writes to it (the "
    "syntactic inline-write obligation covers the inline methods only)",
    "parallel runners (processes > 1): configs are pickled into worker processes; only the in-process runner is exercised",
    "precedence among several config files in ONE directory (setup.cfg < tox.ini < pep8.ini < .sqlfluff < pyproject.toml) and configs in "
    "directories between ~ and the working directory are not part of the property statement and are not asserted",
    "ignore_local_config=True, templater switching by nested config (refused by design), plugin default configs other than core's",
    "settings outside the 6 probed ones resolve through the same nested_combine calls; that they do is the syntactic argument, not a run",
]
ASSUMPTIONS = [
    "C27-1 config files do not change while a process runs (the loader caches by path); the harness clears the loader caches only between generated hierarchies",
    "C27-2 a shape conflict between sources (a section in one, a plain value at the same path in a later one) may be refused with ValueError",
]

# ------------------------------------------------------------------------------------------------ must-fail mutants
_INIT_OLD = """        self._configs = nested_combine(
            defaults, configs or empty_config, overrides or empty_overrides
        )"""
_UPTO_OLD = """    return nested_combine(
        user_appdir_config,
        user_config,
        *parent_config_stack,
        *config_stack,
        extra_config,
    )"""
MUTANTS = [
    ("parse_string_copies_only_for_spaced_directive", "sqlfluff/core/linter/linter.py", "        config = (config or self.config).copy()",
     "        config = config or self.config\n        if \"-- sqlfluff:\" in in_str:\n            config = config.copy()"),
    ("nested_combine_no_deepcopy", "sqlfluff/core/helpers/dict.py", "                r[k] = deepcopy(d[k])", "                r[k] = d[k]"),
    ("nested_combine_first_wins", "sqlfluff/core/helpers/dict.py", "            else:\n                # In normal operation, these nested dicts should only contain",
     "            elif k not in r:\n                # In normal operation, these nested dicts should only contain"),
    ("init_files_beat_overrides", "sqlfluff/core/config/fluffconfig.py", _INIT_OLD,
     "        self._configs = nested_combine(\n            defaults, overrides or empty_overrides, configs or empty_config\n        )"),
    ("init_defaults_last", "sqlfluff/core/config/fluffconfig.py", _INIT_OLD,
     "        self._configs = nested_combine(\n            configs or empty_config, overrides or empty_overrides, defaults\n        )"),
    ("intermediate_paths_reversed", "sqlfluff/core/config/loader.py",
     "        config_stack = [load_config_at_path(str(p.resolve())) for p in config_paths]",
     "        config_stack = [load_config_at_path(str(p.resolve())) for p in reversed(list(config_paths))]"),
    ("extra_config_lowest", "sqlfluff/core/config/loader.py", _UPTO_OLD,
     "    return nested_combine(\n        extra_config,\n        user_appdir_config,\n        user_config,\n        *parent_config_stack,\n        *config_stack,\n    )"),
    ("home_beats_project", "sqlfluff/core/config/loader.py", _UPTO_OLD,
     "    return nested_combine(\n        user_appdir_config,\n        *parent_config_stack,\n        *config_stack,\n        user_config,\n        extra_config,\n    )"),
    ("copy_shallow", "sqlfluff/core/config/fluffconfig.py", "        configs_attribute_copy = deepcopy(self._configs, memo)",
     "        configs_attribute_copy = dict(self._configs)"),
    ("parse_string_no_copy", "sqlfluff/core/linter/linter.py", "        config = (config or self.config).copy()", "        config = config or self.config"),
    ("inline_persisted_in_shared_overrides", "sqlfluff/core/config/fluffconfig.py",
     "        # Set the value\n        self.set_value(config_key, config_value)\n",
     "        # Set the value\n        self.set_value(config_key, config_value)\n        if self._overrides is not None and config_key[0] == \"core\":\n"
     "            self._overrides[config_key[1]] = config_value\n"),
    ("child_drops_overrides", "sqlfluff/core/config/fluffconfig.py", "            overrides=self._overrides,\n            plugin_manager=self._plugin_manager,",
     "            overrides=None,\n            plugin_manager=self._plugin_manager,"),
    ("loader_annotates_cached_dict", "sqlfluff/core/config/loader.py",
     "    raw_config = load_config_file_as_dict(file_path)\n",
     "    raw_config = load_config_file_as_dict(file_path)\n    raw_config.setdefault(\"core\", {})[\"config_source\"] = file_path\n"),
    ("iter_intermediate_paths_inner_first", "sqlfluff/core/helpers/file.py", "    if not common_path:\n        yield outer_path.resolve()",
     "    yield inner_path.resolve()\n    if not common_path:\n        yield outer_path.resolve()"),
]


def known_entries():
    """Entries for known_findings.json from the failures actually reproduced on this tree by bounded_inline_effective."""
    res = bounded_inline_effective("quick", 0)
    out = []
    for f in res["failed"]:
        d = f["detail"]
        if "directive" not in d:
            continue
        out.append({"property": PROP, "id": f["id"],
                    "what": f"{d['entry']} ignores the inline directive `{d['directive']}` (rule pack is built from the config before inline "
                            "directives are applied): text on stdin / sqlfluff.lint() is linted as if the directive were absent, the same file "
                            "given by path honours it",
                    "witness_contains": [d["entry"], d["directive"]], "status": "open"})
    return out, res
