"""C22 -- exit codes reflect only unsuppressed failures.   Functions under contract (pyvc, symbolic):
   sqlfluff.core.linter.linted_dir:     LintedDir.stats, LintedDir.add#counters (REGION: the counter updates)
   sqlfluff.core.linter.linted_dir:     LintedDir.discard_fixes_for_lint_errors_in_files_with_tmp_or_prs_errors (contracts/c18.py, C18+C22)
   sqlfluff.core.linter.linting_result: LintingResult.stats          (lint's exit code = fail iff some counted violation)
   sqlfluff.core.linter.linting_result: LintingResult.count_tmp_prs_errors (contracts/c18.py), LintingResult.discard_fixes_...#counters
   sqlfluff.cli.commands:               PathAndUserErrorHandler.__exit__ (usage / config errors exit 2)
   sqlfluff.cli.commands:               _handle_unparsable, _stdin_fix   (fix/format exit codes and stdin output)
   sqlfluff.cli.commands:               lint#lint-run, lint#exit-code-c22                       (REGIONS of the click command `lint`)
   sqlfluff.cli.commands:               _paths_fix#lint-run-and-gate, #gate-and-count, #unfixable, #report-and-exit   (REGIONS: together
                                        every statement of _paths_fix after its first status message)
UI objects (formatter, click, reporting dicts) are sinks: no effect on the tracked state.
Bounded (labelled, contracts/c22_bounded.py): the CLI exit-code matrix on real files (violation kind x noqa / ignore / warnings x
lint / fix / format x path / directory / two paths / stdin x --nofail / --FIX-EVEN-UNPARSABLE / --check) against the property's
formula computed independently, and the usage / configuration error matrix (exit 2).
"""
from pyvc.dsl import contract, external, spec, lemma, implies, iff, inline, ref_class, rec_class, was
from pyvc.ty import INT, BOOL, Text, TList, TTuple, TOpt, TRec, SINK, TOpaque
from pyvc import stmts as _stmts

from .c18 import (FluffConfig, SQLBaseError, LintedFile, LintedDir, LintingResult, Linter, counters_ok, has_tmp_prs,
                  has_live_tmp_prs, count_tmp_prs_errors, lint_string_wrapped, fix_string)  # noqa: F401
from . import c18 as _c18

PROP = "C22"
# Not `proof`: one generated obligation (_stdin_fix's exit-code clause) fails on the unchanged tree and is a recorded
# known finding, so discharged != obligations.  Everything else listed in the evidence is discharged by z3.
LEVEL = "other"
EXPLANATION = ("Contract-based deductive verification (pyvc: VCs from the real source, z3) of the exit-code building blocks: "
               "LintedDir.stats, LintedDir.add (counter updates), LintingResult.stats, PathAndUserErrorHandler.__exit__ (both variants), "
               "_handle_unparsable, LintedDir.discard_fixes_... and LintingResult's loop over it, _stdin_fix, and -- as region contracts "
               "(statement ranges extracted mechanically from the long click command bodies on every run) -- the exit tail and the lint "
               "run of `lint` and every statement of _paths_fix after its first message (four adjacent / overlapping ranges).  All "
               "symbolic obligations are discharged except the exit-code clause of _stdin_fix, which is a genuine, recorded defect "
               "(known_findings.json): that is why this is not labelled `proof`.  The end-to-end behaviour of the real commands is "
               "additionally checked by two labelled BOUNDED matrices (not counted as proved).  Counts: coverage.obligations / "
               "coverage.discharged / coverage.failed_obligations.")

LintedDir2 = ref_class("sqlfluff.core.linter.linted_dir:LintedDir", _num_files=INT, _num_clean=INT, _num_unclean=INT,
                       _num_violations=INT)
Counts = TRec("Counts", {"files": INT, "clean": INT, "unclean": INT, "violations": INT}, is_dict=True)
Handler = ref_class("sqlfluff.cli.commands:PathAndUserErrorHandler", formatter=SINK)
_stmts.SINK_FUNCTIONS.update({"click.utils:echo", "click.termui:getchar"})


# ------------------------------------------------------------------ statistics -> lint's exit code
@contract("sqlfluff.core.linter.linted_dir:LintedDir.stats", PROP)
class dir_stats:
    types = {"self": LintedDir}
    ret = Counts

    def ensures(self, result):
        return (result["files"] == self._num_files and result["clean"] == self._num_clean
                and result["unclean"] == self._num_unclean and result["violations"] == self._num_violations)


@external("sqlfluff.core.linter.linting_result:sum_dicts", PROP)
class sum_dicts:
    """key-wise sum of two count dictionaries (bounded check below)"""
    types = {"d1": Counts, "d2": Counts}
    ret = Counts

    def ensures(d1, d2, result):
        return (result["files"] == d1["files"] + d2["files"] and result["clean"] == d1["clean"] + d2["clean"]
                and result["unclean"] == d1["unclean"] + d2["unclean"] and result["violations"] == d1["violations"] + d2["violations"])


@spec
def any_counted_violation(r):
    """some file has a violation that is neither suppressed nor a warning: LintedDir._num_violations sums
    LintedFile.num_violations() (default filters: ignore + noqa mask + warnings removed), see LintedDir.add"""
    return any(r.paths[i]._num_violations > 0 for i in range(len(r.paths)))


Stats = TRec("StatsDict", {"files": INT, "clean": INT, "unclean": INT, "violations": INT, "avg per file": SINK, "unclean rate": SINK,
                           "clean files": INT, "unclean files": INT, "exit code": INT, "status": SINK}, is_dict=True)


@contract("sqlfluff.core.linter.linting_result:LintingResult.stats", PROP)
class result_stats:
    types = {"self": LintingResult, "fail_code": INT, "success_code": INT, "counts": Counts}
    ret = Stats       # (needed by the caller under contract: lint's exit tail)
    ghost_out = {"all_stats": SINK}

    def requires(self, fail_code, success_code):
        return all(self.paths[i]._num_violations >= 0 for i in range(len(self.paths)))

    def ensures(self, fail_code, success_code, result):
        # lint exits 1 exactly when some file has a counted violation, and 0 otherwise
        return result["exit code"] == (fail_code if any_counted_violation(self) else success_code)

    def inv_1(self, counts, _i):
        return (counts["violations"] >= 0
                and (counts["violations"] > 0) == any(self.paths[k]._num_violations > 0 for k in range(0, _i)))


# ------------------------------------------------------------------ usage / configuration errors exit 2
@external("sys:exit", PROP)
class sys_exit:
    types = {"code": INT}
    params = ["code"]
    raises = {"SystemExit": None}

    def ensures(code):
        return False          # never returns


from sqlfluff.core.errors import SQLFluffUserError as _UserError  # noqa: E402


@contract("sqlfluff.cli.commands:PathAndUserErrorHandler.__exit__#user_error", PROP)
class handler_exit_user:
    """a usage / configuration error (SQLFluffUserError) inside the handler: exit code 2"""
    types = {"self": Handler, "exc_type": _UserError, "exc_val": SINK, "exc_tb": SINK}
    raises = {"SystemExit": lambda self, exc_val, exc_tb: True}

    def hint_on_raise(exc_class, exc_value):
        return exc_class == "SystemExit" and exc_value == 2


@contract("sqlfluff.cli.commands:PathAndUserErrorHandler.__exit__#other", PROP)
class handler_exit_other:
    """any other exception (or none) passes through: no exit here"""
    types = {"self": Handler, "exc_type": ValueError, "exc_val": SINK, "exc_tb": SINK}

    def ensures(self, exc_val, exc_tb, result):
        return True


# ------------------------------------------------------------------ fix / format: the unparsable gate and stdin
@external("sqlfluff.core.linter.linting_result:LintingResult.discard_fixes_for_lint_errors_in_files_with_tmp_or_prs_errors", PROP)
class discard_fixes:
    """(verified separately below for LintedDir) after the call no lint violation of a file with a template/parse error
    keeps a fix -- so nothing in such a file is fixable any more"""
    types = {"self": LintingResult}
    modifies = ["heap:LintingResult.g_fixable_lint", "heap:LintingResult.g_unfixable_lint", "heap:LintedDir.num_unfixable_lint_errors"]

    def ensures(self, old):
        return (implies(single_file(self) and has_tmp_prs(self), self.g_fixable_lint == 0)
                and implies(not has_tmp_prs(self), self.g_fixable_lint == old.self.g_fixable_lint
                            and self.g_unfixable_lint == old.self.g_unfixable_lint)
                and self.g_fixable_lint >= 0 and self.g_unfixable_lint >= old.self.g_unfixable_lint
                # the per-directory counters of unfixable lint violations only grow (proved for the loop over the verified
                # LintedDir method: `...#counters` below)
                and unfixable_only_grows(self, old))


LintingResultG = ref_class("sqlfluff.core.linter.linting_result:LintingResult",
                           g_fixable_lint=INT, g_unfixable_lint=INT, g_templater=INT)


@spec
def unfixable_only_grows(r, old):
    return all(r.paths[i].num_unfixable_lint_errors >= was(old, r.paths[i]).num_unfixable_lint_errors for i in range(len(r.paths)))


@spec
def unfixable_unchanged(r, old):
    return all(r.paths[i].num_unfixable_lint_errors == was(old, r.paths[i]).num_unfixable_lint_errors for i in range(len(r.paths)))


@spec
def single_file(r):
    return len(r.paths) == 1 and len(r.paths[0].files) == 1


@external("sqlfluff.core.linter.linting_result:LintingResult.num_violations", PROP)
class result_num_violations:
    """ghost view of the counts the CLI asks for (their meaning in terms of violations: LintedFile.get_violations,
    bounded matrix below): live lint violations with / without fixes, live templater errors"""
    types = {"self": LintingResult}
    ret = INT

    def ensures(self, types=None, fixable=None, result=0):
        return (result >= 0
                and implies(is_lint(types) and fixable is True, result == self.g_fixable_lint)
                and implies(is_lint(types) and fixable is False, result == self.g_unfixable_lint)
                and implies(is_templater(types) and fixable is None, result == self.g_templater))


@spec
def is_lint(types):
    return types is _SQLLintError


@spec
def is_templater(types):
    return types is _SQLTemplaterError


from sqlfluff.core.errors import SQLLintError as _SQLLintError, SQLTemplaterError as _SQLTemplaterError  # noqa: E402


@external("sqlfluff.core.linter.linted_file:LintedFile.get_violations", PROP)
class file_get_violations:
    types = {"self": LintedFile}
    ret = SINK

    def ensures(self, rules=None, types=None, filter_ignore=True, filter_warning=True, warn_unused_ignores=False,
                fixable=None, result=None):
        return True


@contract("sqlfluff.cli.commands:_handle_unparsable", PROP)
class handle_unparsable:
    types = {"fix_even_unparsable": BOOL, "initial_exit_code": INT, "linting_result": LintingResult, "formatter": SINK,
             "tmp_prs_errors_by_file": SINK, "file_errors": SINK, "record_errors": SINK, "error": SINK,
             "code": SINK, "description": SINK, "line_no": SINK, "line_pos": SINK}
    ret = INT
    modifies = ["heap:LintingResult.g_fixable_lint", "heap:LintingResult.g_unfixable_lint", "heap:LintedDir.num_unfixable_lint_errors"]

    def requires(fix_even_unparsable, initial_exit_code, linting_result, formatter):
        return counters_ok(linting_result) and linting_result.g_fixable_lint >= 0 and linting_result.g_unfixable_lint >= 0

    def ensures(fix_even_unparsable, initial_exit_code, linting_result, formatter, result, old):
        return (
            # --fix-even-unparsable: nothing is filtered, the exit code is passed through
            (result == initial_exit_code and linting_result.g_fixable_lint == old.linting_result.g_fixable_lint
             and linting_result.g_unfixable_lint == old.linting_result.g_unfixable_lint
             and unfixable_unchanged(linting_result, old))
            if fix_even_unparsable else
            # otherwise: 1 exactly when an UNSUPPRESSED template/parse error blocks fixing ...
            (result == (1 if has_live_tmp_prs(linting_result) else 0)
             # ... and a (single) file with ANY template/parse error, even a suppressed one, keeps no applicable fix
             and implies(single_file(linting_result) and has_tmp_prs(linting_result), linting_result.g_fixable_lint == 0)
             # discarding fixes only ever turns fixable violations into unfixable ones
             and linting_result.g_unfixable_lint >= old.linting_result.g_unfixable_lint
             and unfixable_only_grows(linting_result, old)
             and implies(not has_tmp_prs(linting_result),
                         linting_result.g_fixable_lint == old.linting_result.g_fixable_lint
                         and linting_result.g_unfixable_lint == old.linting_result.g_unfixable_lint)))

    def inv_1(linting_result):
        return True

    def inv_2(linting_result):
        return True

    def inv_3(linting_result):
        return True

    def inv_4(linting_result):
        return True


@external("io:read", PROP)
class stdin_read:
    types = {}
    params = []
    ret = Text

    def ensures(result):
        return True


@contract("sqlfluff.cli.commands:_stdin_fix", PROP)
class stdin_fix:
    types = {"linter": Linter, "formatter": SINK, "fix_even_unparsable": BOOL, "stdin_filename": TOpt(Text),
             "stdout": Text, "stdin": Text, "exit_code": INT, "templater_error": BOOL, "unfixable_error": BOOL,
             "result": LintingResult}
    raises = {"SystemExit": None}

    def hint_on_raise(linter, formatter, fix_even_unparsable, stdin_filename, exc_class, exc_value, stdout, stdin, result,
                      unfixable_error, templater_error):
        return (
            exc_class == "SystemExit"
            # C18: unless fixing unparsable input is enabled, input with a template/parse error -- even a suppressed
            # one -- is echoed back unchanged
            and implies(not fix_even_unparsable and has_tmp_prs(result), stdout == stdin)
            # C22: exit 1 exactly when a live lint violation stays unfixable, or a live templating error / (without
            # --fix-even-unparsable) a live template-or-parse error blocks fixing; 0 otherwise
            and exc_value == (1 if (result.g_unfixable_lint > 0 or result.g_templater > 0
                                    or (not fix_even_unparsable and has_live_tmp_prs(result))) else 0))


TRUSTED = ["ghost counters g_fixable_lint / g_unfixable_lint / g_templater stand for LintingResult.num_violations(...) of live "
           "lint violations with / without fixes and live templater errors; LintedFile.g_counted / g_unfixable_lint / g_live_tmp_prs / "
           "g_unfiltered_tmp_prs for the four LintedFile.num_violations queries of LintedDir.add; their link to the violation lists is "
           "LintedFile.get_violations (C20) and is exercised by the bounded CLI matrix",
           "LintingResult.discard_fixes_... at its call site: assumed contract over the ghost counters (its clause about the "
           "per-directory counter num_unfixable_lint_errors is proved: `...#counters`)",
           "region contracts: the statements before a verified range establish the declared types / preconditions of its free "
           "variables (lint#exit-code-c22 and _paths_fix#report-and-exit: no file skipped for its size -- that rule is C34's; counters "
           "non-negative: sums of list lengths, LintedDir.add#counters)",
           "the with-statement hook for PathAndUserErrorHandler models its __exit__ by the two verified contracts of that method "
           "(SQLFluffUserError -> SystemExit(2), anything else passes through)",
           "Linter.lint_paths / lint_string_wrapped: havoc (any result with non-negative counters, or SQLFluffUserError)"]
NOT_COVERED = ["the statements of the click commands lint / fix / cli_format BEFORE their lint run (option handling, get_config's own "
               "sys.exit(2) paths, output set-up) and lint's output formatting between the lint run and the exit tail: bounded matrices only",
               "do_fixes / persist_changes (writes: C18) -- assumed to leave the counters alone",
               "LintedDir.add above its counter updates (record building), LintedFile.get_violations / num_violations (C20)"]


# ------------------------------------------------------------------ the exit tails of the click commands (region contracts)
# `lint` and `_paths_fix` are long click command bodies; only their last statements decide the exit code.  pyvc extracts the
# statement range mechanically from the real function on every run and verifies it as a function of the locals it reads; the
# declared types of those locals are ASSUMPTIONS about what the statements before the range establish (TRUSTED).
ref_class("sqlfluff.core.linter.linting_result:LintingResult", files_skipped=INT)


@contract("sqlfluff.cli.commands:lint#exit-code-c22", PROP)
class lint_exit_code:
    region = ("if not nofail:", None)
    region_params = ["nofail", "non_human_output", "formatter", "result", "config"]
    types = {"nofail": BOOL, "non_human_output": BOOL, "formatter": SINK, "result": LintingResult, "config": FluffConfig,
             "exit_code": INT}
    raises = {"SystemExit": None}

    def requires(nofail, non_human_output, formatter, result, config):
        # no skipped files (the large_file_skip_fail rule is C34's: contracts/c34.py `lint#exit-code`)
        return result.files_skipped == 0 and all(result.paths[i]._num_violations >= 0 for i in range(len(result.paths)))

    def hint_on_raise(nofail, non_human_output, result, config, exc_class, exc_value):
        # lint exits 1 exactly when some file has a counted (unsuppressed, non-warning) violation and 0 otherwise;
        # with --nofail it exits 0 whatever was found
        return exc_class == "SystemExit" and exc_value == (0 if nofail else (1 if any_counted_violation(result) else 0))

    def ensures(nofail, non_human_output, formatter, result, config):
        return False          # the tail always exits


# ------------------------------------------------------------------ _paths_fix: the exit code of `fix <paths>` / `format <paths>`
from .c18 import Record, VDict  # noqa: E402

ref_class("sqlfluff.core.linter.linter:Linter", config=FluffConfig)
ref_class("sqlfluff.core.linter.linting_result:LintingResult", total_time=SINK)
_stmts.SINK_FUNCTIONS.update({"click.utils:echo", "click.termui:getchar"})


@external("sqlfluff.core.linter.linting_result:LintingResult.as_records", PROP)
class result_as_records:
    """the serialised violation records (sorted copy of the per-directory record lists): reporting only"""
    types = {"self": LintingResult}
    ret = TList(Record)

    def ensures(self, result):
        return True


@external("sqlfluff.core.linter.linting_result:LintingResult.timing_summary", PROP)
class result_timing_summary:
    types = {"self": LintingResult}
    ret = SINK

    def ensures(self, result):
        return True


@external("sqlfluff.core.linter.linting_result:LintingResult.persist_timing_records", PROP)
class persist_timing_records:
    """writes a CSV of timings: no effect on the result object"""
    types = {"self": LintingResult, "filename": Text}

    def ensures(self, filename):
        return True


@external("sqlfluff.cli.commands:do_fixes", PROP)
class do_fixes_ext:
    """writes the fixed files (C18's subject: LintedFile.persist_tree); no effect on the counters the exit code reads"""
    types = {"result": LintingResult, "formatter": SINK, "fixed_file_suffix": TOpt(Text)}
    params = ["result", "formatter", "fixed_file_suffix"]      # (a real parameter is called `result`)
    ret = BOOL

    def ensures(formatter=None, fixed_file_suffix=""):
        return True


@spec
def unfixable_remains(r):
    """some unsuppressed non-warning lint violation is left without an applicable fix (LintedDir.num_unfixable_lint_errors:
    LintedDir.add counts the violations without fixes, discard_fixes_... adds those whose fixes it discards)"""
    return any(r.paths[i].num_unfixable_lint_errors > 0 for i in range(len(r.paths)))


@spec
def unfixable_counters_ok(r):
    return all(r.paths[i].num_unfixable_lint_errors >= 0 for i in range(len(r.paths)))


@contract("sqlfluff.cli.commands:_paths_fix#unfixable", PROP)
class paths_fix_unfixable:
    region = ("num_unfixable = sum(p.num_unfixable_lint_errors for p in result.paths)", "if bench:")
    region_params = ["result", "formatter", "exit_code"]
    types = {"result": LintingResult, "formatter": SINK, "exit_code": INT, "num_unfixable": INT}
    # (`result` names the return value in `ensures`: the run's LintingResult is handed over as the ghost output `run`)
    ghost_out = {"exit_code_out": ("exit_code", INT), "run": ("result", LintingResult)}

    def requires(result, formatter, exit_code):
        return unfixable_counters_ok(result) and 0 <= exit_code <= 1

    def ensures(formatter, exit_code, exit_code_out, run):
        return exit_code_out == max(exit_code, 1 if unfixable_remains(run) else 0)


# ------------------------------------------------------------------ LintingResult.discard_fixes_...: the loop over the directories
# The call sites (_handle_unparsable) see the ASSUMED contract `discard_fixes` above (ghost counters of the CLI's queries); its
# clause about the per-directory counter num_unfixable_lint_errors is PROVED here for the real two-line loop, from the verified
# contract of the LintedDir method (contracts/c18.py: dir_discard, registered for C18 and C22).
from .c18 import dir_ok  # noqa: E402


@spec
def dirs_ok(r):
    return all(dir_ok(r.paths[i]) for i in range(len(r.paths)))


@contract("sqlfluff.core.linter.linting_result:LintingResult.discard_fixes_for_lint_errors_in_files_with_tmp_or_prs_errors#counters", PROP)
class result_discard_counters:
    types = {"self": LintingResult}
    modifies = ["heap:LintedDir.num_unfixable_lint_errors", "heap:ViolationRecord.fixes", "heap:SQLBaseError.fixes"]

    def requires(self):
        return dirs_ok(self)

    def ensures(self, old):
        return unfixable_only_grows(self, old)

    def inv_1(self, old, _i):
        return dirs_ok(self) and unfixable_only_grows(self, old)


@spec
def fix_must_fail(fix_even_unparsable, r):
    """the property's condition for `fix` / `format` on the state of the run AFTER the unparsable gate: an unsuppressed
    templating / parsing error blocks fixing (never with fix_even_unparsable), or an unsuppressed non-warning lint violation
    remains unfixable"""
    return (not fix_even_unparsable and has_live_tmp_prs(r)) or unfixable_remains(r)


# The tail of _paths_fix (everything after the lint run) is verified as TWO ADJACENT ranges -- `#gate-and-count` up to `if bench:`
# and `#report-and-exit` from there to the end: the postcondition of the first (exit_code in {0, 1} and the formula) is the
# precondition of the second (which exits with that very exit_code).  One range over the whole tail is discharged as well (406
# obligations) but takes ~80 s of symbolic execution (2^4 reporting branches x the gate / prompt branches).
@contract("sqlfluff.cli.commands:_paths_fix#gate-and-count", PROP)
class paths_fix_gate_and_count:
    """the unparsable gate, the (optional) --check prompt and write, the unfixable count"""
    region = ("exit_code = _handle_unparsable(fix_even_unparsable, exit_code, result, formatter)", "if bench:")
    region_params = ["formatter", "fix_even_unparsable", "fixed_suffix", "check", "exit_code", "result"]
    types = {"formatter": SINK, "fix_even_unparsable": BOOL, "fixed_suffix": TOpt(Text), "check": BOOL, "exit_code": INT,
             "result": LintingResult, "violation_records": TList(Record), "num_fixable": INT, "num_unfixable": INT, "success": BOOL}
    raises = {"SystemExit": None}
    # `run`: the LintingResult in the state at the END of the range, i.e. after the gate discarded the fixes of unparsable files
    ghost_out = {"exit_code_out": ("exit_code", INT), "run": ("result", LintingResult)}
    modifies = ["heap:LintingResult.g_fixable_lint", "heap:LintingResult.g_unfixable_lint", "heap:LintedDir.num_unfixable_lint_errors"]

    def requires(formatter, fix_even_unparsable, fixed_suffix, check, exit_code, result):
        return (exit_code == 0 and counters_ok(result) and unfixable_counters_ok(result)
                and result.g_fixable_lint >= 0 and result.g_unfixable_lint >= 0)

    def ensures(formatter, fix_even_unparsable, fixed_suffix, check, exit_code_out, run, old):
        return ((exit_code_out == 0 or exit_code_out == 1)
                # exit 1 when an unsuppressed template/parse error blocks fixing or a counted lint violation remains unfixable
                and implies(fix_must_fail(fix_even_unparsable, run), exit_code_out == 1)
                # ... and, without --check (always for `format`), ONLY then; with --check also when the prompt is declined
                and implies(not check and exit_code_out == 1, fix_must_fail(fix_even_unparsable, run))
                # the gate only ever turns fixable violations into unfixable ones (nothing at all with fix_even_unparsable)
                and unfixable_only_grows(run, old) and implies(fix_even_unparsable, unfixable_unchanged(run, old)))

    def hint_on_raise(check, exc_class, exc_value):
        # the only exit inside this range: --check, the user accepted, and writing the fixed files failed
        return exc_class == "SystemExit" and exc_value == 1 and check


@contract("sqlfluff.cli.commands:_paths_fix#report-and-exit", PROP)
class paths_fix_report_and_exit:
    """--bench / --show-lint-violations / --persist-timing output, then the exit: the exit code computed above is what the
    process exits with (files skipped for their size: C34, contracts/c34.py `_paths_fix#exit-code`)"""
    region = ("if bench:", None)
    region_params = ["linter", "formatter", "bench", "show_lint_violations", "persist_timing", "exit_code", "result"]
    types = {"linter": Linter, "formatter": SINK, "bench": BOOL, "show_lint_violations": BOOL, "persist_timing": TOpt(Text),
             "exit_code": INT, "result": LintingResult}
    raises = {"SystemExit": None}

    def requires(linter, formatter, bench, show_lint_violations, persist_timing, exit_code, result):
        return 0 <= exit_code <= 1 and result.files_skipped == 0

    def hint_on_raise(exit_code, old, exc_class, exc_value):
        return exc_class == "SystemExit" and exc_value == old.exit_code

    def ensures(linter, formatter, bench, show_lint_violations, persist_timing, exit_code):
        return False          # the tail always exits

    def inv_1(result):        # --bench: printing the timing summary
        return True

    def inv_2(result):        # --show-lint-violations: printing the records
        return True

    def inv_3(result):
        return True


# ------------------------------------------------------------------ the lint run inside `with PathAndUserErrorHandler(...)`
# __exit__ of the handler is verified above (two variants: SQLFluffUserError -> sys.exit(2); anything else passes through).  The
# with-statement hook below is the MODEL of that method used where a verified range contains the with-statement (TRUSTED): a
# SQLFluffUserError escaping the body becomes SystemExit(2), every other outcome is left alone.
from pyvc.exec import ExcInfo as _ExcInfo, Outcome as _Outcome  # noqa: E402
from pyvc.engine import K as _K  # noqa: E402


def _handler_exit_hook(ex, st, cm, oc):
    if oc.kind == "raise" and oc.value.cls is _UserError and not oc.value.or_subclass:
        return [(st, _Outcome("raise", _ExcInfo(SystemExit, value=[_K(2)], line=oc.value.line)))]
    return [(st, oc)]


_stmts.WITH_HOOKS["PathAndUserErrorHandler"] = _handler_exit_hook


@external("sqlfluff.cli.commands:PathAndUserErrorHandler", PROP)
class handler_init:
    types = {"self": Handler, "formatter": SINK}
    params = ["self", "formatter"]

    def ensures(self, formatter):
        return True


@external("sqlfluff.core.linter.linter:Linter.lint_paths", PROP)
class lint_paths_ext:
    """havoc: any result whose per-directory counters are sums of per-file counts (LintedDir.add, `#counters` below), or a
    usage error (nonexistent path, invalid rule configuration ...: SQLFluffUserError)"""
    types = {"self": Linter, "paths": SINK, "fix": BOOL, "ignore_non_existent_files": BOOL, "ignore_files": BOOL,
             "processes": SINK, "apply_fixes": BOOL, "fixed_file_suffix": TOpt(Text), "fix_even_unparsable": TOpt(BOOL),
             "retain_files": BOOL}
    ret = LintingResult
    raises = {"SQLFluffUserError": None}

    def ensures(self, paths, fix=False, ignore_non_existent_files=False, ignore_files=True, processes=None, apply_fixes=False,
                fixed_file_suffix="", fix_even_unparsable=False, retain_files=True, result=None):
        return (counters_ok(result) and unfixable_counters_ok(result) and result.g_fixable_lint >= 0
                and result.g_unfixable_lint >= 0 and result.g_templater >= 0
                and all(result.paths[i]._num_violations >= 0 for i in range(len(result.paths))))


@contract("sqlfluff.cli.commands:_paths_fix#lint-run-and-gate", PROP)
class paths_fix_lint_run_and_gate:
    """from the start of the lint run to the unparsable gate: a usage / configuration error raised while linting exits 2;
    otherwise the exit code so far is 1 exactly when an unsuppressed templating / parsing error blocks fixing"""
    region = ("exit_code = EXIT_SUCCESS", "violation_records = result.as_records()")
    region_params = ["linter", "formatter", "paths", "processes", "fix_even_unparsable", "fixed_suffix", "check", "ignore_files"]
    types = {"linter": Linter, "formatter": SINK, "paths": SINK, "processes": SINK, "fix_even_unparsable": BOOL,
             "fixed_suffix": TOpt(Text), "check": BOOL, "ignore_files": BOOL, "exit_code": INT, "result": LintingResult}
    raises = {"SystemExit": None}
    ghost_out = {"exit_code_out": ("exit_code", INT), "run": ("result", LintingResult)}
    modifies = ["heap:LintingResult.g_fixable_lint", "heap:LintingResult.g_unfixable_lint", "heap:LintedDir.num_unfixable_lint_errors"]

    def ensures(linter, formatter, paths, processes, fix_even_unparsable, fixed_suffix, check, ignore_files, exit_code_out, run):
        return (exit_code_out == (1 if (not fix_even_unparsable and has_live_tmp_prs(run)) else 0)
                and counters_ok(run) and unfixable_counters_ok(run))

    def hint_on_raise(exc_class, exc_value):
        return exc_class == "SystemExit" and exc_value == 2


@external("sqlfluff.core.config.fluffconfig:FluffConfig.make_child_from_path", PROP)
class make_child_from_path:
    types = {"self": FluffConfig, "path": Text, "require_dialect": BOOL}
    ret = FluffConfig
    raises = {"SQLFluffUserError": None}

    def ensures(self, path, require_dialect=True, result=None):
        return True


@contract("sqlfluff.cli.commands:lint#lint-run", PROP)
class lint_lint_run:
    """the lint run of `lint` (stdin or paths) inside the error handler: a usage / configuration error raised while linting
    exits 2, nothing else exits here"""
    region = ("with PathAndUserErrorHandler(formatter):", "if not non_human_output:")
    region_params = ["formatter", "paths", "stdin_filename", "lnt", "disregard_sqlfluffignores", "processes"]
    types = {"formatter": SINK, "paths": SINK, "stdin_filename": TOpt(Text), "lnt": Linter, "disregard_sqlfluffignores": BOOL,
             "processes": SINK, "result": LintingResult}
    raises = {"SystemExit": None}
    modifies = ["lnt.config"]

    def ensures(formatter, paths, stdin_filename, lnt, disregard_sqlfluffignores, processes):
        return True

    def hint_on_raise(exc_class, exc_value):
        return exc_class == "SystemExit" and exc_value == 2


# ------------------------------------------------------------------ LintedDir.add: where the counters the exit codes read come from
# Region: the counter updates of LintedDir.add (the record building above them -- sorting, statistics, timings -- is reporting).
# Ghost fields of LintedFile = the answers of LintedFile.num_violations to the four queries made here (their meaning in terms of the
# violation list is LintedFile.get_violations: C20, and the bounded matrix):
#   g_counted             num_violations()                                   unsuppressed, non-warning violations of ANY class
#   g_unfixable_lint      num_violations(types=SQLLintError, fixable=False)  ... lint violations without fixes
#   g_live_tmp_prs        num_violations(types=TMP_PRS_ERROR_TYPES)          ... templating / parsing errors
#   g_unfiltered_tmp_prs  num_violations(types=TMP_PRS_ERROR_TYPES, filter_ignore=False, filter_warning=False)   ALL of those
from sqlfluff.core.linter.linted_file import TMP_PRS_ERROR_TYPES as _TMP_PRS  # noqa: E402

LintedFileG = ref_class("sqlfluff.core.linter.linted_file:LintedFile", g_counted=INT, g_unfixable_lint=INT, g_live_tmp_prs=INT,
                        g_unfiltered_tmp_prs=INT, timings=SINK)
ref_class("sqlfluff.core.linter.linted_dir:LintedDir", _num_files=INT, _num_clean=INT, _num_unclean=INT, _num_violations=INT,
          _unfiltered_tmp_prs_errors_map=_c18.TDict(Text, INT), _records=TList(Record))


@spec
def is_tmp_prs(types):
    return types is not None and types is _TMP_PRS


@external("sqlfluff.core.linter.linted_file:LintedFile.num_violations", PROP)
class file_num_violations:
    types = {"self": LintedFile}
    ret = INT

    def ensures(self, types=None, filter_ignore=True, filter_warning=True, fixable=None, result=0):
        return (result >= 0
                and implies(types is None and filter_ignore and filter_warning and fixable is None, result == self.g_counted)
                and implies(is_lint(types) and filter_ignore and filter_warning and fixable is False, result == self.g_unfixable_lint)
                and implies(is_tmp_prs(types) and filter_ignore and filter_warning and fixable is None, result == self.g_live_tmp_prs)
                and implies(is_tmp_prs(types) and not filter_ignore and not filter_warning and fixable is None,
                            result == self.g_unfiltered_tmp_prs))


@external("sqlfluff.core.linter.linted_file:LintedFile.is_clean", PROP)
class file_is_clean:
    types = {"self": LintedFile}
    ret = BOOL

    def ensures(self, result):
        return True


@contract("sqlfluff.core.linter.linted_dir:LintedDir.add#counters", PROP)
class dir_add_counters:
    region = ("self._records.append(record)", "if file.timings:")
    region_params = ["self", "file", "record"]
    types = {"self": LintedDir, "file": LintedFile, "record": Record, "_unfiltered_tmp_prs_errors": INT}
    modifies = ["self._records", "self._num_files", "self._num_clean", "self._num_unclean", "self._num_violations",
                "self.num_unfiltered_tmp_prs_errors", "self._unfiltered_tmp_prs_errors_map", "self.num_tmp_prs_errors",
                "self.num_unfixable_lint_errors"]

    def ensures(self, file, record, old):
        return (
            # lint's exit code: _num_violations grows by the file's unsuppressed non-warning violations
            self._num_violations == old.self._num_violations + file.g_counted
            # fix's exit code: the unfixable counter grows by the file's unsuppressed non-warning lint violations without fixes,
            and self.num_unfixable_lint_errors == old.self.num_unfixable_lint_errors + file.g_unfixable_lint
            # the live template/parse error counter by the unsuppressed non-warning ones, the unfiltered one by all of them
            and self.num_tmp_prs_errors == old.self.num_tmp_prs_errors + file.g_live_tmp_prs
            and self.num_unfiltered_tmp_prs_errors == old.self.num_unfiltered_tmp_prs_errors + file.g_unfiltered_tmp_prs
            and self._unfiltered_tmp_prs_errors_map[file.path] == file.g_unfiltered_tmp_prs
            and self._num_files == old.self._num_files + 1)


# count_tmp_prs_errors (contracts/c18.py) is verified in a C22 run too: _handle_unparsable's filter reads its two numbers
from pyvc.dsl import CONTRACTS as _CONTRACTS  # noqa: E402
_ctp = _CONTRACTS["sqlfluff.core.linter.linting_result:LintingResult.count_tmp_prs_errors"]
_ctp.props = tuple(sorted(set(_ctp.props) | {PROP}))


# ------------------------------------------------------------------ non-SMT parts (contracts/c22_bounded.py)
from . import c22_bounded as _c22b  # noqa: E402

BOUNDED = list(_c22b.BOUNDED)

_CMD = "sqlfluff/cli/commands.py"
_DIR = "sqlfluff/core/linter/linted_dir.py"
_RES = "sqlfluff/core/linter/linting_result.py"
MUTANTS = [
    # --- lint: the statistics and the exit tail
    ("stats_exit_code_off_by_one", _RES, 'all_stats["exit code"] = fail_code if counts["violations"] > 0 else success_code',
     'all_stats["exit code"] = fail_code if counts["violations"] > 1 else success_code'),
    ("lint_exit_codes_swapped", _CMD, 'exit_code = result.stats(EXIT_FAIL, EXIT_SUCCESS)["exit code"]',
     'exit_code = result.stats(EXIT_SUCCESS, EXIT_FAIL)["exit code"]'),
    ("lint_nofail_fails", _CMD, "        sys.exit(exit_code)\n    else:\n        sys.exit(EXIT_SUCCESS)",
     "        sys.exit(exit_code)\n    else:\n        sys.exit(EXIT_FAIL)"),
    ("warnings_counted_as_violations", _DIR, "        self._num_violations += file.num_violations()",
     "        self._num_violations += file.num_violations(filter_warning=False)"),
    # --- fix / format by path: the unfixable count
    ("unfixable_counts_suppressed", _DIR, "            types=SQLLintError,\n            fixable=False,\n        )",
     "            types=SQLLintError,\n            filter_ignore=False,\n            fixable=False,\n        )"),
    ("paths_fix_counts_the_wrong_counter", _CMD, "    num_unfixable = sum(p.num_unfixable_lint_errors for p in result.paths)",
     "    num_unfixable = sum(p.num_unfiltered_tmp_prs_errors for p in result.paths)"),
    ("paths_fix_unfixable_does_not_fail", _CMD, "        exit_code = max(exit_code, EXIT_FAIL)\n\n    if bench:",
     "        exit_code = max(exit_code, EXIT_SUCCESS)\n\n    if bench:"),
    ("paths_fix_exit_code_dropped", _CMD, "        exit_code = max(exit_code, EXIT_FAIL)\n\n    sys.exit(exit_code)",
     "        exit_code = max(exit_code, EXIT_FAIL)\n\n    sys.exit(EXIT_SUCCESS)"),
    ("paths_fix_gate_always_open", _CMD, "    exit_code = _handle_unparsable(fix_even_unparsable, exit_code, result, formatter)\n\n    # NB:",
     "    exit_code = _handle_unparsable(True, exit_code, result, formatter)\n\n    # NB:"),
    ("discard_counts_warnings", _DIR, '                            if not v_dict.get("warning"):\n                                self.num_unfixable_lint_errors += 1',
     "                            self.num_unfixable_lint_errors += 1"),
    # --- the unparsable gate's filter
    ("gate_fails_on_suppressed_errors", _CMD, "    return EXIT_FAIL if num_filtered_errors else EXIT_SUCCESS",
     "    return EXIT_FAIL if total_errors else EXIT_SUCCESS"),
    ("gate_counts_swapped", _RES, "        return total_errors, num_filtered_errors", "        return num_filtered_errors, total_errors"),
    # --- fix / format by stdin
    ("stdin_exit_drops_unfixable", _CMD, "    sys.exit(EXIT_FAIL if templater_error or unfixable_error else exit_code)",
     "    sys.exit(EXIT_FAIL if templater_error else exit_code)"),
    ("stdin_exit_ignores_the_gate", _CMD, "    sys.exit(EXIT_FAIL if templater_error or unfixable_error else exit_code)",
     "    sys.exit(EXIT_FAIL if templater_error or unfixable_error else EXIT_SUCCESS)"),
    ("stdin_any_lint_violation_fails", _CMD, "    unfixable_error = result.num_violations(types=SQLLintError, fixable=False) > 0",
     "    unfixable_error = result.num_violations(types=SQLLintError) > 0"),
    # --- usage / configuration errors
    ("user_error_exits_1", _CMD, "                err=True,\n            )\n            sys.exit(EXIT_ERROR)", "                err=True,\n            )\n            sys.exit(EXIT_FAIL)"),
    ("user_error_wrong_class", _CMD, "        if exc_type is SQLFluffUserError:", "        if exc_type is SQLBaseError:"),
]


# ------------------------------------------------------------------ violations cross process boundaries unchanged (bounded)
def pickled_violations_keep_their_flags(tier="quick", seed=0):
    """BOUNDED: with --processes > 1 every violation reaches the parent process through pickle (`__reduce__`); the flags the exit
    code depends on -- ignore (noqa / --ignore), warning (`warnings = ...`), fatal -- and the fixes must survive the round trip,
    or the same run exits differently depending on the number of processes.  Real violations of real lint runs, every flag
    combination."""
    import itertools, pickle
    from sqlfluff.core import Linter, FluffConfig
    failed, samples, ev = [], [], 0
    sqls = ["SELECT a  from tbl WHERE a ! 3\n", "select a,b FROM t\n", "SELECT {{ undefined_xyz }} FROM t\n", "SELECT * FROM t JOIN u\n", "SELECT \u00bf FROM t\n"]
    for sql in sqls:
        lf = Linter(config=FluffConfig(overrides={"dialect": "ansi"})).lint_string(sql, fix=True)
        for v in lf.violations:
            for ignore, warning in itertools.product((False, True), repeat=2):
                ev += 1
                v.ignore, v.warning = ignore, warning
                w = pickle.loads(pickle.dumps(v))
                before = (type(v).__name__, v.rule_code(), v.line_no, v.line_pos, v.desc(), v.ignore, v.warning, v.fatal, len(getattr(v, "fixes", []) or []))
                after = (type(w).__name__, w.rule_code(), w.line_no, w.line_pos, w.desc(), w.ignore, w.warning, w.fatal, len(getattr(w, "fixes", []) or []))
                if len(samples) < 3:
                    samples.append({"violation": before})
                if before != after and not failed:
                    failed.append({"name": "C22/pickle/flags-survive", "id": "C22/pickle/flags-survive", "kind": "bounded", "status": "failed",
                                   "function": f"sqlfluff.core.errors:{type(v).__name__}.__reduce__",
                                   "detail": {"sql": sql, "before (class, code, line, pos, description, ignore, warning, fatal, fixes)": before,
                                              "after pickle round trip": after}, "reproduced": True})
            v.ignore, v.warning = False, False
    return {"name": "pickled-violations", "bound": f"every violation of {len(sqls)} real lint runs x 4 (ignore, warning) combinations",
            "rule": "one evaluation = one pickle round trip of a real violation object; all are non-trivial",
            "evaluations": ev, "distinct_nontrivial": ev, "samples": samples, "failed": failed}


BOUNDED = list(globals().get("BOUNDED", [])) + [pickled_violations_keep_their_flags]
MUTANTS = list(globals().get("MUTANTS", [])) + [
    ("lint_error_pickle_drops_warning", "sqlfluff/core/errors.py",
     "            self.fixes,\n            self.ignore,\n            self.fatal,\n            self.warning,\n        )",
     "            self.fixes,\n            self.ignore,\n            self.fatal,\n        )"),
]
