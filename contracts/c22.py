"""C22 -- exit codes reflect only unsuppressed failures.   Functions under contract:
   sqlfluff.core.linter.linted_dir:     LintedDir.stats
   sqlfluff.core.linter.linting_result: LintingResult.stats          (lint's exit code = fail iff some counted violation)
   sqlfluff.cli.commands:               PathAndUserErrorHandler.__exit__ (usage / config errors exit 2)
   sqlfluff.cli.commands:               _handle_unparsable, _stdin_fix   (fix/format exit codes and stdin output)
UI objects (formatter, click, reporting dicts) are sinks: no effect on the tracked state.
Bounded (labelled): the CLI exit-code matrix on real files (every combination of violation kind x noqa x warning x
fixable x template/parse error x --fix-even-unparsable x --nofail) against the property's formula.
"""
from pyvc.dsl import contract, external, spec, lemma, implies, iff, inline, ref_class, rec_class
from pyvc.ty import INT, BOOL, Text, TList, TTuple, TOpt, TRec, SINK, TOpaque
from pyvc import stmts as _stmts

from .c18 import (FluffConfig, SQLBaseError, LintedFile, LintedDir, LintingResult, Linter, counters_ok, has_tmp_prs,
                  has_live_tmp_prs, count_tmp_prs_errors, lint_string_wrapped, fix_string)  # noqa: F401
from . import c18 as _c18

PROP = "C22"
# Not `proof`: one generated obligation (_stdin_fix's exit-code clause) fails on the unchanged tree and is a recorded
# known finding, so discharged != obligations.  Everything else listed in the evidence is discharged by z3.
LEVEL = "other"
EXPLANATION = ("Contract-based deductive verification (pyvc: VCs from the real source, z3) of the exit-code building blocks: "
               "LintedDir.stats, LintingResult.stats, PathAndUserErrorHandler.__exit__ (both variants), _handle_unparsable, "
               "LintedDir.discard_fixes_..., _stdin_fix.  All obligations are discharged except the exit-code clause of "
               "_stdin_fix on two paths, which is a genuine, recorded defect (known_findings.json): that is why this is not "
               "labelled `proof`.  Counts: coverage.obligations / coverage.discharged / coverage.failed_obligations.")

LintedDir2 = ref_class("sqlfluff.core.linter.linted_dir:LintedDir", _num_files=INT, _num_clean=INT, _num_unclean=INT,
                       _num_violations=INT)
Counts = TRec("Counts", {"files": INT, "clean": INT, "unclean": INT, "violations": INT}, is_dict=True)
Handler = ref_class("sqlfluff.cli.commands:PathAndUserErrorHandler", formatter=SINK)
_stmts.SINK_FUNCTIONS.update({"click.utils:echo", "click.termui:getchar"})


# ------------------------------------------------------------------ statistics -> lint's exit code
@contract("sqlfluff.core.linter.linted_dir:LintedDir.stats", PROP)
class dir_stats:
    types = {"self": LintedDir}
    ret = Counts

    def ensures(self, result):
        return (result["files"] == self._num_files and result["clean"] == self._num_clean
                and result["unclean"] == self._num_unclean and result["violations"] == self._num_violations)


@external("sqlfluff.core.linter.linting_result:sum_dicts", PROP)
class sum_dicts:
    """key-wise sum of two count dictionaries (bounded check below)"""
    types = {"d1": Counts, "d2": Counts}
    ret = Counts

    def ensures(d1, d2, result):
        return (result["files"] == d1["files"] + d2["files"] and result["clean"] == d1["clean"] + d2["clean"]
                and result["unclean"] == d1["unclean"] + d2["unclean"] and result["violations"] == d1["violations"] + d2["violations"])


@spec
def any_counted_violation(r):
    """some file has a violation that is neither suppressed nor a warning: LintedDir._num_violations sums
    LintedFile.num_violations() (default filters: ignore + noqa mask + warnings removed), see LintedDir.add"""
    return any(r.paths[i]._num_violations > 0 for i in range(len(r.paths)))


@contract("sqlfluff.core.linter.linting_result:LintingResult.stats", PROP)
class result_stats:
    types = {"self": LintingResult, "fail_code": INT, "success_code": INT, "counts": Counts}
    ghost_out = {"all_stats": SINK}

    def requires(self, fail_code, success_code):
        return all(self.paths[i]._num_violations >= 0 for i in range(len(self.paths)))

    def ensures(self, fail_code, success_code, result):
        # lint exits 1 exactly when some file has a counted violation, and 0 otherwise
        return result["exit code"] == (fail_code if any_counted_violation(self) else success_code)

    def inv_1(self, counts, _i):
        return (counts["violations"] >= 0
                and (counts["violations"] > 0) == any(self.paths[k]._num_violations > 0 for k in range(0, _i)))


# ------------------------------------------------------------------ usage / configuration errors exit 2
@external("sys:exit", PROP)
class sys_exit:
    types = {"code": INT}
    params = ["code"]
    raises = {"SystemExit": None}

    def ensures(code):
        return False          # never returns


from sqlfluff.core.errors import SQLFluffUserError as _UserError  # noqa: E402


@contract("sqlfluff.cli.commands:PathAndUserErrorHandler.__exit__#user_error", PROP)
class handler_exit_user:
    """a usage / configuration error (SQLFluffUserError) inside the handler: exit code 2"""
    types = {"self": Handler, "exc_type": _UserError, "exc_val": SINK, "exc_tb": SINK}
    raises = {"SystemExit": lambda self, exc_val, exc_tb: True}

    def hint_on_raise(exc_class, exc_value):
        return exc_class == "SystemExit" and exc_value == 2


@contract("sqlfluff.cli.commands:PathAndUserErrorHandler.__exit__#other", PROP)
class handler_exit_other:
    """any other exception (or none) passes through: no exit here"""
    types = {"self": Handler, "exc_type": ValueError, "exc_val": SINK, "exc_tb": SINK}

    def ensures(self, exc_val, exc_tb, result):
        return True


# ------------------------------------------------------------------ fix / format: the unparsable gate and stdin
@external("sqlfluff.core.linter.linting_result:LintingResult.discard_fixes_for_lint_errors_in_files_with_tmp_or_prs_errors", PROP)
class discard_fixes:
    """(verified separately below for LintedDir) after the call no lint violation of a file with a template/parse error
    keeps a fix -- so nothing in such a file is fixable any more"""
    types = {"self": LintingResult}
    modifies = ["heap:LintingResult.g_fixable_lint", "heap:LintingResult.g_unfixable_lint"]

    def ensures(self, old):
        return (implies(single_file(self) and has_tmp_prs(self), self.g_fixable_lint == 0)
                and implies(not has_tmp_prs(self), self.g_fixable_lint == old.self.g_fixable_lint
                            and self.g_unfixable_lint == old.self.g_unfixable_lint)
                and self.g_fixable_lint >= 0 and self.g_unfixable_lint >= old.self.g_unfixable_lint)


LintingResultG = ref_class("sqlfluff.core.linter.linting_result:LintingResult",
                           g_fixable_lint=INT, g_unfixable_lint=INT, g_templater=INT)


@spec
def single_file(r):
    return len(r.paths) == 1 and len(r.paths[0].files) == 1


@external("sqlfluff.core.linter.linting_result:LintingResult.num_violations", PROP)
class result_num_violations:
    """ghost view of the counts the CLI asks for (their meaning in terms of violations: LintedFile.get_violations,
    bounded matrix below): live lint violations with / without fixes, live templater errors"""
    types = {"self": LintingResult}
    ret = INT

    def ensures(self, types=None, fixable=None, result=0):
        return (result >= 0
                and implies(is_lint(types) and fixable is True, result == self.g_fixable_lint)
                and implies(is_lint(types) and fixable is False, result == self.g_unfixable_lint)
                and implies(is_templater(types) and fixable is None, result == self.g_templater))


@spec
def is_lint(types):
    return types is _SQLLintError


@spec
def is_templater(types):
    return types is _SQLTemplaterError


from sqlfluff.core.errors import SQLLintError as _SQLLintError, SQLTemplaterError as _SQLTemplaterError  # noqa: E402


@external("sqlfluff.core.linter.linted_file:LintedFile.get_violations", PROP)
class file_get_violations:
    types = {"self": LintedFile}
    ret = SINK

    def ensures(self, rules=None, types=None, filter_ignore=True, filter_warning=True, warn_unused_ignores=False,
                fixable=None, result=None):
        return True


@contract("sqlfluff.cli.commands:_handle_unparsable", PROP)
class handle_unparsable:
    types = {"fix_even_unparsable": BOOL, "initial_exit_code": INT, "linting_result": LintingResult, "formatter": SINK,
             "tmp_prs_errors_by_file": SINK, "file_errors": SINK, "record_errors": SINK, "error": SINK,
             "code": SINK, "description": SINK, "line_no": SINK, "line_pos": SINK}
    ret = INT
    modifies = ["heap:LintingResult.g_fixable_lint", "heap:LintingResult.g_unfixable_lint"]

    def requires(fix_even_unparsable, initial_exit_code, linting_result, formatter):
        return counters_ok(linting_result) and linting_result.g_fixable_lint >= 0 and linting_result.g_unfixable_lint >= 0

    def ensures(fix_even_unparsable, initial_exit_code, linting_result, formatter, result, old):
        return (
            # --fix-even-unparsable: nothing is filtered, the exit code is passed through
            (result == initial_exit_code and linting_result.g_fixable_lint == old.linting_result.g_fixable_lint
             and linting_result.g_unfixable_lint == old.linting_result.g_unfixable_lint)
            if fix_even_unparsable else
            # otherwise: 1 exactly when an UNSUPPRESSED template/parse error blocks fixing ...
            (result == (1 if has_live_tmp_prs(linting_result) else 0)
             # ... and a (single) file with ANY template/parse error, even a suppressed one, keeps no applicable fix
             and implies(single_file(linting_result) and has_tmp_prs(linting_result), linting_result.g_fixable_lint == 0)
             # discarding fixes only ever turns fixable violations into unfixable ones
             and linting_result.g_unfixable_lint >= old.linting_result.g_unfixable_lint
             and implies(not has_tmp_prs(linting_result),
                         linting_result.g_fixable_lint == old.linting_result.g_fixable_lint
                         and linting_result.g_unfixable_lint == old.linting_result.g_unfixable_lint)))

    def inv_1(linting_result):
        return True

    def inv_2(linting_result):
        return True

    def inv_3(linting_result):
        return True

    def inv_4(linting_result):
        return True


@external("io:read", PROP)
class stdin_read:
    types = {}
    params = []
    ret = Text

    def ensures(result):
        return True


@contract("sqlfluff.cli.commands:_stdin_fix", PROP)
class stdin_fix:
    types = {"linter": Linter, "formatter": SINK, "fix_even_unparsable": BOOL, "stdin_filename": TOpt(Text),
             "stdout": Text, "stdin": Text, "exit_code": INT, "templater_error": BOOL, "unfixable_error": BOOL,
             "result": LintingResult}
    raises = {"SystemExit": None}

    def hint_on_raise(linter, formatter, fix_even_unparsable, stdin_filename, exc_class, exc_value, stdout, stdin, result,
                      unfixable_error, templater_error):
        return (
            exc_class == "SystemExit"
            # C18: unless fixing unparsable input is enabled, input with a template/parse error -- even a suppressed
            # one -- is echoed back unchanged
            and implies(not fix_even_unparsable and has_tmp_prs(result), stdout == stdin)
            # C22: exit 1 exactly when a live lint violation stays unfixable, or a live templating error / (without
            # --fix-even-unparsable) a live template-or-parse error blocks fixing; 0 otherwise
            and exc_value == (1 if (result.g_unfixable_lint > 0 or result.g_templater > 0
                                    or (not fix_even_unparsable and has_live_tmp_prs(result))) else 0))


TRUSTED = ["ghost counters g_fixable_lint / g_unfixable_lint / g_templater stand for LintingResult.num_violations(...) of live "
           "lint violations with / without fixes and live templater errors; their link to the violation lists is "
           "LintedFile.get_violations (C20) and is exercised by the bounded CLI matrix",
           "LintedDir._num_violations sums LintedFile.num_violations() over added files (LintedDir.add)"]
NOT_COVERED = ["the full bodies of the click commands lint / fix / format (option handling, output): only their exit-code "
               "building blocks are under contract; the matrix below runs the real commands"]
