"""C26 -- writing fixed files is atomic and faithful.

Three layers, all over the REAL code of `LintedFile._safe_create_replace_file` / `LintedFile.persist_tree`
(imported from <src>/sqlfluff, `--src` honoured through the imported module object; nothing hard-coded):

LAYER 0 (pyvc, symbolic)  contracts/c26_fs.py: _safe_create_replace_file under a contract over a GHOST FILE SYSTEM (entries
                          with ghost content / codec / st_mode, a fault counter, a creation history), every primitive it
                          calls under an ASSUMED contract with a normal AND an exceptional postcondition, `with` exit =
                          close as a model hook; persist_tree, LintedDir.persist_changes and the apply_fixes statements of
                          Linter.lint_paths (region) under contracts over path strings with a ghost recorder of the write call.
LAYER 1 (EXTRA, static)   exception-flow / ordering obligations C26/static/* decided by an AST analysis anchored on
                          call names and try/with nesting (never on line numbers).  An anchor that is not found makes
                          the obligation UNDECIDED, a found anchor with the wrong shape makes it FAILED.
LAYER 2 (BOUNDED, dynamic) exhaustive fault enumeration: the real functions run in a temp directory with the modules
                          `os`, `shutil`, `tempfile`, `stat` (and the builtin `open`) of sqlfluff.core.linter.linted_file
                          replaced by recording / fault-injecting proxies.  This validates the assumed primitive contracts of
                          layer 0 against the real os / CPython io and is the replay of every layer-1 failure.
"""
from __future__ import annotations

import ast
import builtins
import errno
import inspect
import os
import shutil
import stat
import sys
import tempfile
import textwrap
import time
import types

PROP = "C26"
LEVEL = "fault_enumeration"
NATIVE_TRIES = {"quick": 0, "thorough": 0}

# LAYER 0 (pyvc, symbolic): the two functions under contract over a ghost file system -- contracts/c26_fs.py
from . import c26_fs as _fs  # noqa: E402,F401  (registers the contracts of PROP C26)

SAFE = "sqlfluff.core.linter.linted_file:LintedFile._safe_create_replace_file"
PERSIST = "sqlfluff.core.linter.linted_file:LintedFile.persist_tree"
_CACHE: dict = {}


# =====================================================================================================================
# LAYER 1 -- syntactic exception-flow analysis
# =====================================================================================================================
# calls that neither touch the file system nor can fail for a file-system reason
PURE_CALLS = {"os.path.split", "os.path.splitext", "os.path.dirname", "os.path.basename", "os.path.join",
              "os.path.normpath", "os.fspath", "stat.S_ISREG", "stat.S_IMODE", "stat.S_ISDIR", "stat.S_ISLNK"}
CREATE_CALLS = {"tempfile.NamedTemporaryFile", "NamedTemporaryFile"}
COMMIT_CALLS = {"shutil.move", "os.replace", "os.rename"}
REMOVE_CALLS = {"os.remove", "os.unlink"}
PERSIST_ALLOWED = {"self.num_violations", "self.fix_string", "os.path.splitext", "self._safe_create_replace_file",
                   "formatter.dispatch_persist_filename"}


def _real_function(name):
    from sqlfluff.core.linter.linted_file import LintedFile
    obj = LintedFile.__dict__[name]
    fn = getattr(obj, "__func__", obj)
    src = textwrap.dedent(inspect.getsource(fn))
    node = ast.parse(src).body[0]
    return fn, node, inspect.getsourcefile(fn)


def _dotted(e):
    parts = []
    while isinstance(e, ast.Attribute):
        parts.append(e.attr)
        e = e.value
    if isinstance(e, ast.Name):
        parts.append(e.id)
        return ".".join(reversed(parts))
    return None


def _parents(root):
    par = {}
    for n in ast.walk(root):
        for c in ast.iter_child_nodes(n):
            par[c] = n
    return par


def _stmt_of(node, par):
    while node is not None and not isinstance(node, ast.stmt):
        node = par.get(node)
    return node


def _chain(node, par):
    out = []
    while node in par:
        node = par[node]
        out.append(node)
    return out


def _in_field(node, anc, field, par):
    """is `node` (transitively) inside `anc.<field>` (a statement list)?"""
    cur = node
    while cur in par and par[cur] is not anc:
        cur = par[cur]
    return par.get(cur) is anc and any(cur is s for s in getattr(anc, field, []))


def _assignments(fn_node, name):
    """[(value expr or None, tuple index or None, stmt)] for every binding of local `name`."""
    out = []
    for n in ast.walk(fn_node):
        if isinstance(n, ast.Assign):
            for tg in n.targets:
                if isinstance(tg, ast.Name) and tg.id == name:
                    out.append((n.value, None, n))
                elif isinstance(tg, (ast.Tuple, ast.List)):
                    for i, el in enumerate(tg.elts):
                        if isinstance(el, ast.Name) and el.id == name:
                            out.append((n.value, i, n))
        elif isinstance(n, ast.AnnAssign) and isinstance(n.target, ast.Name) and n.target.id == name:
            out.append((n.value, None, n))
        elif isinstance(n, ast.AugAssign) and isinstance(n.target, ast.Name) and n.target.id == name:
            out.append((n, None, n))
        elif isinstance(n, (ast.For, ast.comprehension)) and any(isinstance(x, ast.Name) and x.id == name for x in ast.walk(n.target)):
            out.append((n, None, n))
        elif isinstance(n, ast.withitem) and n.optional_vars is not None and any(isinstance(x, ast.Name) and x.id == name for x in ast.walk(n.optional_vars)):
            out.append((n.context_expr, None, n))
        elif isinstance(n, ast.NamedExpr) and n.target.id == name:
            out.append((n.value, None, n))
    return out


def _is_none(e):
    return isinstance(e, ast.Constant) and e.value is None


def _const(e, default=KeyError):
    return e.value if isinstance(e, ast.Constant) else default


class _Obs:
    def __init__(self, function):
        self.function = function
        self.n = 0
        self.ok_n = 0
        self.failed, self.undecided, self.samples = [], [], []

    def ok(self, oid, **detail):
        self.n += 1
        self.ok_n += 1
        self.samples.append(dict({"obligation": oid, "backend": BACKEND_STATIC}, **detail))

    def fail(self, oid, detail, function=None):
        self.n += 1
        self.failed.append({"name": oid, "id": oid, "kind": "exception-flow", "status": "failed",
                            "function": function or self.function, "detail": detail, "reproduced": False,
                            "backend": BACKEND_STATIC})

    def undec(self, oid, reason, function=None):
        self.n += 1
        self.undecided.append({"function": function or self.function, "obligation": oid, "reason": "anchor not found: " + reason})


BACKEND_STATIC = "syntactic exception-flow analysis"
S = "C26/static/"


def analyse_safe_replace(O: _Obs):
    fn, node, srcfile = _real_function("_safe_create_replace_file")
    par = _parents(node)
    params = [a.arg for a in node.args.args]
    all_ids = [S + x for x in ("primitives-closed[_safe_create_replace_file]", "o1/only-move-touches-output", "o1/temp-in-target-dir",
                               "o1/delete-false", "o2/content-written-to-temp-before-move", "o2/chmod-before-move",
                               "o3/handler-shape", "o3/temp-name-known-to-handler", "o3/sites-covered", "o4/mode-from-input-path",
                               "o5/encoding-argument", "o5/newline-untranslated", "o5/text-is-write_buff")]
    if len(params) != 4:
        for i in all_ids:
            O.undec(i, f"_safe_create_replace_file no longer has 4 parameters: {params}")
        return {}
    P_IN, P_OUT, P_BUF, P_ENC = params
    calls = [n for n in ast.walk(node) if isinstance(n, ast.Call)]
    loops = [n for n in ast.walk(node) if isinstance(n, (ast.For, ast.While, ast.AsyncFor))]
    # ---- anchors: creation call, its `with`, the temp variable, aliases of the temp file's name
    creates = [c for c in calls if _dotted(c.func) in CREATE_CALLS]
    W = tmpvar = None
    for c in creates:
        p = par.get(c)
        if isinstance(p, ast.withitem) and isinstance(p.optional_vars, ast.Name):
            W, tmpvar = par[p], p.optional_vars.id
    create = creates[0] if creates else None

    def is_tmp_file(e):
        return tmpvar is not None and ast.unparse(e) in (tmpvar, tmpvar + ".file")

    name_aliases = set()
    if tmpvar:
        changed = True
        while changed:
            changed = False
            for n in {x.id for x in ast.walk(node) if isinstance(x, ast.Name) and isinstance(x.ctx, ast.Store)} - name_aliases - {tmpvar}:
                asg = _assignments(node, n)
                vals = [v for v, i, _ in asg]
                if asg and all(i is None for _, i, _ in asg) and any(not _is_none(v) for v in vals) and \
                        all(_is_none(v) or (isinstance(v, ast.expr) and (ast.unparse(v) == tmpvar + ".name" or (isinstance(v, ast.Name) and v.id in name_aliases))) for v in vals):
                    name_aliases.add(n)
                    changed = True

    def is_tmp_name(e):
        return tmpvar is not None and (ast.unparse(e) == tmpvar + ".name" or (isinstance(e, ast.Name) and e.id in name_aliases))

    out_aliases = {P_OUT} | {n for n in {x.id for x in ast.walk(node) if isinstance(x, ast.Name) and isinstance(x.ctx, ast.Store)}
                             if (a := _assignments(node, n)) and all(i is None and isinstance(v, ast.Name) and v.id == P_OUT for v, i, _ in a)}

    def kind(c):
        d = _dotted(c.func)
        a = c.args
        if d in PURE_CALLS:
            return "pure"
        if d in CREATE_CALLS:
            return "create"
        if d == "os.stat":
            return "stat"
        if d == "os.path.exists":
            return "exists"
        if isinstance(c.func, ast.Attribute) and is_tmp_file(c.func.value):
            return {"write": "write", "writelines": "write", "flush": "flush", "close": "close", "fileno": "pure"}.get(c.func.attr, "unknown")
        if d == "os.fsync" and len(a) == 1 and isinstance(a[0], ast.Call) and kind(a[0]) == "pure" and isinstance(a[0].func, ast.Attribute) and a[0].func.attr == "fileno":
            return "fsync"
        if d == "os.chmod" and a and is_tmp_name(a[0]):
            return "chmod"
        if d in COMMIT_CALLS and len(a) == 2 and is_tmp_name(a[0]) and isinstance(a[1], ast.Name) and a[1].id in out_aliases:
            return "commit"
        if d in REMOVE_CALLS and len(a) == 1 and is_tmp_name(a[0]):
            return "remove"
        return "unknown"

    K = {c: kind(c) for c in calls}
    by = lambda k: [c for c in calls if K[c] == k]
    inventory = sorted({f"{K[c]}:{ast.unparse(c.func)}" for c in calls})
    # ---- TRUSTED claim: the classified primitives are the only calls
    unknown = by("unknown")
    oid = all_ids[0]
    if unknown:
        O.fail(oid, {"unclassified calls (possible side effects outside the proved protocol)": [ast.unparse(c)[:160] for c in unknown],
                     "classified": inventory, "file": srcfile})
    else:
        O.ok(oid, calls=inventory, file=srcfile)
    # ---- o1: the only call that receives output_path is the move (pure path arithmetic aside)
    oid = S + "o1/only-move-touches-output"
    commits = by("commit")
    bad, soft = [], []
    for n in ast.walk(node):
        if isinstance(n, ast.Name) and n.id in out_aliases:
            if isinstance(n.ctx, ast.Store) and n.id == P_OUT:
                bad.append(f"parameter {P_OUT} is re-bound: {ast.unparse(_stmt_of(n, par))[:100]}")
                continue
            enc = next((x for x in _chain(n, par) if isinstance(x, ast.Call)), None)
            if enc is None:
                continue
            if K[enc] == "pure" or (K[enc] == "commit" and enc.args[1] is n):
                continue
            if tmpvar is None and _dotted(enc.func) in COMMIT_CALLS and len(enc.args) == 2 and enc.args[1] is n:
                soft.append(ast.unparse(enc)[:140])      # a move onto the output whose source cannot be identified: anchor lost
                continue
            bad.append(f"{ast.unparse(enc)[:140]}  [{K[enc]}]")
    if soft and not bad:
        O.undec(oid, "temp-file creation (`with tempfile.NamedTemporaryFile(...) as <name>`) not found, cannot identify the source of " + "; ".join(soft))
    elif bad:
        O.fail(oid, {"calls other than the final move that receive the output path": sorted(set(bad)),
                     "consequence": "the target can be observed in a state that is neither the old nor the complete new content"})
    elif len(commits) != 1:
        (O.undec if not commits else O.fail)(oid, f"expected exactly one move/rename of the temp file onto {P_OUT}, found {len(commits)}"
                                             if not commits else {"moves onto the output path": [ast.unparse(c) for c in commits]})
    else:
        O.ok(oid, commit=ast.unparse(commits[0]), output_aliases=sorted(out_aliases))
    commit = commits[0] if len(commits) == 1 else None
    kw = {k.arg: k.value for k in create.keywords} if create is not None else {}
    # ---- o1: the temp file lives in the target's directory, delete=False
    oid = S + "o1/temp-in-target-dir"
    if create is None:
        O.undec(oid, "no tempfile.NamedTemporaryFile call")
    else:
        d = kw.get("dir")
        ok_dir = why = None
        if d is None or _is_none(d):
            ok_dir, why = False, "no dir= argument: the temp file is created in tempfile.gettempdir(); shutil.move across file systems is copy+delete, not an atomic rename"
        else:
            def dir_of_output(e, depth=0):
                u = ast.unparse(e)
                if u in {f"os.path.dirname({a})" for a in out_aliases} | {f"os.path.dirname(os.path.abspath({a}))" for a in out_aliases}:
                    return True
                if isinstance(e, ast.BoolOp) and isinstance(e.op, ast.Or) and len(e.values) == 2 and _const(e.values[1], None) in (".", ""):
                    return dir_of_output(e.values[0], depth)
                if isinstance(e, ast.Name) and depth < 3:
                    asg = _assignments(node, e.id)
                    if len(asg) != 1:
                        return False
                    v, i, _ = asg[0]
                    if i == 0 and isinstance(v, ast.Call) and _dotted(v.func) == "os.path.split" and len(v.args) == 1 and isinstance(v.args[0], ast.Name) and v.args[0].id in out_aliases:
                        return True
                    return i is None and isinstance(v, ast.expr) and dir_of_output(v, depth + 1)
                return False
            if dir_of_output(d):
                ok_dir = True
            elif not any(isinstance(x, ast.Name) and (x.id in out_aliases or _assignments(node, x.id)) for x in ast.walk(d)):
                ok_dir, why = False, f"dir={ast.unparse(d)} does not depend on the output path"
        if ok_dir:
            O.ok(oid, dir=ast.unparse(d))
        elif ok_dir is False:
            O.fail(oid, {"NamedTemporaryFile": ast.unparse(create)[:300], "problem": why})
        else:
            O.undec(oid, f"dir={ast.unparse(d)} is not recognisably dirname({P_OUT})")
    oid = S + "o1/delete-false"
    if create is None:
        O.undec(oid, "no tempfile.NamedTemporaryFile call")
    elif _const(kw.get("delete"), None) is False:
        O.ok(oid)
    else:
        O.fail(oid, {"NamedTemporaryFile": ast.unparse(create)[:300], "problem": "delete=False missing: the file is unlinked on close, before it can be moved"})
    # ---- o2: order on every path (no loops => lexical order inside one block is execution order)
    oid = S + "o2/content-written-to-temp-before-move"
    block = None
    if W is not None:
        pw = par[W]
        for f in ("body", "orelse", "finalbody"):
            if any(s is W for s in getattr(pw, f, [])):
                block = getattr(pw, f)
    top = lambda n: next((s for s in block if s is n or s in _chain(n, par)), None) if block else None
    idx = lambda s: next(i for i, x in enumerate(block) if x is s)
    writes = [c for c in by("write") if c.args and isinstance(c.args[0], ast.Name) and c.args[0].id == P_BUF]
    if W is None or commit is None or loops:
        O.undec(oid, "with-block of the temp file / single move not found" if not loops else "loops present")
    else:
        probs = []
        if not writes:
            probs.append(f"no <temp>.write({P_BUF}) call")
        for c in by("write") + by("flush") + by("fsync"):
            if not _in_field(c, W, "body", par):
                probs.append(f"{ast.unparse(c)} is outside the with-block of the temp file")
        if writes and not any(_stmt_of(c, par) in W.body for c in writes):
            probs.append("the write of the text is conditional (not a direct statement of the with-block)")
        tc = top(commit)
        if tc is None or _stmt_of(commit, par) is not tc:
            probs.append("the move is not a direct statement of the block that holds the with-statement (it is inside the with-block or conditional)")
        elif idx(tc) <= idx(W):
            probs.append("the move precedes the with-block")
        if probs:
            O.fail(oid, {"problems": probs})
        else:
            O.ok(oid, order=[ast.unparse(_stmt_of(c, par)) for c in by("write") + by("flush") + by("fsync")] + ["<with exit: close>", ast.unparse(commit)])
    oid = S + "o2/chmod-before-move"
    chmods = by("chmod")
    if not chmods and create is not None and commit is not None:
        O.fail(oid, {"problem": "no os.chmod of the temp file: the target would get the temp file's 0600 mode"})
    elif not chmods or commit is None or block is None:
        O.undec(oid, "os.chmod(<temp name>, ...) / move / with-block not found")
    else:
        late = [ast.unparse(c) for c in chmods if top(c) is None or top(commit) is None or idx(top(c)) >= idx(top(commit)) or idx(top(c)) < idx(W)]
        inside = [ast.unparse(c) for c in chmods if _in_field(c, W, "body", par)]
        if late and not inside:
            O.fail(oid, {"chmod not between close and move": late,
                         "consequence": "between the move and the chmod the target holds the new content with the temp file's 0600 mode, and a failing chmod leaves it so"})
        else:
            O.ok(oid, chmod=[ast.unparse(c) for c in chmods])
    # ---- o3: handler
    T = next((x for x in _chain(W, par) if isinstance(x, ast.Try) and _in_field(W, x, "body", par)), None) if W is not None else None
    H = None
    if T is not None:
        for h in T.handlers:
            if h.type is None or (isinstance(h.type, ast.Name) and h.type.id in ("BaseException", "Exception")):
                H = h
                break
    oid = S + "o3/handler-shape"
    removes = [c for c in by("remove")]
    cleanup_names = set()
    if W is None:
        O.undec(oid, "with-block of the temp file not found")
    elif T is None:
        O.fail(oid, {"problem": "the temp-file block is not inside any try statement: a failing write/close/chmod/move leaves the temp file"})
    elif H is None or T.handlers[0] is not H:
        O.fail(oid, {"handlers": [ast.unparse(h.type) if h.type else "<bare>" for h in T.handlers],
                     "problem": "no handler catching every Exception comes first (a RuntimeError / UnicodeEncodeError escapes without clean-up)"})
    else:
        hrem = [c for c in removes if _in_field(c, H, "body", par)]
        probs, guards = [], []
        if not hrem:
            probs.append("the handler does not remove the temp file (no os.remove/os.unlink of the temp name)")
        for c in hrem:
            cleanup_names |= {x.id for x in ast.walk(c.args[0]) if isinstance(x, ast.Name)}
            for a in _chain(_stmt_of(c, par), par):
                if a is H:
                    break
                if not (isinstance(a, ast.If) and _in_field(c, a, "body", par)):
                    probs.append(f"clean-up nested in {type(a).__name__}")
                    continue
                conj = a.test.values if isinstance(a.test, ast.BoolOp) and isinstance(a.test.op, ast.And) else [a.test]
                for t in conj:
                    u = ast.unparse(t)
                    if isinstance(t, ast.Call) and K.get(t) == "exists" and len(t.args) == 1 and is_tmp_name(t.args[0]):
                        guards.append(u)
                    elif isinstance(t, ast.Compare) and len(t.ops) == 1 and isinstance(t.ops[0], ast.IsNot) and _is_none(t.comparators[0]) and is_tmp_name(t.left):
                        guards.append(u)
                    else:
                        probs.append(f"unrecognised guard `{u}` in front of the clean-up")
        last = H.body[-1]
        if not (isinstance(last, ast.Raise) and last.exc is None):
            probs.append("the handler does not end with a bare `raise`: the failure is swallowed and the caller reports success")
        if any("unrecognised" in p or "nested" in p for p in probs) and not any("does not" in p for p in probs):
            O.undec(oid, "; ".join(probs))
        elif probs:
            O.fail(oid, {"handler": ast.unparse(H)[:400], "problems": probs})
        else:
            if H.type is None or ast.unparse(H.type) == "BaseException":
                O.ok(oid, catches=ast.unparse(H.type) if H.type else "<bare>", guards=guards, removes=[ast.unparse(c) for c in hrem])
            else:
                O.fail(oid, {"handler": ast.unparse(H)[:400],
                             "problems": [f"the clean-up handler catches only `{ast.unparse(H.type)}`: a KeyboardInterrupt / SystemExit raised "
                                          "while the temp file exists is a failed write that leaves the temp file behind"]})
    # temp name visible to the handler at every site after creation
    oid = S + "o3/temp-name-known-to-handler"
    first_stmt_binds = False
    if H is None or W is None or not cleanup_names:
        O.undec(oid, "handler with a clean-up call not found")
    else:
        probs = []
        for n in sorted(cleanup_names - {tmpvar}):
            asg = _assignments(node, n)
            inits = [s for v, _, s in asg if _is_none(v) and s in node.body and any(s is b for b in node.body) and node.body.index(s) < node.body.index(next(x for x in node.body if x is T or T in _chain(x, par) or x is T))]
            if not inits:
                probs.append(f"`{n}` is not initialised (to None) before the try: when NamedTemporaryFile itself fails the handler raises UnboundLocalError")
            binds = [s for v, _, s in asg if not _is_none(v)]
            if not (binds and W.body and binds[0] is W.body[0]):
                probs.append(f"`{n} = {tmpvar}.name` is not the first statement of the with-block: a failure before it leaves a temp file the handler cannot name")
            else:
                first_stmt_binds = True
        if tmpvar in cleanup_names:
            first_stmt_binds = True
        if probs:
            O.fail(oid, {"problems": probs})
        else:
            O.ok(oid, names=sorted(cleanup_names), note=(f"handler uses {tmpvar}.name directly: NameError masks the error when creation fails (no temp file exists then)" if tmpvar in cleanup_names else None))
    # per-site table
    oid = S + "o3/sites-covered"
    sites = []
    if W is None or T is None:
        O.undec(oid, "with-block / try not found")
    else:
        def site(label, n, exists):
            inside = _in_field(n, T, "body", par)
            known = (not exists) or first_stmt_binds and (not _in_field(n, W, "body", par) or _stmt_of(n, par) is not W.body[0])
            sites.append({"site": label, "temp_file_exists": exists, "inside_try_body": inside, "name_known_to_handler": bool(known),
                          "covered": bool(inside and known and H is not None) if exists else True})
        for c in by("stat") + [c for c in by("exists") if not (H and _in_field(c, H, "body", par))]:
            site(ast.unparse(c), c, bool(_in_field(c, T, "body", par) and (c.lineno, c.col_offset) > (create.lineno, create.col_offset)))
        site("tempfile.NamedTemporaryFile(...)  [creation fails: nothing was created, the stdlib unlinks its own half-made file]", create, False)
        for c in by("write") + by("flush") + by("fsync") + by("close"):
            site(ast.unparse(c), c, True)
        site("<with exit: close of the temp file>", W, True)
        for c in by("chmod"):
            site(ast.unparse(c), c, True)
        for c in commits:
            site(ast.unparse(c) + "  [fails: temp still exists; succeeds: temp is gone]", c, True)
        for c in unknown:
            if (c.lineno, c.col_offset) > (create.lineno, create.col_offset) and not (H and _in_field(c, H, "body", par)):
                site("UNCLASSIFIED " + ast.unparse(c)[:80], c, True)
        unc = [s for s in sites if not s["covered"]]
        if unc:
            O.fail(oid, {"uncovered may-raise sites (temp file exists, no handler removes it)": unc, "all sites": sites})
        else:
            O.ok(oid, sites=sites, assumed_non_raising=sorted({ast.unparse(c.func) for c in by("pure")} | {"attribute reads", f"{tmpvar}.__enter__"}))
    # ---- o4: the mode copied is the input path's
    oid = S + "o4/mode-from-input-path"
    stats = by("stat")
    if not chmods or not stats:
        O.undec(oid, "os.stat(...) / os.chmod(<temp name>, ...) not found")
    else:
        probs = []
        statvars = set()
        for c in stats:
            if not (len(c.args) == 1 and isinstance(c.args[0], ast.Name) and c.args[0].id == P_IN):
                probs.append(f"{ast.unparse(c)}: the stat is not of the input path `{P_IN}`")
            p = par.get(c)
            if isinstance(p, ast.Assign) and len(p.targets) == 1 and isinstance(p.targets[0], ast.Name):
                statvars.add(p.targets[0].id)
        for c in chmods:
            m = c.args[1] if len(c.args) > 1 else None
            srcs = [m] if m is not None and not isinstance(m, ast.Name) else [v for v, i, _ in _assignments(node, m.id)] if m is not None else []
            if m is None or not srcs:
                probs.append(f"{ast.unparse(c)}: mode argument not traceable")
            for v in srcs:
                if _is_none(v):
                    continue
                names = {x.id for x in ast.walk(v) if isinstance(x, ast.Name)} - {"stat", "os"}
                if not (names and names <= statvars | {P_IN}) or "st_mode" not in ast.unparse(v):
                    probs.append(f"mode value `{ast.unparse(v)}` is not derived from os.stat({P_IN}).st_mode")
        if probs:
            O.fail(oid, {"problems": probs})
        else:
            O.ok(oid, stat=[ast.unparse(c) for c in stats], chmod=[ast.unparse(c) for c in chmods])
    # ---- o5: encoding / newline / text
    for oid, key, want, why in ((S + "o5/encoding-argument", "encoding", None, "the text is encoded with the locale's default encoding, not the file's"),
                                (S + "o5/newline-untranslated", "newline", "", "newline translation is applied on write (\\n -> os.linesep)")):
        if create is None:
            O.undec(oid, "no tempfile.NamedTemporaryFile call")
            continue
        v = kw.get(key)
        good = (isinstance(v, ast.Name) and v.id == P_ENC) if key == "encoding" else (v is not None and _const(v, None) == want)
        mode_ok = _const(kw.get("mode"), None) in ("w", "wt", "w+", "w+t")
        if good and mode_ok:
            O.ok(oid, **{key: ast.unparse(v), "mode": _const(kw.get("mode"), None)})
        else:
            O.fail(oid, {"NamedTemporaryFile": ast.unparse(create)[:300], key: ast.unparse(v) if v is not None else "<absent>",
                         "mode": ast.unparse(kw["mode"]) if "mode" in kw else "<absent>", "problem": why if not good else "not opened in text write mode"})
    oid = S + "o5/text-is-write_buff"
    if W is None:
        O.undec(oid, "with-block of the temp file not found")
    elif writes and len(by("write")) == len(writes):
        O.ok(oid, writes=[ast.unparse(c) for c in writes])
    else:
        O.fail(oid, {"writes": [ast.unparse(c) for c in by("write")], "problem": f"the temp file is not written with exactly `{P_BUF}`"})
    return {"file": srcfile, "sites": sites}


def analyse_persist_tree(O: _Obs):
    fn, node, srcfile = _real_function("persist_tree")
    par = _parents(node)
    calls = [n for n in ast.walk(node) if isinstance(n, ast.Call)]
    names = sorted({_dotted(c.func) or ast.unparse(c.func) for c in calls})
    oid = S + "primitives-closed[persist_tree]"
    extra = [n for n in names if n not in PERSIST_ALLOWED]
    if extra:
        O.fail(oid, {"calls outside the declared set": extra, "declared": sorted(PERSIST_ALLOWED)}, PERSIST)
    else:
        O.ok(oid, calls=names)
    ids = [S + "o6/" + x for x in ("arguments", "suffix-gives-distinct-output", "write-guarded-by-success-and-fixable", "input-path-only-read")]
    scs = [c for c in calls if _dotted(c.func) == "self._safe_create_replace_file"]
    if len(scs) != 1 or len(scs[0].args) != 4 or scs[0].keywords:
        for i in ids:
            O.undec(i, f"expected one positional 4-argument call of self._safe_create_replace_file, found {len(scs)}", PERSIST)
        return
    sc = scs[0]
    a_in, a_out, a_buf, a_enc = sc.args
    fix_asg = [n for n in ast.walk(node) if isinstance(n, ast.Assign) and isinstance(n.value, ast.Call) and _dotted(n.value.func) == "self.fix_string"
               and isinstance(n.targets[0], ast.Tuple) and len(n.targets[0].elts) == 2 and all(isinstance(e, ast.Name) for e in n.targets[0].elts)]
    buf_var, ok_var = (fix_asg[0].targets[0].elts[0].id, fix_asg[0].targets[0].elts[1].id) if len(fix_asg) == 1 else (None, None)
    probs = []
    if ast.unparse(a_in) != "self.path":
        probs.append(f"input path argument is `{ast.unparse(a_in)}`, not self.path")
    if ast.unparse(a_enc) != "self.encoding":
        probs.append(f"encoding argument is `{ast.unparse(a_enc)}`, not self.encoding")
    if buf_var is None:
        O.undec(ids[0], "`x, ok = self.fix_string()` not found", PERSIST)
    else:
        if not (isinstance(a_buf, ast.Name) and a_buf.id == buf_var and len(_assignments(node, buf_var)) == 1):
            probs.append(f"text argument `{ast.unparse(a_buf)}` is not the (unmodified) first result of self.fix_string()")
        (O.fail(ids[0], {"call": ast.unparse(sc), "problems": probs}, PERSIST) if probs else O.ok(ids[0], call=ast.unparse(sc)))
    # output path: fname = self.path ; if suffix: root, ext = splitext(fname); fname = root + suffix + ext
    oid = ids[1]
    sfx = node.args.args[1].arg if len(node.args.args) > 1 else None
    if not isinstance(a_out, ast.Name) or sfx is None:
        if ast.unparse(a_out) == "self.path":
            O.fail(oid, {"call": ast.unparse(sc), "problem": "the output path is self.path whatever the suffix: the original file is overwritten"}, PERSIST)
        else:
            O.undec(oid, f"output argument `{ast.unparse(a_out)}` is not a local name", PERSIST)
    else:
        asg = _assignments(node, a_out.id)
        base = [s for v, i, s in asg if i is None and isinstance(v, ast.expr) and ast.unparse(v) == "self.path"]
        sfxd = []
        for v, i, s in asg:
            if i is None and isinstance(v, ast.BinOp) and isinstance(v.op, ast.Add) and isinstance(v.left, ast.BinOp) and isinstance(v.left.op, ast.Add):
                r, m, e = v.left.left, v.left.right, v.right
                if isinstance(r, ast.Name) and isinstance(e, ast.Name) and isinstance(m, ast.Name) and m.id == sfx:
                    sp = [(vv, ss) for vv, ii, ss in _assignments(node, r.id) if ii == 0] and [(vv, ss) for vv, ii, ss in _assignments(node, e.id) if ii == 1]
                    if len(sp) == 1 and isinstance(sp[0][0], ast.Call) and _dotted(sp[0][0].func) == "os.path.splitext" \
                            and ast.unparse(sp[0][0].args[0]) in (a_out.id, "self.path") and _assignments(node, r.id)[0][2] is sp[0][1]:
                        guard = next((a for a in _chain(s, par) if isinstance(a, ast.If)), None)
                        if guard is not None and isinstance(guard.test, ast.Name) and guard.test.id == sfx and _in_field(s, guard, "body", par) and not guard.orelse:
                            sfxd.append(s)
        if len(asg) == 2 and len(base) == 1 and len(sfxd) == 1 and base[0].lineno < sfxd[0].lineno and _stmt_of(sc, par).lineno > sfxd[0].lineno:
            lemma = _suffix_lemma()
            if lemma["status"] == "unsat":
                O.ok(oid, output=f"{a_out.id} = self.path; if {sfx}: root, ext = os.path.splitext({a_out.id}); {a_out.id} = root + {sfx} + ext", lemma=lemma)
            else:
                O.undec(oid, f"z3 did not prove the string lemma: {lemma}", PERSIST)
        elif any(i is None and s not in base and isinstance(v, ast.expr) and not any(isinstance(x, ast.Name) and x.id == sfx for x in ast.walk(v))
                 and any(isinstance(a, ast.If) and isinstance(a.test, ast.Name) and a.test.id == sfx and _in_field(s, a, "body", par) for a in _chain(s, par))
                 for v, i, s in asg):
            O.fail(oid, {"assignments": [ast.unparse(s) for _, _, s in asg], "problem": f"the output path built under `if {sfx}:` does not contain `{sfx}`: with a suffix the original file is overwritten"}, PERSIST)
        elif len(asg) == 1 and base:
            O.fail(oid, {"assignments": [ast.unparse(s) for _, _, s in asg], "problem": f"`{sfx}` never enters the output path: the original file is overwritten although a suffix was given"}, PERSIST)
        else:
            O.undec(oid, "output path construction not recognised: " + "; ".join(ast.unparse(s)[:80] for _, _, s in asg), PERSIST)
    # guards
    oid = ids[2]
    ifs = [a for a in _chain(_stmt_of(sc, par), par) if isinstance(a, ast.If)]
    g_ok = any(isinstance(a.test, ast.Name) and a.test.id == ok_var and _in_field(sc, a, "body", par) for a in ifs)
    def _fixable(a):
        t = a.test
        return (isinstance(t, ast.Compare) and len(t.ops) == 1 and isinstance(t.ops[0], ast.Gt) and _const(t.comparators[0], None) == 0
                and isinstance(t.left, ast.Call) and _dotted(t.left.func) == "self.num_violations"
                and any(k.arg == "fixable" and _const(k.value, None) is True for k in t.left.keywords) and _in_field(sc, a, "body", par))
    g_fix = any(_fixable(a) for a in ifs)
    rebound = ok_var is not None and any(_in_field(s, a, "body", par) for a in ifs for _, _, s in _assignments(node, ok_var) if s is not (fix_asg[0] if fix_asg else None))
    if ok_var is None:
        O.undec(oid, "`x, ok = self.fix_string()` not found", PERSIST)
    elif g_ok and g_fix and not rebound:
        O.ok(oid, guards=[ast.unparse(a.test) for a in ifs])
    else:
        O.fail(oid, {"enclosing conditions": [ast.unparse(a.test) for a in ifs],
                     "problem": "the write is not inside both `if self.num_violations(fixable=True, ...) > 0` and `if <success of fix_string()>`"}, PERSIST)
    oid = ids[3]
    others = [ast.unparse(c)[:120] for c in calls if c is not sc and (_dotted(c.func) or "") not in PERSIST_ALLOWED]
    stores = [ast.unparse(_stmt_of(n, par))[:100] for n in ast.walk(node) if isinstance(n, ast.Attribute) and isinstance(n.ctx, (ast.Store, ast.Del))]
    if others or stores:
        O.fail(oid, {"other calls": others, "attribute stores": stores}, PERSIST)
    else:
        O.ok(oid, note="self.path reaches only os.path.splitext (pure), _safe_create_replace_file (as input_path: os.stat only, see o4/o1) and the formatter")


def _suffix_lemma():
    """root + suffix + ext != root + ext for every non-empty suffix (z3 string theory); splitext contract: root + ext == path."""
    try:
        import z3
        r, s, e, p = z3.Strings("root suffix ext path")
        sol = z3.Solver()
        sol.set("timeout", 10000)
        sol.add(p == z3.Concat(r, e), z3.Length(s) > 0, z3.Concat(r, s, e) == p)
        t0 = time.time()
        res = str(sol.check())
        return {"statement": "path == root + ext and len(suffix) > 0 and root + suffix + ext == path", "status": res, "backend": "z3 " + z3.get_version_string(), "time_s": round(time.time() - t0, 3)}
    except Exception as ex:  # pragma: no cover
        return {"status": "error", "error": repr(ex)}


# =====================================================================================================================
# LAYER 2 -- fault enumeration on the real code
# =====================================================================================================================
class _Injected:
    """marker mix-in: exceptions raised by the harness"""


class InjectedOSError(_Injected, OSError):
    pass


class InjectedError(_Injected, RuntimeError):
    pass


class InjectedInterrupt(_Injected, KeyboardInterrupt):
    pass


class InjectedExit(_Injected, SystemExit):
    pass


FAIL_CLASSES = {"OSError": lambda w: InjectedOSError(errno.EIO, f"injected I/O error at {w}"),
                "Exception": lambda w: InjectedError(f"injected generic error at {w}")}
KILL_CLASSES = {"SystemExit": lambda w: InjectedExit(f"injected exit at {w}"),
                "KeyboardInterrupt": lambda w: InjectedInterrupt(f"injected interrupt at {w}")}
PROXIED_MODULES = ("os", "shutil", "tempfile", "stat", "io", "pathlib", "codecs")
PURE_DYNAMIC = PURE_CALLS | {"os.path.abspath", "os.path.isabs", "os.getcwd", "os.getpid", "tempfile.gettempdir"}
PURE_FILE_METHODS = {"fileno", "__enter__", "writable", "readable", "seekable", "isatty", "tell"}


def _modes_for(name):
    """fault modes per primitive: fail = raise instead of doing it; partial = half of the text reaches the disk, then
    raise; after = the operation is carried out, then raises (error reported late / exception right after the call)"""
    last = name.rsplit(".", 1)[-1]
    if last in ("write", "writelines"):
        return ("fail", "partial")
    if last in ("__exit__", "close"):
        return ("after",)            # a failing close(2) still releases the descriptor
    if last in ("stat", "lstat", "exists", "isfile", "isdir", "NamedTemporaryFile", "open", "mkstemp"):
        return ("fail",)
    return ("fail", "after")


class Harness:
    def __init__(self):
        self.armed = False
        self.depth = 0
        self.plan = {}
        self.calls = []
        self.observer = None
        self.created = []       # names of temp files handed out by a creation primitive
        self.notes = []

    def reset(self, plan, observer):
        self.plan, self.calls, self.observer, self.created, self.notes = dict(plan), [], observer, [], []
        self.depth = 0

    def prim(self, name, fn, pure=False):
        H = self

        def wrapper(*a, **k):
            if not H.armed or H.depth:
                return fn(*a, **k)
            if pure and name not in H.plan.get("pure", ()):
                return H.wrap(name, fn(*a, **k))
            idx = len(H.calls)
            rec = {"k": idx, "name": name, "fired": None, "during_exception": sys.exc_info()[1] is not None}
            H.calls.append(rec)
            f = H.plan.get(idx) or (H.plan.get("pure", {}).get(name) if pure else None)
            H.depth += 1
            try:
                if H.observer:
                    H.observer(rec, "before", a)
                if f is not None:
                    mode, mk = f
                    rec["fired"] = mode
                    if mode == "fail":
                        raise mk(f"{name}#{idx}/fail")
                    if mode == "partial" and a and isinstance(a[0], str):
                        fn(a[0][: len(a[0]) // 2])
                        owner = getattr(fn, "__self__", None)
                        if hasattr(owner, "flush"):
                            owner.flush()
                        raise mk(f"{name}#{idx}/partial")
                res = fn(*a, **k)
                if f is not None:
                    raise f[1](f"{name}#{idx}/after")
                if H.observer:
                    H.observer(rec, "after", a)
            finally:
                H.depth -= 1
            return H.wrap(name, res)
        wrapper.__name__ = getattr(fn, "__name__", "prim")
        return wrapper

    def wrap(self, name, res):
        if isinstance(res, FileProxy):
            return res
        if hasattr(res, "write") and hasattr(res, "close") and not isinstance(res, (str, bytes)):
            label = "tmp" if name.endswith("NamedTemporaryFile") else "fh"
            nm = getattr(res, "name", None)
            if name.startswith("tempfile.") and isinstance(nm, str):
                self.created.append(nm)
            return FileProxy(self, res, label)
        if name == "tempfile.mkstemp" and isinstance(res, tuple):
            self.created.append(res[1])
        return res


class FileProxy:
    def __init__(self, H, real, label):
        object.__setattr__(self, "_H", H)
        object.__setattr__(self, "_real", real)
        object.__setattr__(self, "_label", label)

    def __getattr__(self, a):
        v = getattr(self._real, a)
        if a == "file" or (not callable(v) and hasattr(v, "write") and hasattr(v, "close")):
            return FileProxy(self._H, v, f"{self._label}.{a}")
        if not callable(v):
            return v
        return self._H.prim(f"{self._label}.{a}", v, pure=a in PURE_FILE_METHODS)

    def __setattr__(self, a, v):
        setattr(self._real, a, v)

    def __enter__(self):
        self._H.prim(f"{self._label}.__enter__", self._real.__enter__, pure=True)()
        return self

    def __exit__(self, *exc):
        return self._H.prim(f"{self._label}.__exit__", self._real.__exit__)(*exc)

    def __iter__(self):
        return iter(self._real)


class ModProxy:
    def __init__(self, H, real, label):
        self.__dict__.update(_H=H, _real=real, _label=label)

    def __getattr__(self, a):
        v = getattr(self._real, a)
        full = f"{self._label}.{a}"
        if isinstance(v, types.ModuleType):
            return ModProxy(self._H, v, full)
        if isinstance(v, type) or not callable(v):
            return v
        return self._H.prim(full, v, pure=full in PURE_DYNAMIC or self._label == "stat")


class installed:
    """replace os / shutil / tempfile / stat (+ builtin open) in the namespace of sqlfluff.core.linter.linted_file"""
    def __init__(self, H):
        self.H = H

    def __enter__(self):
        from sqlfluff.core.linter import linted_file as lfm
        self.mod = lfm
        self.saved = {}
        for n, v in list(vars(lfm).items()):
            if isinstance(v, types.ModuleType) and v.__name__ in PROXIED_MODULES:
                self.saved[n] = v
                setattr(lfm, n, ModProxy(self.H, v, v.__name__))
        self.had_open = "open" in vars(lfm)
        self.saved_open = vars(lfm).get("open")
        lfm.open = self.H.prim("open", builtins.open)
        return self

    def __exit__(self, *exc):
        for n, v in self.saved.items():
            setattr(self.mod, n, v)
        if self.had_open:
            self.mod.open = self.saved_open
        else:
            del self.mod.open
        self.H.armed = False
        return False


# ---------------------------------------------------------------------------------------------------- cases
TEXTS = {
    "empty": "",
    "ascii": "SELECT a,\r\n  b\nFROM t\r\n",                      # mixed line ends: newline="" must write them as given
    "non-ascii": "SELECT 'caf\u00e9 \u00fc\u00df' AS \u00e9t\u00e9\nFROM t\n",     # encodable in latin-1
    "bom-char": "\ufeffSELECT 1\n",                                # text that itself starts with U+FEFF
    "wide": "SELECT '\u20ac \u4e2d\u6587 \U0001f600'\n",            # not encodable in latin-1: a natural write failure
}
ENCODINGS = ("utf-8", "utf-8-sig", "latin-1", "utf-16")
PLACEMENTS = ("in-place", "suffix-new", "suffix-existing")       # output == input / output absent / output present
MODES = (0o644, 0o600, 0o755)
OLD_TEXT = "select  a,b from  t -- old \u00e9\n"
PREV_TEXT = "-- previous _fix file \u00e9\n"
OLD_TIME = 1_500_000_000


def _encode(text, enc):
    try:
        return text.encode(enc)
    except UnicodeEncodeError:
        return None


class Case:
    """one directory, one input file, one output path; restored before every run"""
    def __init__(self, base, ident, new_text, enc, placement, mode, spelling="abs", old_text=None):
        self.ident, self.new_text, self.enc, self.placement, self.mode, self.spelling = ident, new_text, enc, placement, mode, spelling
        self.dir = tempfile.mkdtemp(prefix="case_", dir=base)
        self.input = os.path.join(self.dir, "query.sql")
        self.output = self.input if placement == "in-place" else os.path.join(self.dir, "query_fix.sql")
        self.old_bytes = (OLD_TEXT if old_text is None else old_text).encode(enc, errors="replace")
        self.prev_bytes = PREV_TEXT.encode(enc, errors="replace") if placement == "suffix-existing" else None
        self.prev_mode = 0o664 if mode != 0o664 else 0o640
        self.new_bytes = _encode(new_text, enc)
        self.target_old = self.old_bytes if placement == "in-place" else self.prev_bytes        # None = absent
        self.target_old_mode = mode if placement == "in-place" else (self.prev_mode if self.prev_bytes is not None else None)

    def config(self):
        return {"text": self.ident, "encoding": self.enc, "placement": self.placement, "mode": oct(self.mode), "path_spelling": self.spelling}

    def restore(self):
        for n in os.listdir(self.dir):
            p = os.path.join(self.dir, n)
            if os.path.isdir(p) and not os.path.islink(p):
                shutil.rmtree(p)
            else:
                os.remove(p)
        for p, b, m in ((self.input, self.old_bytes, self.mode),) + (((self.output, self.prev_bytes, self.prev_mode),) if self.prev_bytes is not None else ()):
            with open(p, "wb") as fh:
                fh.write(b)
            os.chmod(p, m)
            os.utime(p, (OLD_TIME, OLD_TIME))
        self.before_names = set(os.listdir(self.dir))
        st = os.stat(self.input)
        self.input_id = (st.st_ino, st.st_mtime_ns, stat.S_IMODE(st.st_mode), st.st_size)

    def target_state(self):
        try:
            with open(self.output, "rb") as fh:
                b = fh.read()
            return b, stat.S_IMODE(os.stat(self.output).st_mode)
        except FileNotFoundError:
            return None, None

    def args(self):
        if self.spelling == "bare":
            return os.path.basename(self.input), os.path.basename(self.output)
        return self.input, self.output


def _short(b):
    return None if b is None else (repr(b[:48]) + ("..." if len(b) > 48 else ""))


class Checker:
    """invariants of C26, evaluated at every primitive boundary and at the end of every run"""
    def __init__(self, entry, idprefix):
        self.entry, self.idprefix = entry, idprefix
        self.failed = {}
        self.checks = 0

    def violation(self, fault_label, inv, case, detail):
        # stable id: the FIRST fault point only; kill class / second fault are part of the detail
        fid = f"{self.idprefix}fault[{fault_label.split('+')[0].split('!')[0]}]/{inv}"
        f = self.failed.get(fid)
        if f is None:
            self.failed[fid] = {"name": fid, "id": fid, "kind": "fault-enumeration", "status": "failed", "function": self.entry, "reproduced": True,
                                "backend": "CPython, real function under injected faults",
                                "detail": dict({"fault point": fault_label, "fault schedule": fault_label, "invariant": inv, "config": case.config()}, **detail, **{"failing configs": 1})}
        else:
            f["detail"]["failing configs"] += 1
            more = f["detail"].setdefault("further failing configs", [])
            if len(more) < 4 and case.config() not in more and case.config() != f["detail"]["config"]:
                more.append(case.config())

    def boundary(self, case, fault_label):
        def obs(rec, when, args):
            self.checks += 1
            b, m = case.target_state()
            where = f"{when} {rec['name']}#{rec['k']}"
            if b != case.target_old and b != case.new_bytes:
                self.violation(fault_label, "old-or-new@boundary", case, {"observed at": where, "a process death here leaves": _short(b), "old": _short(case.target_old), "new": _short(case.new_bytes)})
            elif b is not None and b == case.new_bytes and b != case.target_old and m != case.mode:
                self.violation(fault_label, "new-content-has-input-mode@boundary", case, {"observed at": where, "target mode": oct(m), "input mode": oct(case.mode)})
            if when == "before" and rec["name"].rsplit(".", 1)[-1] in ("move", "rename", "replace") and len(args) >= 2:
                d0, d1 = (os.path.dirname(os.path.abspath(os.fspath(x))) for x in args[:2])
                if d0 != d1:
                    self.violation(fault_label, "rename-within-one-directory", case, {"move": [str(args[0]), str(args[1])], "problem": "source and target are in different directories: not guaranteed to be one atomic rename(2)"})
        return obs

    def final(self, case, H, fault_label, exc, strict_temp, expect_success=False):
        """returns (temp_left, target is new)"""
        self.checks += 1
        b, m = case.target_state()
        left = sorted(set(os.listdir(case.dir)) - case.before_names - {os.path.basename(case.output)})
        strays = [p for p in H.created if os.path.dirname(os.path.abspath(p)) != case.dir and os.path.exists(p)]
        for p in strays:
            os.remove(p)
        if b != case.target_old and b != case.new_bytes:
            self.violation(fault_label, "old-or-new", case, {"raised": repr(exc), "target holds": _short(b), "old": _short(case.target_old), "new": _short(case.new_bytes)})
        if b is not None and b == case.new_bytes and b != case.target_old and m != case.mode:
            self.violation(fault_label, "mode-preserved", case, {"raised": repr(exc), "target mode": oct(m), "input mode": oct(case.mode)})
        if case.output != case.input:
            st = os.stat(case.input) if os.path.exists(case.input) else None
            now = (st.st_ino, st.st_mtime_ns, stat.S_IMODE(st.st_mode), st.st_size) if st else None
            with open(case.input, "rb") as fh:
                ib = fh.read() if st else None
            if now != case.input_id or ib != case.old_bytes:
                self.violation(fault_label, "suffix-input-untouched", case, {"input (inode, mtime_ns, mode, size) before": case.input_id, "after": now, "bytes": _short(ib)})
        for p in H.created:
            if os.path.dirname(os.path.abspath(p)) != case.dir:
                self.violation(fault_label, "temp-in-target-dir", case, {"temp file": p, "target directory": case.dir})
        if exc is None:
            if case.new_bytes is None:
                self.violation(fault_label, "unencodable-text-must-fail", case, {"target holds": _short(b)})
            elif b != case.new_bytes:
                self.violation(fault_label, "faithful-bytes", case, {"target holds": _short(b), "expected text.encode(encoding)": _short(case.new_bytes)})
            if left or strays:
                self.violation(fault_label, "no-temp-left-on-success", case, {"left behind": left + strays})
        else:
            if expect_success:
                self.violation(fault_label, "clean-run-succeeds", case, {"raised": repr(exc)})
            if strict_temp and (left or strays):
                self.violation(fault_label, "no-temp-left", case, {"raised": repr(exc), "left behind": left + strays})
        return bool(left or strays), (b == case.new_bytes and b != case.target_old)


def _run(H, thunk, plan, observer):
    H.reset(plan, observer)
    exc = None
    H.armed = True
    try:
        thunk()
    except BaseException as e:          # noqa: B036 -- injected SystemExit / KeyboardInterrupt are part of the experiment
        if isinstance(e, (KeyboardInterrupt, SystemExit, MemoryError)) and not isinstance(e, _Injected):
            H.armed = False
            raise
        exc = e
    H.armed = False
    return exc


def enumerate_faults(H, case, thunk, chk: Checker, stats, tier, light=False):
    """clean run, then every single fault (primitive k x mode x class), every kill, every double fault"""
    def label(rec):
        return f"{rec['name']}#{rec['k']}"

    def go(plan, lab):
        case.restore()
        exc = _run(H, thunk, plan, chk.boundary(case, lab))
        stats["evaluations"] += 1
        return exc, list(H.calls)

    def sample(kind, lab, exc, calls, left, new):
        entry = chk.entry.split(":")[-1]
        if case.ident not in ("non-ascii", "wide", "lint:ascii") or case.enc == "utf-8":
            return
        want = next((w for w in ("write#2/partial", "move#7/after", "chmod#6/fail", "fsync#4/fail/SystemExit", "move#7/fail") if w in lab), None)
        if kind in ("single-fault", "kill") and want is None:
            return
        key = (kind, entry, want)
        if key in stats["sample_keys"] or (kind.startswith("double") and any(k[0] == kind for k in stats["sample_keys"])):
            return
        stats["sample_keys"].add(key)
        stats["samples"].append({"kind": kind, "entry": entry, "config": case.config(), "fault": lab,
                                 "primitive calls": [c["name"] + ("!" + c["fired"] if c["fired"] else "") for c in calls],
                                 "raised": None if exc is None else type(exc).__name__, "target holds": "new" if new else "old",
                                 "temp file left": left})

    exc, clean = go({}, "none")
    left, new = chk.final(case, H, "none", exc, strict_temp=True, expect_success=case.new_bytes is not None)
    sample("clean" if exc is None else "natural-failure", "none", exc, clean, left, new)
    effectful = [c["name"] for c in clean]
    if case.new_bytes is not None and exc is None and not any(n.rsplit(".", 1)[-1] in ("move", "rename", "replace", "open", "write") for n in effectful):
        raise RuntimeError(f"vacuous harness: the target was written but no write-class primitive of linted_file was observed (saw {effectful})")
    stats["distinct"].add((chk.entry, case.ident, case.enc, case.placement, case.mode, case.spelling, "none"))
    stats["clean_traces"].add(tuple(effectful))
    if exc is not None:
        stats["natural_failures"] += 1
    classes = list(FAIL_CLASSES.items()) if not light else [("OSError", FAIL_CLASSES["OSError"])]
    for rec in clean:
        for mode in _modes_for(rec["name"]):
            for cname, mk in classes:
                lab = label(rec)
                exc, calls = go({rec["k"]: (mode, mk)}, lab)
                fired = any(c["fired"] for c in calls)
                if rec["during_exception"]:
                    # the clean run itself failed (text not encodable): this call belongs to the clean-up of that
                    # failure, so a fault here is a SECOND fault (excluded by assumption for the temp-file clause)
                    left, new = chk.final(case, H, lab, exc, strict_temp=False)
                    stats["double"] += 1
                    d = stats["double_outcomes"].setdefault(f"<text not encodable> then {rec['name']}/{mode}", {"runs": 0, "temp_file_left": 0})
                    d["runs"] += 1
                    d["temp_file_left"] += int(left)
                    stats["distinct"].add((chk.entry, case.ident, case.enc, case.placement, case.mode, case.spelling, lab, mode, cname, "2nd"))
                    continue
                left, new = chk.final(case, H, lab, exc, strict_temp=True)
                sample("single-fault", f"{lab}/{mode}/{cname}", exc, calls, left, new)
                stats["single"] += 1
                if fired:
                    stats["distinct"].add((chk.entry, case.ident, case.enc, case.placement, case.mode, case.spelling, lab, mode, cname))
                    stats["fired_by_primitive"][rec["name"]] = stats["fired_by_primitive"].get(rec["name"], 0) + 1
                    if exc is None:
                        stats["fault_swallowed"] += 1
                # second fault during the clean-up that the first fault triggered (excluded by assumption for temp files)
                if cname == "OSError" and fired and not (light and mode != "fail"):
                    post = [c for c in calls if c["k"] > rec["k"]]
                    for c2 in post:
                        for mode2 in _modes_for(c2["name"]):
                            lab2 = f"{lab}+{c2['name']}#{c2['k']}"
                            exc2, calls2 = go({rec["k"]: (mode, mk), c2["k"]: (mode2, FAIL_CLASSES["OSError"])}, lab2)
                            left2, new2 = chk.final(case, H, lab2, exc2, strict_temp=False)
                            if left2:
                                sample("double-fault (excluded by assumption)", f"{lab}/{mode} + {c2['name']}#{c2['k']}/{mode2}", exc2, calls2, left2, new2)
                            stats["double"] += 1
                            key = f"{rec['name']}/{mode} then {c2['name']}/{mode2}"
                            d = stats["double_outcomes"].setdefault(key, {"runs": 0, "temp_file_left": 0})
                            d["runs"] += 1
                            d["temp_file_left"] += int(left2)
                            if sum(1 for c in calls2 if c["fired"]) == 2:
                                stats["distinct"].add((chk.entry, case.ident, case.enc, case.placement, case.mode, case.spelling, lab2, mode, mode2))
            if light:
                continue
            for cname, mk in KILL_CLASSES.items():
                lab = f"{label(rec)}!{cname}"
                exc, calls = go({rec["k"]: (mode, mk)}, lab)
                # SystemExit / KeyboardInterrupt raised INSIDE the process at a primitive are failed writes like any other (the
                # interpreter is alive and the clean-up can run): "a failed write leaves no temporary file behind" applies.
                # A process that dies without unwinding cannot clean up; for it only old-or-new is demanded, and that is
                # what the boundary observer (target read before and after each primitive) decides.
                # (a fault inside the clean-up of an earlier, natural failure is a SECOND fault: excluded as for the other classes)
                left, new = chk.final(case, H, lab, exc, strict_temp=not rec["during_exception"])
                sample("kill", f"{label(rec)}/{mode}/{cname}", exc, calls, left, new)
                stats["kill"] += 1
                stats["kill_temp_left"] += int(left)
                if any(c["fired"] for c in calls):
                    stats["distinct"].add((chk.entry, case.ident, case.enc, case.placement, case.mode, case.spelling, lab, mode, cname))
    return clean


# ---------------------------------------------------------------------------------------------------- drivers
def _new_stats():
    return {"evaluations": 0, "distinct": set(), "clean_traces": set(), "natural_failures": 0, "single": 0, "double": 0, "kill": 0,
            "kill_temp_left": 0, "fault_swallowed": 0, "fired_by_primitive": {}, "double_outcomes": {}, "samples": [], "sample_keys": set()}


SQL_FIXABLE = {"ascii": "SELECT a,b  from t\r\n", "non-ascii": "SELECT a,b  from t where c = 'caf\u00e9 \u00fc'\n"}
SQL_CLEAN = "SELECT a FROM t\n"


def _lint(path, enc):
    from sqlfluff.core import FluffConfig, Linter
    cfg = FluffConfig(overrides={"dialect": "ansi", "encoding": enc, "rules": "LT01,CP01"})
    res = Linter(config=cfg).lint_paths((path,), fix=True, ignore_files=False)
    return res


class _Recorder:
    def __init__(self):
        self.seen = []

    def dispatch_persist_filename(self, filename, result):
        self.seen.append((filename, result))


def drive_safe_replace(H, base, tier, stats, chk):
    from sqlfluff.core.linter.linted_file import LintedFile
    n = 0
    for tid, text in TEXTS.items():
        for enc in ENCODINGS:
            for pl in PLACEMENTS:
                for mode in MODES + ((0o444,) if tier == "thorough" else ()):
                    # the full fault set for every configuration; kills and generic-Exception faults are identical
                    # across permission bits, so in the quick tier they run for the first mode only
                    light = tier != "thorough" and mode != MODES[0]
                    c = Case(base, tid, text, enc, pl, mode)
                    enumerate_faults(H, c, lambda c=c: LintedFile._safe_create_replace_file(*c.args(), c.new_text, c.enc), chk, stats, tier, light=light)
                    shutil.rmtree(c.dir, ignore_errors=True)
                    n += 1
    # path spelling: a bare file name (dirname == "") with the directory as cwd
    cwd = os.getcwd()
    try:
        for enc, pl in (("utf-8", "in-place"), ("utf-8-sig", "suffix-new"), ("utf-16", "suffix-existing")):
            c = Case(base, "non-ascii", TEXTS["non-ascii"], enc, pl, 0o640, spelling="bare")
            os.chdir(c.dir)
            enumerate_faults(H, c, lambda c=c: LintedFile._safe_create_replace_file(*c.args(), c.new_text, c.enc), chk, stats, tier, light=True)
            os.chdir(cwd)
            shutil.rmtree(c.dir, ignore_errors=True)
            n += 1
    finally:
        os.chdir(cwd)
    return n


def drive_async_window(H, base):
    """informational: an exception between the creation of the temp file and `tmp_name = tmp.name` (not a file-system
    operation failing; modelled by a fault in the file object's __enter__)"""
    from sqlfluff.core.linter.linted_file import LintedFile
    c = Case(base, "ascii", TEXTS["ascii"], "utf-8", "in-place", 0o644)
    c.restore()
    exc = _run(H, lambda: LintedFile._safe_create_replace_file(*c.args(), c.new_text, c.enc), {"pure": {"tmp.__enter__": ("fail", FAIL_CLASSES["Exception"])}}, None)
    left = sorted(set(os.listdir(c.dir)) - c.before_names)
    b, _ = c.target_state()
    shutil.rmtree(c.dir, ignore_errors=True)
    return {"fault": "generic Exception raised by <temp file>.__enter__ (stands for an asynchronous exception after the file was created and before its name is recorded)",
            "raised": type(exc).__name__ if exc else None, "temp file left": bool(left), "target still old": b == c.old_bytes,
            "status": "not a C26 failure point (no file-system operation fails there); reported for completeness"}


def drive_persist_tree(H, base, tier, stats, chk):
    """the real persist_tree of a really linted file, with and without suffix; plus the two no-write branches"""
    from sqlfluff.core.linter.linted_file import LintedFile
    n = 0
    info = {"no_write_cases": []}
    for enc in ENCODINGS:
        for sid, sql in SQL_FIXABLE.items():
            for pl in PLACEMENTS:
                c = Case(base, f"lint:{sid}", "", enc, pl, 0o640 if pl == "in-place" else 0o644, old_text=sql)
                c.restore()
                lf = _lint(c.input, enc).paths[0].files[0]
                fixed, ok = lf.fix_string()
                if not ok or fixed == sql or lf.encoding != enc or lf.path != c.input:
                    raise RuntimeError(f"vacuous persist_tree case: fix_string() -> ok={ok}, changed={fixed != sql}, encoding={lf.encoding}")
                c.new_text, c.new_bytes = fixed, fixed.encode(enc)
                sfx = "" if pl == "in-place" else "_fix"
                rec = _Recorder()
                enumerate_faults(H, c, lambda: lf.persist_tree(suffix=sfx, formatter=rec), chk, stats, tier, light=(tier != "thorough" and sid != "ascii"))
                if ("FIXED" not in {r for _, r in rec.seen}) or any(f != c.input for f, _ in rec.seen):
                    chk.violation("none", "formatter-told-FIXED-for-input-path", c, {"dispatch_persist_filename calls": rec.seen[:3]})
                n += 1
                if sid == "ascii" and pl != "suffix-existing":
                    # success == False: the real persist_tree over a LintedFile whose fix_string() reports failure
                    class _Failing(LintedFile):
                        __slots__ = ()

                        def fix_string(self):
                            return "BROKEN", False
                    for what, obj, want in (("fix_string() reports success=False", _Failing(*lf), False),):
                        c.restore()
                        exc = _run(H, lambda: _CACHE.__setitem__("ret", obj.persist_tree(suffix=sfx, formatter=None)), {}, None)
                        stats["evaluations"] += 1
                        changed = set(os.listdir(c.dir)) != c.before_names or c.target_state()[0] != c.target_old
                        calls = [x["name"] for x in H.calls]
                        info["no_write_cases"].append({"case": what, "encoding": enc, "suffix": sfx, "returned": _CACHE.get("ret"), "primitive calls": calls})
                        if exc is not None or changed or calls or _CACHE.get("ret") is not want:
                            chk.violation("none", "not-written-when-fix-failed", c, {"raised": repr(exc), "directory changed": changed, "primitive calls": calls, "returned": _CACHE.get("ret")})
                shutil.rmtree(c.dir, ignore_errors=True)
        # nothing fixable: persist_tree must not touch the file system and returns True
        for pl in ("in-place", "suffix-new"):
            c = Case(base, "lint:clean", "", enc, pl, 0o644, old_text=SQL_CLEAN)
            c.restore()
            lf = _lint(c.input, enc).paths[0].files[0]
            if lf.num_violations(fixable=True, filter_warning=False) != 0:
                raise RuntimeError("vacuous: the clean file has fixable violations")
            c.restore()
            exc = _run(H, lambda: _CACHE.__setitem__("ret", lf.persist_tree(suffix="" if pl == "in-place" else "_fix", formatter=None)), {}, None)
            stats["evaluations"] += 1
            changed = set(os.listdir(c.dir)) != c.before_names or c.target_state()[0] != c.target_old
            calls = [x["name"] for x in H.calls]
            info["no_write_cases"].append({"case": "no fixable violations", "encoding": enc, "placement": pl, "returned": _CACHE.get("ret"), "primitive calls": calls})
            if exc is not None or changed or calls or _CACHE.get("ret") is not True:
                chk.violation("none", "not-written-when-nothing-fixable", c, {"raised": repr(exc), "directory changed": changed, "primitive calls": calls})
            stats["distinct"].add((PERSIST, "no-fixable", enc, pl))
            shutil.rmtree(c.dir, ignore_errors=True)
    info["cases"] = n
    return info


class _MultiCase:
    def __init__(self, sfx, enc, k):
        self.cfg = {"files": 3, "suffix": sfx, "encoding": enc}

    def config(self):
        return self.cfg


def drive_persist_changes(H, base, tier, stats, chk):
    """several files: LintingResult.persist_changes over a directory of three fixable files, every fault point of the
    whole sequence.  Each target must be old-or-new on its own, no temp file may remain, inputs stay untouched with a suffix."""
    out = {"runs": 0, "prefix_property_held": 0}
    for enc, sfx in (("utf-8", ""), ("utf-8-sig", "_fix"), ("latin-1", "")) + ((("utf-16", "_fix"),) if tier == "thorough" else ()):
        d = tempfile.mkdtemp(prefix="multi_", dir=base)
        olds = {f"f{i}.sql": (f"SELECT a,b  from t{i} -- caf\u00e9\n").encode(enc) for i in range(3)}

        def restore():
            for n in os.listdir(d):
                os.remove(os.path.join(d, n))
            for n, b in olds.items():
                with open(os.path.join(d, n), "wb") as fh:
                    fh.write(b)
                os.chmod(os.path.join(d, n), 0o644)
                os.utime(os.path.join(d, n), (OLD_TIME, OLD_TIME))
        restore()
        res = _lint(d, enc)
        files = {os.path.basename(f.path): f for p in res.paths for f in p.files}
        news = {n: f.fix_string()[0].encode(enc) for n, f in files.items()}
        if sorted(files) != sorted(olds) or any(news[n] == olds[n] for n in olds):
            raise RuntimeError("vacuous multi-file case")
        order = [os.path.basename(f.path) for p in res.paths for f in p.files]
        tgt = {n: (n if not sfx else n.replace(".sql", sfx + ".sql")) for n in olds}
        mc = _MultiCase(sfx, enc, 3)

        def state():
            st = {}
            for n in olds:
                p = os.path.join(d, tgt[n])
                st[n] = open(p, "rb").read() if os.path.exists(p) else None
            return st

        def check(lab, exc, strict):
            st = state()
            for n in olds:
                allowed = (olds[n], news[n]) if not sfx else (None, news[n])
                if st[n] not in allowed:
                    chk.violation(lab, "old-or-new", mc, {"file": tgt[n], "holds": _short(st[n])})
                if sfx and (open(os.path.join(d, n), "rb").read() != olds[n] or os.stat(os.path.join(d, n)).st_mtime_ns != OLD_TIME * 10**9):
                    chk.violation(lab, "suffix-input-untouched", mc, {"file": n})
            left = sorted(set(os.listdir(d)) - set(olds) - set(tgt.values()))
            if left and strict:
                chk.violation(lab, "no-temp-left", mc, {"left behind": left, "raised": repr(exc)})
            flags = [st[n] == news[n] for n in order]
            out["prefix_property_held"] += int(flags == sorted(flags, reverse=True))
            if exc is None and not all(flags):
                chk.violation(lab, "faithful-bytes", mc, {"not written": [n for n, f in zip(order, flags) if not f]})
            return st

        def boundary(lab):
            def obs(rec, when, args):
                st = state()
                for n in olds:
                    if st[n] not in ((olds[n], news[n]) if not sfx else (None, news[n])):
                        chk.violation(lab, "old-or-new@boundary", mc, {"file": tgt[n], "observed at": f"{when} {rec['name']}#{rec['k']}", "holds": _short(st[n])})
            return obs
        thunk = lambda: res.persist_changes(formatter=None, fixed_file_suffix=sfx)
        restore()
        exc = _run(H, thunk, {}, boundary("none"))
        clean = list(H.calls)
        check("none", exc, True)
        if exc is not None:
            chk.violation("none", "clean-run-succeeds", mc, {"raised": repr(exc)})
        stats["evaluations"] += 1
        out["runs"] += 1
        out.setdefault("primitive calls in a clean run of 3 files", len(clean))
        for rec in clean:
            for mode in _modes_for(rec["name"]):
                lab = f"{rec['name']}#{rec['k']}"
                restore()
                exc = _run(H, thunk, {rec["k"]: (mode, FAIL_CLASSES["OSError"])}, boundary(lab))
                check(lab, exc, True)
                stats["evaluations"] += 1
                out["runs"] += 1
                if any(c["fired"] for c in H.calls):
                    stats["distinct"].add(("persist_changes", enc, sfx, lab, mode))
        shutil.rmtree(d, ignore_errors=True)
    return out


def fault_enumeration(tier, seed):
    if "dyn" in _CACHE:
        return _CACHE["dyn"]
    t0 = time.time()
    base = tempfile.mkdtemp(prefix="c26_faults_")
    H = Harness()
    stats = _new_stats()
    chk_safe = Checker(SAFE, "C26/")
    chk_pt = Checker(PERSIST, "C26/persist_tree/")
    chk_pc = Checker("sqlfluff.core.linter.linting_result:LintingResult.persist_changes", "C26/persist_changes/")
    timing = {}
    try:
        with installed(H):
            n_safe = drive_safe_replace(H, base, tier, stats, chk_safe)
            timing["safe_replace_s"] = round(time.time() - t0, 2)
            asyncw = drive_async_window(H, base)
            t1 = time.time()
            pt = drive_persist_tree(H, base, tier, stats, chk_pt)
            timing["persist_tree_s"] = round(time.time() - t1, 2)
            t1 = time.time()
            pc = drive_persist_changes(H, base, tier, stats, chk_pc)
            timing["persist_changes_s"] = round(time.time() - t1, 2)
    finally:
        shutil.rmtree(base, ignore_errors=True)
    failed = list(chk_safe.failed.values()) + list(chk_pt.failed.values()) + list(chk_pc.failed.values())
    excluded = {k: v for k, v in sorted(stats["double_outcomes"].items()) if v["temp_file_left"]}
    out = {
        "name": "C26-fault-enumeration",
        "bound": (f"{n_safe} configurations of _safe_create_replace_file ({len(TEXTS)} texts x {len(ENCODINGS)} encodings x {len(PLACEMENTS)} placements x "
                  f"{len(MODES) + (tier == 'thorough')} modes + 3 bare-file-name spellings), {pt['cases']} really linted files through persist_tree, "
                  f"3-file directories through persist_changes; in each: every primitive call of the clean run x fault modes {{fail, partial/after}} x "
                  f"classes {{OSError(EIO), generic Exception}} + kills {{SystemExit, KeyboardInterrupt}} + every second fault during the clean-up (tier {tier})"),
        "rule": RULE,
        "evaluations": stats["evaluations"], "distinct_nontrivial": len(stats["distinct"]),
        "samples": stats["samples"],
        "invariant_checks": chk_safe.checks + chk_pt.checks + chk_pc.checks,
        "runs": {"clean+natural-failure": stats["evaluations"] - stats["single"] - stats["double"] - stats["kill"] - pc["runs"], "single fault": stats["single"],
                 "kill (SystemExit / KeyboardInterrupt)": stats["kill"], "second fault during clean-up": stats["double"], "multi-file": pc["runs"]},
        "primitive sequences of clean runs": sorted(" > ".join(t) for t in stats["clean_traces"]),
        "faults fired per primitive (single-fault runs)": stats["fired_by_primitive"],
        "injected classes": {"checked in full (old-or-new, no temp file, input untouched)": ["OSError(errno.EIO) subclass", "RuntimeError subclass (generic Exception)"],
                             "kill-like, only old-or-new is required": ["SystemExit subclass", "KeyboardInterrupt subclass"]},
        "natural write failures (text not encodable in the encoding)": stats["natural_failures"],
        "faults swallowed (call returned normally although the fault fired)": stats["fault_swallowed"],
        "kill runs that left a temp file": stats["kill_temp_left"],
        "kill note": "a real process death cannot run any clean-up: the old-or-new state of the target at EVERY primitive boundary is what is checked "
                     "(the boundary observer reads the target before and after each primitive in every run); the injected SystemExit/KeyboardInterrupt "
                     "additionally show what the handler does when it does get to run",
        "excluded by assumption (second fault inside the clean-up leaves the temp file; old-or-new still checked and required)": excluded,
        "second faults that did NOT leave a temp file": sum(v["runs"] - v["temp_file_left"] for v in stats["double_outcomes"].values()),
        "async window (informational)": asyncw,
        "persist_tree": pt, "persist_changes": pc, "timing": timing, "wall_s": round(time.time() - t0, 2),
        "failed": failed,
    }
    _CACHE["dyn"] = out
    return out


# ---------------------------------------------------------------------------------------------------- EXTRA
WITNESS = {"o1/only-move": ("old-or-new",), "o1/temp-in-target-dir": ("temp-in-target-dir", "rename-within"), "o1/delete-false": ("clean-run", "faithful"),
           "o2/content": ("old-or-new", "faithful", "clean-run"), "o2/chmod": ("new-content-has-input-mode", "mode-preserved", "clean-run"),
           "o3/handler-shape": ("no-temp-left", "faithful", "unencodable"), "o3/": ("no-temp-left",), "o4/": ("mode-preserved", "new-content-has-input-mode"), "o5/": ("faithful", "clean-run"),
           "o6/suffix": ("suffix-input-untouched",), "o6/input": ("suffix-input-untouched",), "o6/write-guarded": ("not-written",),
           "o6/arguments": ("faithful", "mode-preserved", "suffix-input"), "primitives-closed": ("",)}


def static_obligations(tier, seed):
    t0 = time.time()
    O = _Obs(SAFE)
    info = analyse_safe_replace(O)
    analyse_persist_tree(O)
    if O.failed:
        # layer 2 is the replay of a layer-1 failure: attach the first fault point that witnesses it on the real code
        try:
            dyn = fault_enumeration(tier, seed)
            for f in O.failed:
                keys = next((v for k, v in WITNESS.items() if k in f["id"]), ())
                w = next((g for g in dyn["failed"] for k in keys if k in g["id"].rsplit("/", 1)[-1]), None)
                if w is not None:
                    f["reproduced"] = True
                    f["detail"] = dict(f["detail"], **{"reproduced by fault enumeration": {"id": w["id"], "detail": w["detail"]}})
        except Exception:
            pass
    want = ("o3/sites-covered", "o1/only-move", "o6/suffix")
    samples = [s for w in want for s in O.samples if w in s["obligation"]] + [s for s in O.samples if not any(w in s["obligation"] for w in want)]
    return {"name": "C26-exception-flow", "obligations": O.n, "discharged": O.ok_n, "failed": O.failed, "undecided": O.undecided,
            "samples": samples, "backend": BACKEND_STATIC,
            "trusted": ["python ast of the two functions, re-read from " + str(info.get("file", "<src>/sqlfluff/core/linter/linted_file.py")) + f" on every run ({time.time() - t0:.2f}s)",
                        "z3 string theory for the lemma root + suffix + ext != root + ext (suffix non-empty)"]}


EXTRA = [static_obligations]
BOUNDED = [fault_enumeration]
SHARDS = {SAFE: 3}          # ~1300 small obligations of the writer, solved by three workers


# =====================================================================================================================
# evidence texts
# =====================================================================================================================
RULE = ("one evaluation = one call of the real LintedFile._safe_create_replace_file / persist_tree / LintingResult.persist_changes in a fresh "
        "temp directory under one fault schedule (none, one fault, one kill, or a first fault plus a second fault in the calls that follow it). "
        "Fault points are not sampled: they are the ordinals of ALL calls that the function makes through os/shutil/tempfile/stat/open and through "
        "the temp file object, as recorded in the clean run of the same configuration (pure path arithmetic, stat.S_*, fileno and __enter__ excepted). "
        "A run is non-trivial when its fault actually fired (the k-th primitive was reached and raised) or, for a clean run, when the target was "
        "rewritten with different bytes; distinct = distinct (entry point, text, encoding, placement, mode, path spelling, fault point(s), fault mode, class)")

EXPLANATION = (
    "C26 has three layers over the real source. "
    "LAYER 0, deductive (pyvc, contracts/c26_fs.py): LintedFile._safe_create_replace_file is symbolically executed (about 325 paths: every "
    "primitive call returning or raising, the handler's own calls returning or raising) against a contract written from the property text over a "
    "GHOST FILE SYSTEM. A path is identified with the directory entry it names (ghost fields: exists, text, codec, newline handling, st_mode, "
    "directory, creation stamp); one file-system object carries a fault counter and the temp-file creation history. Every primitive the function "
    "calls (os.stat, stat.S_ISREG/S_IMODE, os.path.split/splitext, tempfile.NamedTemporaryFile, <file>.write/flush/fileno, os.fsync, the with-exit "
    "= close, os.chmod, shutil.move, os.path.exists, os.remove; also open / os.replace so that changed code is decided) has an ASSUMED contract "
    "with its effect on the ghost state when it returns and the state it leaves when it raises; each may raise OSError (or a subclass) and "
    "KeyboardInterrupt at any call, write also UnicodeEncodeError, and a raising write / close leaves ARBITRARY partial content. shutil.move is "
    "assumed atomic only under its precondition `source and target are in one directory`; that precondition is an obligation of the call site "
    "(call-pre[move]) and is proved from the code's dir=dirname / os.path.split(output_path). Proved: post[ensures.*] on every normal return the "
    "target holds exactly write_buff in the given encoding (utf-8-sig / utf-16 write their BOM: the codec IS the file's encoding) with newlines "
    "untranslated and, when the input is a regular file, the input's permission bits; the input entry is unchanged when the target is another "
    "entry; no temp file created during the call still exists. raises-post[<class>.1..4] on EVERY raising path (any primitive, any class incl. "
    "KeyboardInterrupt): (.1) the target holds its complete original content (or is still absent) or the complete fixed content with the right "
    "mode, (.2) the input is unchanged when it is another entry, (.3) at least one fault was counted, (.4) if exactly ONE fault occurred no temp "
    "file is left (a second fault -- in the handler's os.path.exists / os.remove, or a failing close after a failing write -- is excluded from "
    "this clause exactly as in the fault enumeration; clauses .1/.2 are proved under any number of faults). A process death at a primitive "
    "boundary leaves the state in which that primitive's raising exit starts, and the handler provably touches only the temp entry, so clause .1 "
    "on all raising paths is old-or-new at every failure point. LintedFile.persist_tree, LintedDir.persist_changes and the apply_fixes statements "
    "of Linter.lint_paths (region contract) are verified over path STRINGS (z3 strings) with the call of the writer replaced by a ghost recorder: "
    "at most one write per file, exactly when there are fixable violations and fix_string() reports success, with input = self.path, text = "
    "fix_string()'s text, encoding = self.encoding, target = self.path without a suffix and a path DIFFERENT from self.path with one (root + "
    "suffix + ext != root + ext, proved in z3's string theory inside the function's VC), and the callers hand the suffix through unchanged. "
    "LAYER 2, dynamic (fault enumeration, the level this property is claimed at): the module objects os, shutil, tempfile, stat (and a module-"
    "level `open`) inside sqlfluff.core.linter.linted_file are replaced by "
    "proxies, so every call the two functions make to the outside is recorded, can be made to raise, and is bracketed by an observer that reads "
    "the target file before and after it. Checked in every run: (1) at every primitive boundary and at the end the target holds exactly its old "
    "bytes (or is absent, for a new suffix file) or exactly text.encode(encoding) -- this is the state a process death at that point would "
    "leave; (2) whenever the target holds the new bytes its permission bits are the input file's; (3) if the call raised after an injected "
    "OSError / generic Exception, the directory contains no name it did not contain before (except the finished target); (4) on normal return the "
    "bytes are text.encode(encoding) (BOM present for utf-8-sig and utf-16, CRLF/LF kept as given), the mode is the input's, no temp file "
    "remains; (5) with a suffix the input's bytes, inode, mtime and mode are unchanged in every run, failed or not; (6) the temp file is created "
    "in the target's directory and the move is within one directory; (7) persist_tree does not touch the file system when nothing is fixable or "
    "fix_string() reports failure. Faults in the clean-up itself (os.path.exists / os.remove inside the handler, or anything called while the "
    "first failure is propagating) are enumerated too: old-or-new is still required there, but a temp file left behind by such a SECOND fault is "
    "listed under 'excluded by assumption' and not counted as a violation (DESIGN.md: a second fault during clean-up is assumed not to happen). "
    "Kill-like SystemExit/KeyboardInterrupt are injected at every primitive as well. The enumeration runs the real os / CPython io, so it is also "
    "the validation of layer 0's assumed primitive contracts (what close, chmod, move, a partial write really leave behind). "
    "LAYER 1, static (18 obligations C26/static/*): the classified calls are the only calls of the two functions (so the dynamic proxies see "
    "everything and layer 0's primitive table is complete); output_path reaches only pure path arithmetic and the single shutil.move(<temp name>, "
    "output_path); the temp file is created "
    "with dir=dirname(output_path), delete=False, mode='w', encoding=<the encoding argument>, newline=''; write/flush/fsync are inside the "
    "with-block, close, chmod and move follow in that order; every may-raise site after the creation lies in the body of a try whose first "
    "handler catches BaseException, removes the temp file (guarded by `is not None` / os.path.exists) and re-raises, and the handler knows the "
    "name because `tmp_name = tmp.name` is the first statement of the with-block; the mode comes from os.stat(input_path); in persist_tree the "
    "output is self.path or root + suffix + ext, guarded by the fixable count and by fix_string()'s success flag.")

TRUSTED = [
    "rename(2) within one directory is atomic (shutil.move -> os.rename when source and target are on one file system): the target is never observable between old and new INSIDE the move",
    "the proxied primitives are the only side-effecting calls of _safe_create_replace_file / persist_tree: verified on every run by C26/static/primitives-closed[*] (an unclassified call fails the check)",
    "tempfile.NamedTemporaryFile removes its own half-created file when it fails internally; the creation primitive is faulted as a whole",
    "os.path.split/splitext, stat.S_ISREG/S_IMODE, <file>.fileno, <file>.__enter__ and attribute reads do not fail for file-system reasons (no fault is injected there)",
    "fault model: an operation either does nothing and raises, is carried out and then raises, or (write) puts half of the text on disk and raises; close always releases the descriptor",
    "CPython io / codecs: what TextIOWrapper writes for one write() from position 0 is compared against str.encode(encoding), not assumed",
    # ---- layer 0 (pyvc)
    "pyvc layer, abstraction: in the contract of _safe_create_replace_file a path (str) is identified with the directory entry it names (the function only "
    "hands paths to os/shutil/tempfile); one path names one entry for the duration of the call (F1); nothing is assumed about whether two paths name the same entry",
    "pyvc layer, model classes (contracts/c26_fs.py): FileModel stands for tempfile._TemporaryFileWrapper AND the TextIOWrapper behind it (tmp.file is tmp), its "
    "with-exit is close (model hook _close_hook: the written text reaches the entry at close with the codec / newline handling of the open call; a failing close "
    "leaves arbitrary content); flush / fsync / fileno have no effect on the modelled state (they can only raise)",
    "pyvc layer, every assumed primitive contract (listed individually above as `assumed contract: ...`) including its exceptional postcondition; in particular "
    "shutil.move / os.replace within ONE directory either happened completely or not at all, also when the call raises; os.stat raises FileNotFoundError exactly "
    "when the entry does not exist; os.chmod keeps the file type and sets the 12 permission bits; NamedTemporaryFile creates a NEW entry (creation stamp later than "
    "that of every entry the caller can name, i.e. it is none of them) in `dir`, and creates nothing when it raises",
    "pyvc layer, fault classes: OSError+ and KeyboardInterrupt at every primitive (os.stat: FileNotFoundError / PermissionError / KeyboardInterrupt; write also "
    "UnicodeEncodeError) stand for every exception class; handlers are matched by the class hierarchy only",
    "pyvc layer, persist_tree and its callers: the call of _safe_create_replace_file is replaced by a ghost RECORDER of its arguments (no file-system claim); that a "
    "path string different from self.path names a different file than self.path is the reading of `the original file is never modified` at this level "
    "(symlinks / hard links / `..` inside the suffix are not modelled); num_violations(fixable=True, filter_warning=False) and fix_string() are ghost views "
    "(g_fixable, fixed_text, fix_ok) as in contracts/c18.py",
    "pyvc engine addition (pyvc/stmts.py call_contract): the hint_on_raise of an ASSUMED (external) contract is assumed on its raising exit after the havoc of "
    "`modifies` (before: nothing could be said about the state a raising primitive leaves)",
]
NOT_COVERED = [
    "durability after power loss (whether fsync of the file and of the directory make the rename durable) -- only process-level failure points are modelled",
    "a second fault inside the clean-up (os.path.exists / os.remove failing in the handler) leaves the temp file: enumerated and reported under 'excluded by assumption', not required to hold",
    "asynchronous exceptions between two bytecodes (e.g. KeyboardInterrupt after the temp file exists and before `tmp_name = tmp.name`): reported as 'async window', not a file-system failure point",
    "targets that are symlinks or hard links (rename replaces the link itself), ownership (uid/gid), ACLs and extended attributes are not preserved by design and not checked",
    "Windows semantics (open files cannot be removed/renamed; os.chmod only toggles read-only): the enumeration runs on POSIX",
    "a move across file systems is not exercised: it cannot occur while the temp file is created in the target's directory (that is checked statically and at run time)",
    "cli.commands fix/format and the rest of Linter.lint_paths(apply_fixes=True) (only its writing statements are a region contract here): which files are persisted and exit codes belong to C22/C18",
    "fix_string()'s content (what the fixed text is) belongs to C10/C11/C30; here the text handed to the writer is taken as given",
    "pyvc layer: the committing effect of flush()/fsync() is not modelled (content reaches the entry at close): code that renames the still-open temp file after "
    "flush+fsync would be reported although on POSIX its content is complete (the static layer reports that shape too); an explicit tmp.close() / shutil.copyfile "
    "has no contract (undecided, not failed)",
    "pyvc layer: a NamedTemporaryFile(delete=True) variant always fails at chmod/move in the model and therefore satisfies the contract vacuously (every path "
    "raises with the target untouched); `the clean run succeeds` is a clause of the fault enumeration only",
    "pyvc layer: LintingResult.persist_changes (a generator expression over LintedDir.persist_changes) and the rest of Linter.lint_paths are not under contract; "
    "the 3-file runs of the fault enumeration go through them",
]
ASSUMPTIONS = [
    "F1 single-threaded, no concurrent writer on the same directory during a fix",
    "F2 at most one failure per write, or a second failure anywhere except in the clean-up pair os.path.exists/os.remove for the temp-file clause (old-or-new is checked under double faults too)",
    "F3 POSIX file system with atomic same-directory rename",
]

# =====================================================================================================================
# must-fail mutants
# =====================================================================================================================
_F = "sqlfluff/core/linter/linted_file.py"
_M_DIRECT_OLD = """        tmp_name: Optional[str] = None
        try:
            with tempfile.NamedTemporaryFile(
                mode="w",
                encoding=encoding,
                newline="",  # NOTE: No newline conversion. Write as read.
                prefix=basename,
                dir=dirname,
                suffix=os.path.splitext(output_path)[1],
                delete=False,
            ) as tmp:
                tmp_name = tmp.name
                tmp.file.write(write_buff)
                tmp.flush()
                os.fsync(tmp.fileno())
            # Once the temp file is safely written, replace the existing file.
            if mode is not None:
                os.chmod(tmp_name, mode)
            shutil.move(tmp_name, output_path)
"""
_M_DIRECT_NEW = """        tmp_name: Optional[str] = None
        try:
            with open(output_path, "w", encoding=encoding, newline="") as tmp:
                tmp.write(write_buff)
                tmp.flush()
                os.fsync(tmp.fileno())
            if mode is not None:
                os.chmod(output_path, mode)
"""
MUTANTS = [
    ("write_directly_to_output", _F, _M_DIRECT_OLD, _M_DIRECT_NEW),
    ("cleanup_removed", _F, "            if tmp_name is not None and os.path.exists(tmp_name):\n                os.remove(tmp_name)\n            raise\n", "            raise\n"),
    ("chmod_after_move", _F, "            if mode is not None:\n                os.chmod(tmp_name, mode)\n            shutil.move(tmp_name, output_path)\n",
     "            shutil.move(tmp_name, output_path)\n            if mode is not None:\n                os.chmod(output_path, mode)\n"),
    ("temp_in_system_tmpdir", _F, "                dir=dirname,\n", ""),
    ("encoding_dropped", _F, "                encoding=encoding,\n", ""),
    ("suffix_ignored", _F, "                    fname = root + suffix + ext\n", "                    fname = root + ext\n"),
    ("mode_from_output", _F, "            status = os.stat(input_path)\n", "            status = os.stat(output_path)\n"),
    ("handler_only_oserror", _F, "        except BaseException:\n", "        except OSError:\n"),
    ("name_recorded_after_write", _F, "                tmp_name = tmp.name\n                tmp.file.write(write_buff)\n", "                tmp.file.write(write_buff)\n                tmp_name = tmp.name\n"),
    ("newline_translation", _F, '                newline="",  # NOTE: No newline conversion. Write as read.\n', '                newline="\\r\\n",\n'),
    ("handler_swallows", _F, "                os.remove(tmp_name)\n            raise\n", "                os.remove(tmp_name)\n"),
    ("write_despite_failed_fix", _F, "            if success:\n                fname = self.path", "            if success or write_buff:\n                fname = self.path"),
    ("move_inside_with", _F, "                os.fsync(tmp.fileno())\n", "                os.fsync(tmp.fileno())\n                shutil.copyfile(tmp_name, output_path)\n"),
    # ---- added with the pyvc layer (each is caught by the pyvc obligation ids listed in PYVC_CATCHES below)
    ("handler_narrowed_to_exception", _F, "        except BaseException:\n", "        except Exception:\n"),
    ("chmod_dropped", _F, "            if mode is not None:\n                os.chmod(tmp_name, mode)\n            shutil.move(tmp_name, output_path)\n",
     "            shutil.move(tmp_name, output_path)\n"),
    ("text_truncated_write", _F, "                tmp.file.write(write_buff)\n", "                tmp.file.write(write_buff[:65536])\n"),
    ("persist_tree_stats_the_target", _F, "                    self.path, fname, write_buff, self.encoding\n", "                    fname, fname, write_buff, self.encoding\n"),
    ("persist_tree_default_encoding", _F, "                    self.path, fname, write_buff, self.encoding\n", "                    self.path, fname, write_buff, \"utf-8\"\n"),
    ("persist_tree_writes_without_fixable", _F, "        if self.num_violations(fixable=True, filter_warning=False) > 0:\n            write_buff, success = self.fix_string()",
     "        if self.num_violations(fixable=True, filter_warning=False) >= 0:\n            write_buff, success = self.fix_string()"),
    ("persist_changes_drops_suffix", "sqlfluff/core/linter/linted_dir.py", "                suffix=fixed_file_suffix, formatter=formatter\n", "                formatter=formatter\n"),
    ("lint_paths_drops_suffix", "sqlfluff/core/linter/linter.py", "                            suffix=fixed_file_suffix, formatter=self.formatter\n", "                            formatter=self.formatter\n"),
]

# which pyvc obligation (stable id, as printed in the VIOLATION lines / evidence) decides each mutant and seeded change; W = the writer, P = persist_tree
_W = "C26/sqlfluff.core.linter.linted_file.LintedFile._safe_create_replace_file/"
_P = "C26/sqlfluff.core.linter.linted_file.LintedFile.persist_tree/"
PYVC_CATCHES = {
    "write_directly_to_output": _W + "raises-post[*.1] (target neither old nor complete-new when write / close raises)",
    "cleanup_removed": _W + "raises-post[*.4] (temp file left after a single fault)",
    "chmod_after_move": _W + "raises-post[*.1] (new content with the temp file's mode when chmod raises)",
    "temp_in_system_tmpdir": _W + "call-pre[move] (source and target not known to be in one directory)",
    "encoding_dropped": _W + "post[ensures.3] + raises-post[*.1]",
    "mode_from_output": _W + "post[ensures.5] + raises-post[*.1]",
    "handler_only_oserror": _W + "raises-post[KeyboardInterrupt.4] / raises-post[UnicodeEncodeError.4]",
    "handler_narrowed_to_exception": _W + "raises-post[KeyboardInterrupt.4]   (= seeded C26_A)",
    "name_recorded_after_write": _W + "raises-post[*.4] at the write",
    "newline_translation": _W + "post[ensures.4] + raises-post[*.1]",
    "handler_swallows": _W + "post[ensures.1..5] (normal return with the old content)",
    "chmod_dropped": _W + "post[ensures.5] + raises-post[*.1]",
    "text_truncated_write": "NOT decided by pyvc (z3 answers sat, the bounded refutation encoding has texts of length <= 3 for which the slice is the whole "
                            "text: undecided); static o2 / o5 + enumeration",
    "persist_tree_stats_the_target": _P + "post[ensures.3] + raises-post[BaseException.4]",
    "persist_tree_default_encoding": _P + "post[ensures.5] + raises-post[BaseException.6]",
    "persist_tree_writes_without_fixable": _P + "post[ensures.2] + raises-post[BaseException.2]",
    "persist_changes_drops_suffix": "C26/sqlfluff.core.linter.linted_dir.LintedDir.persist_changes/inv-preserve[1.3]",
    "lint_paths_drops_suffix": "C26/sqlfluff.core.linter.linter.Linter.lint_paths#apply-fixes-write/post[ensures.8]   (pyvc only: not on the enumeration's routes)",
    "suffix_ignored": _P + "post[ensures.6] + raises-post[BaseException.7]",
    "write_despite_failed_fix": _P + "post[ensures.2] + raises-post[BaseException.3]",
    "seeded C26_B (direct write when the target does not exist)": _W + "raises-post[*.1]",
    "move_inside_with": "NOT decided by pyvc (shutil.copyfile has no contract: undecided); static o1 + enumeration",
}
