"""C04 -- parse, lint and fix never crash.   Functions under contract (pyvc):
   the two parse limits (this module)
     sqlfluff.core.parser.context: ParseContext.increment_parse_nodes, ParseContext.deeper_match,
                                   ParseContext._set_terminators, ParseContext._reset_terminators
     The limits raise SQLParseError -- the class the linter's funnels turn into a PRS violation -- and nothing else, and
     `deeper_match` restores the context (depth, segment name, terminators, progress flag) on every normal exit.
   the exception funnels (contracts/c04_funnels.py): Linter._parse_tokens (two region contracts), Linter.render_string (region),
     BaseRunner._handle_lint_path_exception, SequentialRunner.run, ParallelRunner._apply, DelayedException.reraise,
     ParallelRunner.run (region): against ASSUMED contracts of the guarded callees (which exception classes they may raise) every
     try/except of these functions is executed symbolically: what the callee may raise is caught and turned into a violation /
     a DelayedException / a logged error, and nothing but the documented classes (OSError, BdbQuit) leaves.
"Nothing raises for any input" over lexer, parser and 70 rules is whole-repository proof and is NOT decided: the callee contracts
of the funnels are assumptions; contracts/c04_bounded.py samples them (labelled stand-ins, not proofs).
"""
from pyvc.dsl import contract, external, spec, lemma, implies, iff, inline, ref_class, rec_class
from pyvc.ty import INT, BOOL, Text, TList, TTuple, TOpt, SINK, TOpaque

PROP = "C04"
# Not `proof`: one generated obligation (SequentialRunner.run#render-phase/no-raise) fails on the unchanged tree and is a recorded
# known finding, so discharged != obligations; and "nothing raises for any input" over lexer, parser and rules is not decided.
LEVEL = "other"
EXPLANATION = ("Contract-based deductive verification (pyvc: VCs from the real source, z3) of the two parse limits and of the exception "
               "funnels (_parse_tokens, render_string, the runners): the exception classes an assumed callee contract allows are caught "
               "and turned into violations, nothing else escapes. All obligations are discharged except the render-phase clause of "
               "SequentialRunner.run, a genuine recorded defect (known_findings.json). Plus syntactic exception-flow obligations and "
               "bounded fuzz / limit runs (labelled). Counts: coverage.obligations / discharged / failed_obligations.")

Matchable = TOpaque("Matchable")
ParseContext = ref_class("sqlfluff.core.parser.context:ParseContext",
                         current_parse_nodes=INT, max_parse_nodes=INT, match_depth=INT, max_parse_depth=INT,
                         match_segment=Text, _match_stack=TList(Text), terminators=TList(Matchable), track_progress=BOOL)


@contract("sqlfluff.core.parser.context:ParseContext.increment_parse_nodes", PROP)
class increment_parse_nodes:
    types = {"self": ParseContext, "count": INT}
    modifies = ["self.current_parse_nodes"]
    # over the node budget: SQLParseError exactly then (a limit of 0 disables the check); a negative count is a
    # programming error of the caller (AssertionError)
    raises = {"SQLParseError": lambda self, count: count >= 0 and self.max_parse_nodes > 0
              and self.current_parse_nodes + count > self.max_parse_nodes,
              "AssertionError": lambda self, count: count < 0}

    def ensures(self, count, result, old):
        return self.current_parse_nodes == old.self.current_parse_nodes + count


@contract("sqlfluff.core.parser.context:ParseContext._set_terminators", PROP)
class set_terminators:
    types = {"self": ParseContext, "clear_terminators": BOOL, "push_terminators": TOpt(TList(Matchable)),
             "_appended": INT, "_terminators": TList(Matchable)}
    ret = TTuple(INT, TList(Matchable))
    modifies = ["self.terminators"]

    def ensures(self, clear_terminators, push_terminators, result, old):
        return (
            # the second component is always the original tuple
            result[1] == old.self.terminators and result[0] >= 0
            and ((result[0] == 0) if (clear_terminators and len(old.self.terminators) > 0) else
                 # otherwise only appended to: the original is a prefix, `appended` more at the end
                 (len(self.terminators) == len(old.self.terminators) + result[0]
                  and all(self.terminators[j] == old.self.terminators[j] for j in range(len(old.self.terminators))))))

    def inv_1(self, _appended, old):
        return (_appended >= 0 and len(self.terminators) == len(old.self.terminators) + _appended
                and all(self.terminators[j] == old.self.terminators[j] for j in range(len(old.self.terminators))))


@contract("sqlfluff.core.parser.context:ParseContext._reset_terminators", PROP)
class reset_terminators:
    types = {"self": ParseContext, "appended": INT, "terminators": TList(Matchable), "clear_terminators": BOOL}
    modifies = ["self.terminators"]

    def requires(self, appended, terminators, clear_terminators):
        return 0 <= appended <= len(self.terminators)

    def ensures(self, appended, terminators, clear_terminators, result, old):
        return (self.terminators == terminators if clear_terminators else
                (len(self.terminators) == len(old.self.terminators) - appended
                 and all(self.terminators[j] == old.self.terminators[j] for j in range(len(self.terminators)))))


@contract("sqlfluff.core.parser.context:ParseContext.deeper_match", PROP)
class deeper_match:
    types = {"self": ParseContext, "name": Text, "clear_terminators": BOOL, "push_terminators": TOpt(TList(Matchable)),
             "track_progress": TOpt(BOOL)}
    ghost_yield = ParseContext
    modifies = ["self.match_depth", "self.match_segment", "self._match_stack", "self.terminators", "self.track_progress"]
    # too deep: SQLParseError exactly then (0 disables the limit)
    raises = {"SQLParseError": lambda self, name, clear_terminators, push_terminators, track_progress:
              self.max_parse_depth > 0 and self.match_depth + 1 > self.max_parse_depth,
              "AssertionError": lambda self, name, clear_terminators, push_terminators, track_progress:
              track_progress is True and not self.track_progress}

    def ensures(self, name, clear_terminators, push_terminators, track_progress, result, old):
        # the `with` block sees the context one level deeper, and leaving it restores everything
        return (len(result) == 1 and result[0] is self
                and self.match_depth == old.self.match_depth
                and self.match_segment == old.self.match_segment
                and self._match_stack == old.self._match_stack
                and self.terminators == old.self.terminators
                and self.track_progress == old.self.track_progress)


TRUSTED = ["the body of a `with ctx.deeper_match(...)` block leaves depth / stack / terminators as it found them (nested "
           "deeper_match calls restore them by this same contract: induction over nesting, not mechanised)"]
NOT_COVERED = ["everything else that C04 states: exceptions of any class raised inside lexing, parsing or the ~70 rules reach the "
               "funnels or the caller unexamined (the funnels are proved against ASSUMED exception classes of their callees; "
               "bounded runs sample those assumptions)"]
from . import c04_bounded as _c04b  # noqa: E402
from . import c04_funnels as _c04f  # noqa: E402  (the funnels under pyvc contracts; registers its contracts on import)

TRUSTED = TRUSTED + list(_c04f.TRUSTED)
NOT_COVERED = NOT_COVERED + list(_c04f.NOT_COVERED) + list(_c04b.NOT_COVERED)
EXTRA = list(_c04b.EXTRA)
BOUNDED = list(_c04b.BOUNDED)
MUTANTS = list(_c04b.MUTANTS) + list(_c04f.MUTANTS) + [
    ("nodes_limit_ge", "sqlfluff/core/parser/context.py", "        if self.max_parse_nodes > 0 and self.current_parse_nodes > self.max_parse_nodes:", "        if self.max_parse_nodes > 0 and self.current_parse_nodes > self.max_parse_nodes + 1:"),
    ("nodes_limit_wrong_class", "sqlfluff/core/parser/context.py", "            raise SQLParseError(\n                f\"Maximum parse node count exceeded", "            raise RuntimeError(\n                f\"Maximum parse node count exceeded"),
    ("depth_not_restored", "sqlfluff/core/parser/context.py", "            self.match_depth -= 1\n            # Reset back to old name", "            # Reset back to old name"),
    ("depth_limit_zero_means_zero", "sqlfluff/core/parser/context.py", "        if self.max_parse_depth > 0 and self.match_depth > self.max_parse_depth:", "        if self.match_depth > self.max_parse_depth:"),
    ("terminators_trim_one_short", "sqlfluff/core/parser/context.py", "            self.terminators = self.terminators[:-appended]", "            self.terminators = self.terminators[: -appended - 1]"),
    ("terminators_reset_skipped_on_clear", "sqlfluff/core/parser/context.py", "        if clear_terminators:\n            self.terminators = terminators", "        if clear_terminators and appended:\n            self.terminators = terminators"),
]
