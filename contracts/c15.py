"""C15 -- capitalisation fixes change only letter case.   BOUNDED STAND-IN: nothing here is a proof.

Property text: "Fixing with only capitalisation rules produces output equal to the input except for the letter case of
unquoted keywords, identifiers, function names, type names and boolean/null literals. Quoted identifiers, string
literals, comments and whitespace are unchanged."

`Rule_CP01._handle_segment` (inherited unchanged by CP02..CP05) uses regex.sub with lambdas, a dict as memory and
try/except AttributeError, none of which the pyvc engine models, so no function is put under a symbolic contract.
The contracts below are plain Python predicates executed by CPython on the real objects:

 layer 1  the executable contract of `_handle_segment`: a result with fixes has exactly one fix, shaped like
          `LintFix.replace(segment, [segment.edit(fixed_raw)])`, and `case_eq(fixed_raw, segment.raw)`; one clause per
          (rule, policy branch).  Driven (a) directly, on the RuleContexts the real linter built, over every token text
          of a small alphabet, (b) by a spy around the method in every real lint run of layers 2 and 3.
 layer 2  crawl targets: constant data of the five rule classes (EXTRA, exhaustive) + a walk over every dialect
          grammar for token parsers that give a quoted token a targeted type (EXTRA, exhaustive over the traversal)
          + dynamically, every fix anchor seen in the real runs lies in the allowed family.
 layer 3  end to end: Linter.lint_string(sql, fix=True).fix_string() compared token-wise with the input.

`case_eq(a, b) := norm(a) == norm(b)`, `norm(x) = x.upper().casefold()`; its laws are self-checked (EXTRA).
"""
from __future__ import annotations

import dataclasses
import glob
import itertools
import json
import multiprocessing as mp
import os
import random
import time
from collections import Counter

from sqlfluff.core import FluffConfig, Linter
from sqlfluff.core.dialects import dialect_readout, dialect_selector
from sqlfluff.core.errors import SQLLexError, SQLParseError, SQLTemplaterError
from sqlfluff.core.parser import Lexer
from sqlfluff.core.parser.grammar.base import BaseGrammar
from sqlfluff.core.parser.parsers import BaseParser, MultiStringParser, RegexParser, StringParser, TypedParser
from sqlfluff.core.parser.segments.base import BaseSegment
from sqlfluff.core.parser.segments.meta import TemplateSegment
from sqlfluff.core.plugin.host import get_plugin_manager
from sqlfluff.core.rules import LintFix, LintResult, RuleContext

get_plugin_manager()    # load the rule plugins first: importing a rule class before that prints a warning per class
from sqlfluff.rules.capitalisation import get_configs_info as _cap_config_info
from sqlfluff.rules.capitalisation.CP01 import Rule_CP01
from sqlfluff.rules.capitalisation.CP02 import Rule_CP02
from sqlfluff.rules.capitalisation.CP03 import Rule_CP03
from sqlfluff.rules.capitalisation.CP04 import Rule_CP04
from sqlfluff.rules.capitalisation.CP05 import Rule_CP05

import logging as _logging
_logging.getLogger("sqlfluff").addHandler(_logging.NullHandler())      # a rule exception is logged at CRITICAL: keep the tracebacks out of the check output

PROP = "C15"
LEVEL = "exploration"
EXHAUSTIVE = False
NATIVE_TRIES = {"quick": 0, "thorough": 0}
ROOT = os.path.dirname(os.path.dirname(os.path.abspath(__file__)))
FIXTURES = "/repo/test/fixtures/dialects"
F_HANDLE = "sqlfluff.rules.capitalisation.CP01:Rule_CP01._handle_segment"
F_E2E = "sqlfluff.core.linter.linter:Linter.lint_string + LintedFile.fix_string"
BACKEND = "CPython (bounded evaluation of the executable contract)"

RULES = {"CP01": Rule_CP01, "CP02": Rule_CP02, "CP03": Rule_CP03, "CP04": Rule_CP04, "CP05": Rule_CP05}
RULE_NAMES = {"CP01": "capitalisation.keywords", "CP02": "capitalisation.identifiers", "CP03": "capitalisation.functions",
              "CP04": "capitalisation.literals", "CP05": "capitalisation.types"}
BASIC = ["consistent", "upper", "lower", "capitalise"]
E2E_POLICIES = ["consistent", "upper", "lower", "capitalise", "pascal", "camel", "snake"]


# ===================================================================================================== the vocabulary
def norm(x):
    """letter-case normaliser: full upper-casing then case folding, both context-free per code point in CPython"""
    return x.upper().casefold()


def case_eq(a, b):
    """`a` and `b` differ at most in letter case"""
    return norm(a) == norm(b)


def policy_key(rule_code):
    """the configuration keyword that holds the policy of a rule, read from the rule class (not hard-wired)"""
    return next(k for k in RULES[rule_code].config_keywords if k.endswith("capitalisation_policy"))


def policy_options(rule_code):
    """the values the real configuration validation offers for that keyword (first = 'consistent')"""
    return list(_cap_config_info()[policy_key(rule_code)]["validation"])


def make_config(dialect, policy, rules="CP01,CP02,CP03,CP04,CP05"):
    """`policy` for every selected rule that offers it; rules that do not offer it (CP01/CP04 have no pascal/camel/snake) get 'consistent'"""
    rc = {}
    for code, name in RULE_NAMES.items():
        rc[name] = {policy_key(code): policy if policy in policy_options(code) else "consistent"}
    return FluffConfig(configs={"core": {"dialect": dialect, "rules": rules}, "rules": rc})


# what a token delimited like this is, per the property text (used for diagnosis and for the anchor clause)
def delimiter_kind(raw):
    s = raw
    if not s:
        return None
    if s.isspace():
        return "whitespace"
    if s.startswith("--") or s.startswith("#") and len(s) > 1 and s[1] in " !" or s.startswith("//"):
        return "inline comment"
    if s.startswith("/*"):
        return "block comment"
    for a, b, k in (("'", "'", "single quotes"), ('"', '"', "double quotes"), ("`", "`", "backticks"), ("[", "]", "square brackets"),
                    ("$$", "$$", "dollar quotes")):
        if s.startswith(a) or s.endswith(b):
            return k
    if len(s) >= 2 and s[-1] == "'" or len(s) >= 2 and s[-1] == '"':
        return "prefixed quotes"
    return None


# the types a capitalisation fix may anchor on, written from the property text:
# unquoted keywords (incl. word operators and date parts), naked identifiers, function names, type names, boolean/null literals
ANCHOR_FAMILY = frozenset(["keyword", "binary_operator", "date_part", "naked_identifier", "properties_naked_identifier",
                           "function_name_identifier", "bare_function", "null_literal", "boolean_literal", "data_type_identifier"])
TARGET_FAMILY = {
    "CP01": frozenset(["keyword", "binary_operator", "date_part"]),
    "CP02": frozenset(["naked_identifier", "properties_naked_identifier"]),
    "CP03": frozenset(["function_name_identifier", "bare_function"]),
    "CP04": frozenset(["null_literal", "boolean_literal"]),
    "CP05": frozenset(["data_type_identifier", "primitive_type", "datetime_type_identifier", "data_type"]),
}
# parse-level types that are quoted / comment / whitespace / literal text by name
FORBIDDEN_PARSE_TYPES = frozenset(["quoted_identifier", "quoted_literal", "quoted", "comment", "inline_comment", "block_comment", "whitespace",
                                   "newline", "numeric_literal", "literal", "identifier", "raw", "base", "code", "symbol", "placeholder",
                                   "unlexable", "word"])


def forbidden_lexer_types():
    """lexer token types of every dialect that are quoted text, comments or whitespace (by matcher class or 'quote' in the name)"""
    from sqlfluff.core.parser.segments.common import CommentSegment, NewlineSegment, WhitespaceSegment
    out = set()
    for lab in DIALECTS():
        for m in dialect_selector(lab).get_lexer_matchers():
            cls = getattr(m, "segment_class", None)
            if "quote" in m.name or (cls and issubclass(cls, (CommentSegment, NewlineSegment, WhitespaceSegment))):
                out.add(m.name)
                for sub in (getattr(m, "subdivider", None), getattr(m, "trim_post_subdivide", None)):
                    if sub is not None:
                        out.add(sub.name)
    return out


_DIALECTS = None


def DIALECTS():
    global _DIALECTS
    if _DIALECTS is None:
        _DIALECTS = sorted(d.label for d in dialect_readout())
    return _DIALECTS


# ===================================================================================================== failure bookkeeping
def _js(x):
    return json.loads(json.dumps(x, default=str))


class Fails:
    """clause id -> failure class (diagnosis) -> (smallest witness, count)"""

    def __init__(self):
        self.best = {}
        self.count = {}

    def add(self, clause, cls, function, key, detail):
        k = (clause, cls)
        self.count[k] = self.count.get(k, 0) + 1
        b = self.best.get(k)
        if b is None or key < b[0]:
            self.best[k] = (key, function, detail() if callable(detail) else detail)

    def export(self):
        return {"best": list(self.best.items()), "count": list(self.count.items())}

    def merge(self, exported):
        for k, n in exported["count"]:
            k = tuple(k)
            self.count[k] = self.count.get(k, 0) + n
        for k, (key, fn, det) in exported["best"]:
            k, key = tuple(k), tuple(key)
            b = self.best.get(k)
            if b is None or key < b[0]:
                self.best[k] = (key, fn, det)


SNAKE_CLASS = "snake policy inserts underscores"


def classify_case_failure(concrete_policy, raw, fixed):
    if concrete_policy == "snake" and case_eq(fixed.replace("_", ""), raw.replace("_", "")):
        return SNAKE_CLASS
    if "".join(fixed.split()) == "".join(raw.split()) or case_eq("".join(fixed.split()), "".join(raw.split())):
        return "whitespace inside the token changed"
    return "unexplained: fixed text is not a re-casing of the segment text"


# ===================================================================================================== layer 1: the contract of _handle_segment
def handle_segment_contract(rule, segment, memory_before, result, fails, where, real_run):
    """The executable contract of Rule_CP01._handle_segment (self=rule).  Returns (has_fix, fixed_raw).
    `where()` -> dict describing the case (for the witness); `real_run`: the call was made by the real linter (anchor clause applies)."""
    code = rule.code
    policy = getattr(rule, "cap_policy", None)
    concrete = policy if policy != "consistent" else memory_before.get("latest_possible_case", "upper")
    size = (len(segment.raw),)

    def wit(**kw):
        d = {"rule": code, "policy": policy, "concrete_policy": concrete, "segment_type": segment.get_type(), "segment_raw": segment.raw,
             "memory_before": {k: (sorted(v) if isinstance(v, (set, frozenset)) else v) for k, v in memory_before.items()}}
        d.update(kw)
        d.update(where())
        return _js(d)
    shape = f"C15/{code}/fix-shape"
    if not isinstance(result, LintResult):
        fails.add(shape, "result is not a LintResult", F_HANDLE, size, lambda: wit(result=repr(result)))
        return False, None
    if not result.fixes:
        return False, None
    fixes = result.fixes
    if len(fixes) != 1:
        fails.add(shape, "number of fixes is not 1", F_HANDLE, size, lambda: wit(fixes=[repr(f) for f in fixes]))
    fx = fixes[0]
    bad = None
    if not isinstance(fx, LintFix) or fx.edit_type != "replace":
        bad = "fix is not a replace"
    elif fx.anchor is not segment:
        bad = "fix anchor is not the handled segment"
    elif result.anchor is not segment:
        bad = "result anchor is not the handled segment"
    elif fx.edit is None or len(fx.edit) != 1:
        bad = "fix does not carry exactly one edit segment"
    elif type(fx.edit[0]) is not type(segment) or fx.edit[0].get_type() != segment.get_type() \
            or getattr(fx.edit[0], "instance_types", None) != getattr(segment, "instance_types", None):
        bad = "edit segment has another class or type than the anchor"
    elif fx.edit[0].segments:
        bad = "edit segment is not a raw segment"
    if bad:
        fails.add(shape, bad, F_HANDLE, size,
                  lambda: wit(fix=repr(fx), anchor=repr(getattr(fx, "anchor", None)), anchor_type=getattr(getattr(fx, "anchor", None), "get_type", lambda: None)(),
                              edit=[(type(e).__name__, e.get_type(), e.raw) for e in (getattr(fx, "edit", None) or [])]))
        if not isinstance(fx, LintFix) or not fx.edit:
            return True, None
    fixed = "".join(e.raw for e in fx.edit)
    if not case_eq(fixed, segment.raw):
        cls = classify_case_failure(concrete, segment.raw, fixed)
        fails.add(f"C15/{code}/{policy}/case-only", cls, F_HANDLE, size,
                  lambda: wit(fixed_raw=fixed, norm_segment_raw=norm(segment.raw), norm_fixed_raw=norm(fixed), diagnosis=cls))
    if real_run:
        anchor = fx.anchor
        kind = delimiter_kind(anchor.raw)
        fam = anchor.is_type(*ANCHOR_FAMILY)
        forb = sorted(t for t in ("quoted_identifier", "quoted_literal", "comment", "whitespace", "newline", "numeric_literal") if anchor.is_type(t))
        if anchor.segments or not fam or forb or kind:
            if anchor.segments:
                cls = "anchor is not a raw segment"
            elif kind:
                cls = f"{anchor.get_type()} token delimited by {kind}"
            elif forb:
                cls = f"anchor is of type {forb[0]}"
            else:
                cls = f"anchor type {anchor.get_type()} is outside the allowed family"
            fails.add(f"C15/{code}/fix-anchor-in-allowed-family", cls, F_HANDLE, size,
                      lambda: wit(fixed_raw=fixed, anchor_type=anchor.get_type(), anchor_class_types=sorted(anchor.class_types), diagnosis=cls))
    return True, fixed


# ------------------------------------------------------------------------------------------ the spy (real linter runs)
_SPY = {"sink": None}


def install_spy():
    if getattr(Rule_CP01._handle_segment, "_c15_spy", False):
        return
    orig = Rule_CP01._handle_segment

    def _handle_segment(self, segment, context):
        sink = _SPY["sink"]
        if sink is None:
            return orig(self, segment, context)
        mem = context.memory
        before = {k: (set(v) if isinstance(v, set) else v) for k, v in mem.items()} if isinstance(mem, dict) else {}
        try:
            res = orig(self, segment, context)
        except Exception as e:      # reported to the sink as an observation, then re-raised unchanged (the linter turns it into a CP0x 'Unexpected exception' violation)
            sink(self, segment, context, before, e)
            raise
        sink(self, segment, context, before, res)
        return res
    _handle_segment._c15_spy = True
    _handle_segment._c15_orig = orig
    Rule_CP01._handle_segment = _handle_segment


# ------------------------------------------------------------------------------------------ direct drive
ALPHABET = "aB_1éßİıσ"          # a B _ 1 é ß İ ı σ
PROTO_SQL = ("SELECT foo(a) AS b, current_date, NULL, TRUE, CAST(x AS int), CAST(y AS double precision), extract(day FROM z) "
             "FROM t WHERE a AND b\n")
MEMORY_SEEDS = ["a", "A", "Ab", "aB", "AB", "ab", "_", "1", "Aa", "aa", "ß", "İ"]


def all_tokens(maxlen):
    return ["".join(t) for n in range(1, maxlen + 1) for t in itertools.product(ALPHABET, repeat=n)]


def harvest_contexts(dialect="ansi"):
    """Run the real linter once on PROTO_SQL and keep, per rule, the (segment, RuleContext) pairs it handed to _handle_segment:
    these are real RuleContexts; the direct drive only swaps the segment text and the memory."""
    install_spy()
    got = {}

    def sink(rule, segment, context, before, res):
        if not isinstance(res, BaseException):
            got.setdefault(rule.code, {}).setdefault(segment.get_type(), (segment, dataclasses.replace(context)))
    _SPY["sink"] = sink
    try:
        Linter(config=make_config(dialect, "consistent")).lint_string(PROTO_SQL, fix=False)
    finally:
        _SPY["sink"] = None
    return got


def rule_object(dialect, code, policy):
    lnt = Linter(config=make_config(dialect, policy, rules=code))
    (r,) = [r for r in lnt.get_rulepack().rules if r.code == code]
    return r, lnt.config


def reachable_memories(rule, proto, ctx):
    """memory states `_handle_segment` can leave behind, by closure from {} over MEMORY_SEEDS (policy 'consistent')"""
    def freeze(m):
        return (frozenset(m.get("refuted_cases", ())), m.get("latest_possible_case"))

    def thaw(f):
        m = {}
        if f[0] or f[1] is not None:
            m["refuted_cases"] = set(f[0])
        if f[1] is not None:
            m["latest_possible_case"] = f[1]
        return m
    seen = {freeze({})}
    todo = [freeze({})]
    while todo:
        f = todo.pop()
        for tok in MEMORY_SEEDS:
            m = thaw(f)
            seg = proto.edit(tok)
            rule._handle_segment(seg, dataclasses.replace(ctx, segment=seg, memory=m))
            g = freeze(m)
            if g not in seen:
                seen.add(g)
                todo.append(g)
    return [thaw(f) for f in sorted(seen, key=lambda f: (sorted(f[0]), f[1] or ""))]


_DIRECT = {}


def _direct_task(task):
    code, policy, maxlen, maxlen_other, keep = task
    fails = Fails()
    st = {"calls": 0, "fixes": 0, "by_branch": Counter(), "samples": [], "memories": 0, "table": {}}
    protos = _DIRECT["protos"][code]
    rule, cfg = rule_object("ansi", code, policy)
    rule_opts = [o for o in policy_options(code) if o != "consistent"]
    handle = rule._handle_segment
    for pi, (seg_type, (proto, ctx0)) in enumerate(sorted(protos.items())):
        toks = all_tokens(maxlen if pi == 0 else maxlen_other)
        ctx0 = dataclasses.replace(ctx0, config=cfg)
        # explicit policy: the saturated memory (every case refuted by earlier segments: the transformation branch is always reached, also for
        # texts that already conform) on every text, the empty memory (first segment of a file) on the texts of length <= 3
        mems = [{"refuted_cases": set(rule_opts)}, {}]
        if policy == "consistent":
            mems = reachable_memories(rule, proto, ctx0)
            st["memories"] = max(st["memories"], len(mems))
        for mi, mem0 in enumerate(mems):
            for tok in toks:
                if policy != "consistent" and mi == 1 and len(tok) > 3:
                    break
                seg = proto.edit(tok)
                mem = {k: (set(v) if isinstance(v, set) else v) for k, v in mem0.items()}
                ctx = dataclasses.replace(ctx0, segment=seg, memory=mem)
                res = handle(seg, ctx)
                st["calls"] += 1
                has, fixed = handle_segment_contract(rule, seg, mem0, res, fails,
                                                     lambda: {"driven": "direct call on a harvested RuleContext", "prototype_segment_type": seg_type}, False)
                if has:
                    st["fixes"] += 1
                    conc = policy if policy != "consistent" else mem0.get("latest_possible_case", "upper")
                    st["by_branch"][f"{code}/{policy}" + (f"->{conc}" if policy == "consistent" else "")] += 1
                    if len(st["samples"]) < 2 and len(tok) >= 3 and (st["fixes"] % 997 == 1):
                        st["samples"].append({"rule": code, "policy": policy, "segment_type": seg_type, "segment_raw": tok, "fixed_raw": fixed,
                                              "memory_before": _js({k: sorted(v) if isinstance(v, set) else v for k, v in mem0.items()})})
                if keep and mi == 0 and policy != "consistent" and len(tok) <= keep:
                    st["table"][f"{seg_type}|{tok}"] = fixed
    st["by_branch"] = dict(st["by_branch"])
    st["fails"] = fails.export()
    return (code, policy), st


def _pmap(fn, tasks, n, timeout_s=3 * 3600):
    """pool.map on a fork pool that is joined before returning (no handler thread of this pool is alive when the next pool forks)
    and that cannot hang for ever: a lost worker makes the bounded function crash (exit 3) instead"""
    pool = mp.get_context("fork").Pool(min(n, os.cpu_count() or 4, max(1, len(tasks))))
    try:
        res = pool.map_async(fn, tasks, chunksize=1).get(timeout=timeout_s)
        pool.close()
    finally:
        pool.terminate()
        pool.join()
    return res


_CACHE = {}


def handle_segment_direct(tier, seed):
    """BOUNDED: every token text over ALPHABET up to length 5, every (rule, policy) branch, on harvested real RuleContexts"""
    ck = ("L1", tier, seed)
    if ck in _CACHE:
        return _CACHE[ck]
    t0 = time.time()
    install_spy()
    _DIRECT["protos"] = harvest_contexts()
    tasks = []
    for code in RULES:
        for pol in policy_options(code):
            # the segment type plays no role in _handle_segment: full length on the first type of each rule, shorter strings on the others;
            # 'consistent' multiplies by the reachable memory states: one length shorter
            # (CP02..CP05 inherit _handle_segment unchanged -- an EXTRA obligation -- so the quick tier runs length 5 under CP01 and CP02 only)
            full, other = ((5, 3) if code in ("CP01", "CP02") else (4, 3)) if tier == "quick" else (5, 5)
            if pol == "consistent":
                full, other = full - 1, min(other, full - 1)
            tasks.append((code, pol, full, other, 3))
    res = _pmap(_direct_task, tasks, 16, 1800)
    fails = Fails()
    calls = fixes = 0
    by_branch, samples, table = {}, [], {}
    mems = 0
    for (code, pol), st in res:
        calls += st["calls"]
        fixes += st["fixes"]
        by_branch.update(st["by_branch"])
        samples.extend(st["samples"])
        mems = max(mems, st["memories"])
        table[(code, pol)] = st["table"]
        fails.merge(st["fails"])
    random.Random(seed).shuffle(samples)
    out = {
        "name": "C15-handle_segment-direct",
        "bound": (f"all {len(all_tokens(5))} non-empty strings of length <= 5 over the alphabet {list(ALPHABET)} as the text of the segment, "
                  f"for each of the {len(tasks)} (rule, policy value) pairs the real config validation offers (CP01/CP04: {policy_options('CP01')}; "
                  f"CP02/CP03/CP05: {policy_options('CP02')}), on every segment type the real linter handed to that rule for the prototype query "
                  f"{PROTO_SQL!r} ({ {c: sorted(v) for c, v in _DIRECT['protos'].items()} }); explicit policies under the saturated memory (every case already "
                  f"refuted) and, for length <= 3, under the empty memory; policy 'consistent' on each of the {mems} memory states "
                  f"reachable from the empty memory (closure over {MEMORY_SEEDS}), strings of length <= 4. "
                  + ("Quick tier: length 5 only under CP01 and CP02 (which between them offer every policy value) on their first segment type, length <= 4 "
                     "under CP03..CP05, length <= 3 on the other segment types of a rule" if tier == "quick" else "All lengths on every type")),
        "rule": RULE,
        "exhaustive": True,
        "evaluations": calls,
        "distinct_nontrivial": fixes,
        "calls_returning_a_fix_per_branch": dict(sorted(by_branch.items())),
        "samples": samples[:3],
        "failing_clauses": sorted({c for (c, _cls) in fails.count}),
        "wall_s": round(time.time() - t0, 2),
        "failed": [],
    }
    _CACHE[ck] = out
    _CACHE[("L1-fails", tier, seed)] = fails
    _CACHE[("L1-table", tier, seed)] = table
    return out


# ===================================================================================================== layers 2+3: real lint runs
CRAFTED = [
    ("ansi", 'select "select", "From" from "Table" where "a b" = 1\n'),
    ("ansi", "select 'select from where', 'Null', 'TRUE' from t\n"),
    ("ansi", "select a -- select From where NULL\nfrom t /* Select FROM t WHERE true */\n"),
    ("ansi", "SELECT a, B, fooBar, sum(x), Count(y), NULL, true, False from T where X is Not null AND y = TRUE\n"),
    ("ansi", "create table t (a int, B VARCHAR(10), c double precision, d Timestamp)\n"),
    ("ansi", "create table t (a double /* Foo bar */ precision)\n"),
    ("ansi", "select cast(a as INTEGER), cast(b as varchar(20)) from t\n"),
    ("ansi", "select 1e5, 0.5E-3, 1.0, 10 from t\n"),
    ("ansi", 'select a.b.c, "A"."b", t.* from s.t\n'),
    ("ansi", "SELECT\n\ta,\n    b\t,c   FROM   t\n\n\n"),
    ("ansi", "select a\r\nfrom t\r\nwhere b = 1\r\n"),
    ("ansi", "select current_date, CURRENT_TIMESTAMP, extract(YEAR from d) from t\n"),
    ("ansi", "select fooBar, foo_bar, FooBar, FOOBAR, foo1Bar2 from t\n"),
    ("ansi", "select x from t where a like '%Select%' and b in ('From', 'WHERE')\n"),
    ("ansi", "select case when a is null then 'Null' else \"Else\" end as \"End\" from t\n"),
    ("ansi", "select {{ \"SELECT\" }} as a, {{ 'Null' }} from {{ \"My_Table\" }} where {% if true %}X = 'From'{% endif %}\n"),
    ("ansi", "{% set cols = ['Select', 'FROM'] %}select {% for c in cols %}{{ c }}_col, {% endfor %} 1 from t {# Select FROM #}\n"),
    ("ansi", "SELECT a {# comment with SELECT from #} FROM t {% if True %}WHERE a > 1{% endif %}\n"),
    ("ansi", "select {{ 'a' if True else 'B' }}, {{ \"Select Null From\" | upper }} from t where {{ 'X' }} is null\n"),
    ("ansi", "select * from t where a = 'İstanbul' or b = 'ß' -- ünïcode SELECT\n"),
    ("postgres", "select E'Select\\n', e'from', $$ Select From $$, $tag$ WHERE Null $tag$ from t\n"),
    ("postgres", "select \"Select\" from \"From\" where émile = 'É' and ßtraße = 1 and σοφός = ΣΟΦΌΣ\n"),
    ("postgres", "select İi, ıI from t where ǆ = ǅ\n"),
    ("postgres", "select U&\"d\\0061t\", b'0101', x'FF', B'1', X'aB' from t\n"),
    ("postgres", 'select a::INT, b::Text, c::"MyType", d::varchar(10) from t\n'),
    ("postgres", 'create table t (a int4 /* Keep Me */ primary key, b "char", c timestamp With Time zone)\n'),
    ("postgres", "select 'it''s Null', \"a\"\"B\" from t\n"),
    ("mysql", "select `Select`, `from` from `My Table` where a = \"Double Quoted String\" # Comment SELECT\n"),
    ("mysql", "select @MyVar, @@Global.sort_buffer_size, _utf8'abc' from t\n"),
    ("bigquery", "select `proj.dataset.Table`.col, r'Raw\\String', b\"Bytes\", \"\"\"Triple Select\"\"\" from `My-Project.ds.t`\n"),
    ("bigquery", "select `proj.ds.myFunc`(1), safe.Substr('aB', 1) from t\n"),
    ("bigquery", "select struct(1 as A, 'b' as B), [1, 2], date '2020-01-01' from t\n"),
    ("tsql", "select [Select], [From].[Where] from [dbo].[My Table] where a = N'Unicode Null'\n"),
    ("tsql", "select cast(a as [int]), [myFn](2) from t;\n"),
    ("tsql", "select @Var, #Temp.col from #Temp\n"),
    ("snowflake", "select $1, t.$2, col:Path.To::string, \"Quoted\" from @My_Stage/path (file_format => 'MyFmt')\n"),
    ("snowflake", "create file format my_ff type = csv compression = 'gzip';\n"),
    ("snowflake", "select $$Dollar Select$$, 'a' from t\n"),
    ("databricks", "alter table t set tblproperties (`delta.appendOnly` = true);\n"),
    ("sparksql", "select `Select`, a.`B c` from `My Table` -- Comment\n"),
    ("sparksql", "select 1L, 2S, 3.0D, 'x' from t\n"),
    ("oracle", "select q'[It's Null]', \"Quoted\", n'Nat' from dual\n"),
    ("clickhouse", "select `Back`, \"Dbl\", 'Str' from t\n"),
    ("sqlite", "select [Bracket], \"dq\", 'sq', `bq` from t\n"),
    ("duckdb", "select {'a': 1, 'B': 2}, [1,2], a->>'Key' from t\n"),
    ("materialize", "ALTER SOURCE IF EXISTS src_name SET ( SIZE 'xsmall' );\n"),
    ("snowflake", "alter warehouse load_wh set scaling_policy = 'Standard';\n"),
    ("oracle", "SELECT a MULTISET EXCEPT b AS c FROM t\n"),
]
KEYWORD_CASES = ["select", "SELECT", "SeLeCt", "Select", "sELECT", "Null", "NULL", "null", "nUlL", "TRUE", "true", "True", "tRuE", "False", "FALSE"]


def token_queries(tier):
    """(dialect, label, sql): token texts embedded as identifiers / function names / type names / keywords in a query template"""
    maxlen = 2 if tier == "quick" else 3
    toks = [t for t in all_tokens(maxlen) if t[0] not in "1"]        # a word of these dialects cannot start with a digit
    out = []
    per = 24
    for i in range(0, len(toks), per):
        chunk = toks[i:i + per]
        out.append(("postgres", f"tokens-as-identifiers-{i // per:02d}", "select " + ", ".join(chunk) + " from tbl\n"))
        out.append(("postgres", f"tokens-as-functions-{i // per:02d}", "select " + ", ".join(t + "(1)" for t in chunk) + " from tbl\n"))
        out.append(("postgres", f"tokens-as-types-{i // per:02d}", "select " + ", ".join(f"cast(1 as {t})" for t in chunk) + " from tbl\n"))
    # real keywords / literals in every case pattern
    import itertools as it
    kws = []
    for w in ("select", "from", "null", "true", "and", "int"):
        kws.append(["".join(c.upper() if b else c for c, b in zip(w, bits)) for bits in it.product((0, 1), repeat=len(w))])
    n = max(len(k) for k in kws) if tier == "thorough" else 16
    for i in range(n):
        s, f, nl, tr, an, ty = (k[(i * (5 if tier == "quick" else 1)) % len(k)] for k in kws)
        out.append(("ansi", f"keyword-cases-{i:02d}", f"{s} a, {nl}, {tr}, cast(b as {ty}) {f} t where c is {nl} {an} d\n"))
    out.append(("ansi", "keyword-cases-list", " union all ".join(f"{k} a from t" if k.lower() == "select" else f"select {k} from t" for k in KEYWORD_CASES) + "\n"))
    return out


def choose_fixtures(tier, seed):
    """{dialect: [path]}: quick ~150 files (<= 2000 characters), thorough ~1500 (<= 12000 characters)"""
    rng = random.Random(seed * 7919 + 15)
    n_ansi, per_other, cap = (22, 5, 2000) if tier == "quick" else (160, 52, 12000)
    groups = {}
    for d in sorted(os.listdir(FIXTURES)):
        p = os.path.join(FIXTURES, d)
        if not os.path.isdir(p):
            continue
        files = [f for f in sorted(glob.glob(os.path.join(p, "*.sql"))) if os.path.getsize(f) <= cap]
        k = n_ansi if d == "ansi" else per_other
        if len(files) > k:
            files = sorted(rng.sample(files, k))
        groups[d] = files
    return groups, cap


def _read(path):
    with open(path, encoding="utf8", newline="") as fh:
        return fh.read()


_LINTERS = {}


def _linter(dialect, policy):
    k = (dialect, policy)
    if k not in _LINTERS:
        _LINTERS[k] = Linter(config=make_config(dialect, policy))
    return _LINTERS[k]


def tokens_of(lnt, text):
    """The real templater + lexer on `text`: [(type, raw, source_text, may_change)] for every non-meta token and every template placeholder.
    may_change: an unquoted word token in literal (non-templated) source -- the only tokens whose letter case a fix may alter."""
    rf = lnt.render_string(text, fname="<c15>", config=lnt.config, encoding="utf8")
    if not rf.templated_variants:
        return None, ["templater produced no variant"]
    tf = rf.templated_variants[0]
    segs, errs = Lexer(config=lnt.config).lex(tf)
    out = []
    for s in segs:
        if isinstance(s, TemplateSegment):
            out.append(("placeholder:" + s.block_type, "", s.source_str, False))
            continue
        if s.is_meta:
            continue
        pm = s.pos_marker
        src = tf.source_str[pm.source_slice]
        lit = pm.is_literal()
        out.append((s.get_type(), s.raw, src, bool(lit and s.is_type("word") and src == s.raw)))
    return out, [str(e) for e in errs] + [str(e) for e in rf.templater_violations]


def _normalise_newlines(s):
    return s.replace("\r\n", "\n").replace("\r", "\n")


NEWLINE_CLASS = "newline token: CR LF rewritten to LF (Linter newline normalisation, no capitalisation fix involved)"


def compare_texts(lnt, src, out, policy, fixes):
    """The e2e clauses.  Returns [(clause suffix, class, detail)] (empty = both clauses hold) and a list of observations.
    Both texts are templated and lexed by the real templater/lexer; tokens are compared pairwise.  When the pairwise comparison
    fails on an untemplated input, the output is re-cut at the boundaries the INPUT tokens imply under `norm` (a re-cased word
    may lex differently, e.g. lower('\u0130') = 'i' + U+0307); only if that fails too is the failure kept."""
    fl, obs = [], []
    if "\r" in src and out.count("\r") != src.count("\r"):
        # the real lexing below goes through Linter.render_string, which normalises newlines itself: decide this clause on the raw texts
        fl.append(("untouched-tokens-identical", NEWLINE_CLASS,
                   {"input_token": ["newline", "\r\n"], "output_token": ["newline", "\n"], "cr_in_input": src.count("\r"), "cr_in_output": out.count("\r"),
                    "diagnosis": NEWLINE_CLASS}))
        src, out = _normalise_newlines(src), _normalise_newlines(out)
    a = tokens_of(lnt, src)[0]
    b = tokens_of(lnt, out)[0]
    if a is None or b is None:
        return fl + [("case-only", "unexplained: output cannot be templated/lexed", {"output": out[:300]})], obs
    by_raw = {}
    for fx in fixes:
        by_raw.setdefault(fx["raw"], []).append(fx)

    def find_fix(raw, final):
        """the last fix of a chain raw -> ... -> final recorded by the spy in this run (fixes chain across linter passes)"""
        seen, todo = {raw}, [raw]
        while todo:
            for fx in by_raw.get(todo.pop(), []):
                if fx["fixed_raw"] == final:
                    return fx
                if fx["fixed_raw"] not in seen:
                    seen.add(fx["fixed_raw"])
                    todo.append(fx["fixed_raw"])
        return None
    pf = []
    if len(a) != len(b):
        pf.append(("case-only", "unexplained: token count differs", {"input_tokens": len(a), "output_tokens": len(b), "diagnosis": "unexplained: token count differs"}))
    else:
        for x, y in zip(a, b):
            if x[3]:
                if (x[0] != y[0] or not case_eq(x[1], y[1])) and not any(c == "case-only" for c, _, _ in pf):
                    cls = SNAKE_CLASS if policy == "snake" and case_eq(x[1].replace("_", ""), y[1].replace("_", "")) else \
                        "unexplained: word token is not a re-casing of the input token"
                    pf.append(("case-only", cls, {"input_token": x, "output_token": y, "diagnosis": cls}))
            elif (x[0], x[1], x[2]) != (y[0], y[1], y[2]):
                fx = find_fix(x[1], y[1])
                if fx:
                    cls = f"{x[0]} token rewritten by {fx['rule']} (anchor type {fx['anchor_type']})"
                elif not x[0].startswith("placeholder") and x[2] != x[1]:
                    cls = f"unexplained: templated {x[0]} token changed"
                else:
                    cls = f"unexplained: {x[0]} token changed, no recorded fix matches"
                if not any(c == "untouched-tokens-identical" and k == cls for c, k, _ in pf):
                    pf.append(("untouched-tokens-identical", cls, {"input_token": x, "output_token": y, "fix": fx, "diagnosis": cls}))
    if pf and all(t[2] == t[1] for t in a) and "".join(t[2] for t in a) == src:
        rf = _realign(a, out, policy, fixes)
        if rf is not None:
            if sorted((c, k) for c, k, _ in rf) != sorted((c, k) for c, k, _ in pf):
                obs.append(("a letter-case change alters the tokenisation of the output; decided on the input tokens re-cut in the output under norm",
                            {"input_tokens": len(a), "output_tokens": len(b), "pairwise_report": [(c, k) for c, k, _ in pf],
                             "recut_report": [(c, k) for c, k, _ in rf]}))
            pf = rf
    fl += pf
    if not pf and not case_eq(src, out):
        # whole text: implied by the token clauses through the concatenation law; evaluated on its own as a guard against the tokeniser
        cls = "unexplained: whole text differs beyond letter case although every token compares"
        fl.append(("case-only", cls, {"diagnosis": cls}))
    return fl, obs


def _realign(a, out, policy, fixes):
    """Untemplated input whose tokens tile the text: cut `out` at the boundaries the INPUT tokens imply.  A token whose piece is not
    found by byte identity (untouched token) / by norm (word token) is re-synchronised through the fixes the spy recorded for this run
    (every edit of the text stems from one of them).  Returns the failure list, or None when the alignment is lost."""
    pos = 0
    fails = []
    by_raw = {}
    for fx in fixes:
        by_raw.setdefault(fx["raw"], []).append(fx)

    def resync(t):
        # fixes chain across linter passes (snake: 'B1' -> 'b1' -> 'b_1'): follow raw -> fixed_raw transitively
        seen, todo, cands = {t[2]}, [t[2]], []
        while todo:
            for fx in by_raw.get(todo.pop(), []):
                if fx["fixed_raw"] not in seen:
                    seen.add(fx["fixed_raw"])
                    todo.append(fx["fixed_raw"])
                    if out.startswith(fx["fixed_raw"], pos):
                        cands.append(fx)
        return max(cands, key=lambda fx: len(fx["fixed_raw"])) if cands else None
    for t in a:
        if not t[3]:
            if out.startswith(t[2], pos):
                pos += len(t[2])
                continue
            fx = resync(t)
            if fx is None:
                return None
            cls = f"{t[0]} token rewritten by {fx['rule']} (anchor type {fx['anchor_type']})"
            if not any(k == cls for _, k, _ in fails):
                fails.append(("untouched-tokens-identical", cls, {"input_token": t, "output_piece": fx["fixed_raw"], "fix": fx, "diagnosis": cls}))
            pos += len(fx["fixed_raw"])
            continue
        want = norm(t[2])
        k = 0
        while pos + k < len(out) and len(norm(out[pos:pos + k])) < len(want):
            k += 1
        if norm(out[pos:pos + k]) == want:
            pos += k
            continue
        fx = resync(t)
        if fx is None:
            return None
        piece = fx["fixed_raw"]
        cls = SNAKE_CLASS if policy == "snake" and case_eq(piece.replace("_", ""), t[2].replace("_", "")) else \
            "unexplained: word token is not a re-casing of the input token"
        if not any(c == "case-only" for c, _, _ in fails):
            fails.append(("case-only", cls, {"input_token": t, "output_piece": piece, "fix": fx, "diagnosis": cls}))
        pos += len(piece)
    return fails if pos == len(out) else None


def run_case(dialect, label, sql, policy, fails, st, want=None):
    """one real lint+fix run under the spy; evaluates the layer 1/2 contract on every _handle_segment call and the e2e clauses on the result"""
    lnt = _linter(dialect, policy)
    fixes = []

    def where():
        return {"driven": "real linter run", "dialect": dialect, "input": label, "sql": sql[:2000], "e2e_policy": policy}

    def sink(rule, segment, context, before, res):
        st["handle_calls"] += 1
        if isinstance(res, BaseException):
            st["handle_raised"] += 1
            fails.add(f"OBS:_handle_segment raises {type(res).__name__} (no fix is produced; the linter reports 'Unexpected exception' for the rule and stops it for the file)",
                      "observation", F_HANDLE, (len(sql),),
                      lambda: _js(dict(where(), rule=rule.code, segment_type=segment.get_type(), segment_class=type(segment).__name__, segment_raw=segment.raw,
                                       segment_is_raw=not segment.segments)))
            return
        has, fixed = handle_segment_contract(rule, segment, before, res, fails, where, True)
        if has:
            st["handle_fixes"] += 1
            fx = res.fixes[0]
            fixes.append({"rule": rule.code, "policy": getattr(rule, "cap_policy", None), "raw": segment.raw, "fixed_raw": fixed,
                          "anchor_type": fx.anchor.get_type(), "parent_type": context.parent_stack[-1].get_type() if context.parent_stack else None})
            st["anchor_types"][f"{rule.code}:{fx.anchor.get_type()}"] += 1
    _SPY["sink"] = sink
    try:
        lf = lnt.lint_string(sql, fname=label, fix=True)
    finally:
        _SPY["sink"] = None
    st["runs"] += 1
    bad = [v for v in lf.violations if isinstance(v, (SQLParseError, SQLTemplaterError, SQLLexError))]
    if bad:
        st["skipped_parse_or_template_error"] += 1
        return None, fixes
    out, changed = lf.fix_string()
    st["e2e_compared"] += 1
    if out != sql:
        st["e2e_changed"] += 1
    fl, obs = compare_texts(lnt, sql, out, policy, fixes)
    size = (len(sql),)
    for clause, cls, det in fl:
        fails.add(f"C15/e2e/{policy}/{clause}", cls, F_E2E, size,
                  lambda det=det: _js(dict(det, dialect=dialect, input=label, policy=policy, sql=sql[:3000], fixed_sql=out[:3000])))
    for text, det in obs:
        fails.add("OBS:" + text, "observation", F_E2E, size, lambda det=det: _js(dict(det, dialect=dialect, input=label, policy=policy, sql=sql[:600], fixed_sql=out[:600])))
    if len(st["samples"]) < 1 and out != sql and 30 <= len(sql) <= 400:
        st["samples"].append({"dialect": dialect, "input": label, "policy": policy, "sql": sql, "fixed_sql": out,
                              "fixes": [(f["rule"], f["raw"], f["fixed_raw"]) for f in fixes][:12]})
    return out, fixes


def _new_stats():
    return {"runs": 0, "handle_calls": 0, "handle_fixes": 0, "handle_raised": 0, "e2e_compared": 0, "e2e_changed": 0, "skipped_parse_or_template_error": 0,
            "anchor_types": Counter(), "samples": [], "spy_table": [], "changed_keys": []}


def _lint_task(task):
    kind, dialect, items = task          # items: [(label, sql, [policies])]
    install_spy()
    fails = Fails()
    st = _new_stats()
    t0 = time.time()
    for label, sql, policies in items:
        for pol in policies:
            out, fixes = run_case(dialect, label, sql, pol, fails, st)
            if out is not None and out != sql:
                st["changed_keys"].append(hash((dialect, label, pol)))
            if kind == "tok":
                st["spy_table"].extend((f["rule"], f["policy"], f["anchor_type"], f["raw"], f["fixed_raw"]) for f in fixes if f["policy"] != "consistent")
    st["anchor_types"] = dict(st["anchor_types"])
    st["fails"] = fails.export()
    st["task_wall"] = (round(time.time() - t0, 2), kind, dialect, [it[0] for it in items][:2], len(items))
    return st


def linter_runs(tier, seed):
    """BOUNDED: real Linter.lint_string(fix=True) + fix_string over token templates, dialect fixtures and crafted statements"""
    ck = ("L23", tier, seed)
    if ck in _CACHE:
        return _CACHE[ck]
    t0 = time.time()
    install_spy()
    rng = random.Random(seed * 31 + 15)
    groups, cap = choose_fixtures(tier, seed)
    others = [p for p in E2E_POLICIES if p != "consistent"]
    tasks = []
    n_files = 0
    for d, files in groups.items():
        items = []
        for f in files:
            # quick: 2 of the 7 policies, rotating with the file index; thorough: all 7
            k = n_files
            pols = list(E2E_POLICIES) if tier == "thorough" else [E2E_POLICIES[k % 7], E2E_POLICIES[(k + 1 + (k // 7) % 6) % 7]]
            items.append((os.path.relpath(f, FIXTURES), _read(f), pols))
            n_files += 1
        step = 2 if tier == "quick" else 6
        for i in range(0, len(items), step):
            tasks.append(("file", d, items[i:i + step]))
    by_d = {}
    for i, (d, sql) in enumerate(CRAFTED):
        by_d.setdefault(d, []).append((f"crafted-{i:02d}", sql, list(E2E_POLICIES)))
    for d, items in by_d.items():
        for i in range(0, len(items), 5):
            tasks.append(("crafted", d, items[i:i + 5]))
    tq = token_queries(tier)
    for qi, (d, label, sql) in enumerate(tq):
        rule_pols = policy_options("CP02") if label.startswith("tokens-") else BASIC
        if tier == "quick" and not label.startswith("tokens-as-identifiers"):
            # quick: every policy on the identifier templates, 2 rotating policies on the function / type / keyword templates
            rule_pols = [rule_pols[qi % len(rule_pols)], rule_pols[(qi + 1 + (qi // len(rule_pols)) % (len(rule_pols) - 1)) % len(rule_pols)]]
        tasks.append(("tok", d, [(label, sql, list(rule_pols))]))
    tasks.sort(key=lambda t: -sum(len(s) * len(p) for _, s, p in t[2]))
    # parsing does not scale beyond ~6 concurrent processes in this sandbox (mmap/munmap heavy)
    results = _pmap(_lint_task, tasks, 6, 1200 if tier == "quick" else 6 * 3600)
    fails = Fails()
    agg, anchors = Counter(), Counter()
    samples, walls, spy_table, changed = [], [], set(), set()
    for st in results:
        for k, v in st.items():
            if isinstance(v, int):
                agg[k] += v
        anchors.update(st["anchor_types"])
        samples.extend(st["samples"])
        walls.append(st["task_wall"])
        spy_table.update(tuple(x) for x in st["spy_table"])
        changed.update(st["changed_keys"])
        fails.merge(st["fails"])
    rng.shuffle(samples)
    out = {
        "name": "C15-real-lint-fix-runs",
        "bound": (f"{agg['runs']} runs of Linter(config=FluffConfig(dialect, rules=CP01..CP05, policy)).lint_string(sql, fix=True) + fix_string(): "
                  f"{n_files} .sql fixtures of {len(groups)} dialects under {FIXTURES} (tier {tier}: seeded sample, files of at most {cap} characters, "
                  + ("2 of the 7 policies per file, rotating with the file index" if tier == "quick" else "all 7 policies per file")
                  + f"), {len(CRAFTED)} crafted statements x 7 policies (quoted identifiers / strings / comments containing keywords, E'' and dollar strings, "
                  f"backtick and bracket quoting, unicode identifiers, Jinja blocks, CR LF), {len(tq)} token-template queries (strings over the alphabet of "
                  f"length <= {2 if tier == 'quick' else 3} as identifiers / function names / type names in postgres; case patterns of real keywords) x "
                  + ("every policy on the identifier templates, 2 rotating policies on the others" if tier == "quick" else "every policy offered")),
        "rule": RULE,
        "exhaustive": False,
        "evaluations": agg["handle_calls"] + agg["e2e_compared"],
        "handle_segment_calls_checked": agg["handle_calls"], "handle_segment_calls_with_fix": agg["handle_fixes"],
        "handle_segment_calls_that_raised": agg["handle_raised"],
        "e2e_runs_compared": agg["e2e_compared"], "e2e_runs_where_the_fix_changed_the_text": agg["e2e_changed"],
        "runs_skipped_parse_template_or_lex_error": agg["skipped_parse_or_template_error"],
        "fix_anchor_types_seen": dict(sorted(anchors.items())),
        "distinct_nontrivial": len(changed),
        "samples": samples[:3],
        "slowest_tasks": sorted(walls, key=lambda w: -w[0])[:5],
        "task_cpu_wall_by_kind_s": {k: round(sum(w[0] for w in walls if w[1] == k), 1) for k in ("file", "crafted", "tok")},
        "failing_clauses": sorted({c for (c, _cls) in fails.count if not c.startswith("OBS:")}),
        "wall_s": round(time.time() - t0, 2),
        "failed": [],
    }
    _CACHE[ck] = out
    _CACHE[("L23-fails", tier, seed)] = fails
    _CACHE[("L23-spy-table", tier, seed)] = spy_table
    return out


# ===================================================================================================== witness shrinking
def _pieces(dialect, sql):
    try:
        segs, _ = Lexer(config=make_config(dialect, "consistent")).lex(sql)
        ps = [s.raw for s in segs if s.raw]
        if "".join(ps) == sql:
            return ps
    except Exception:
        pass
    return sql.splitlines(keepends=True)


def shrink_sql(dialect, policy, sql, clause, cls, budget_s=5.0, max_evals=120):
    """ddmin over the lexer tokens of `sql`: the smallest text found on which the same clause still fails with the same class"""
    install_spy()
    t0 = time.time()
    evals = [0]

    def pred(text):
        evals[0] += 1
        f, st = Fails(), _new_stats()
        try:
            run_case(dialect, "shrunk", text, policy, f, st)
        except Exception:
            return False
        # the shrunk text must itself be an input the property speaks about: no parse / template / lex error
        return (clause, cls) in f.best and st["skipped_parse_or_template_error"] == 0
    if not pred(sql):
        return sql, evals[0], False
    ps = _pieces(dialect, sql)
    n = 2
    while len(ps) >= 2 and evals[0] < max_evals and time.time() - t0 < budget_s:
        size = max(1, len(ps) // n)
        chunks = [ps[i:i + size] for i in range(0, len(ps), size)]
        hit = False
        for i in range(len(chunks)):
            cand = [p for j, c in enumerate(chunks) if j != i for p in c]
            if cand and pred("".join(cand)):
                ps, n, hit = cand, max(n - 1, 2), True
                break
            if evals[0] >= max_evals or time.time() - t0 >= budget_s:
                break
        if not hit:
            if size == 1:
                break
            n = min(n * 2, len(ps))
    return "".join(ps), evals[0], True


def _shrink_task(task):
    dialect, policy, sql, clause, cls = task
    try:
        return shrink_sql(dialect, policy, sql, clause, cls)
    except Exception as e:      # a shrink failure must not hide the finding
        return sql, 0, repr(e)


def _final_witness(dialect, policy, sql, clause, cls):
    """re-run the shrunk text and return the failure detail it produces (so that the reported witness is the reproduced one)"""
    f, st = Fails(), _new_stats()
    run_case(dialect, "shrunk witness", sql, policy, f, st)
    b = f.best.get((clause, cls))
    return b[2] if b else None


# ===================================================================================================== verdicts: one failed entry per clause
def load_known_classes():
    """known_findings.json entries of C15 may carry `classes`: the failure classes (diagnoses) the finding stands for"""
    p = os.path.join(ROOT, "known_findings.json")
    try:
        with open(p) as fh:
            ks = json.load(fh).get("findings", [])
    except Exception:
        return {}
    return {k["id"]: list(k.get("classes", [])) for k in ks if k.get("property") == PROP and k.get("status", "open") == "open"}


def clause_verdicts(tier, seed):
    """one failed entry per clause id.  A clause can fail for several reasons (classes, by diagnosis); the entry carries the smallest witness
    of a class that is NOT registered in known_findings.json when there is one, so that a known class never masks a new one."""
    ck = ("V", tier, seed)
    if ck in _CACHE:
        return _CACHE[ck]
    handle_segment_direct(tier, seed)
    linter_runs(tier, seed)
    fa, fb = _CACHE[("L1-fails", tier, seed)], _CACHE[("L23-fails", tier, seed)]
    known = load_known_classes()
    per_clause, observations = {}, {}
    for dom, fs in (("direct drive", fa), ("real lint runs", fb)):
        for (clause, cls), (key, fn, det) in fs.best.items():
            if clause.startswith("OBS:"):
                observations[clause[4:]] = {"cases": fs.count[(clause, cls)], "smallest": det, "note": "not a clause of C15: the texts are equal up to letter case"}
                continue
            d = per_clause.setdefault(clause, {})
            e = d.get(cls)
            n = fs.count[(clause, cls)] + (e["count"] if e else 0)
            if e is None or (tuple(key), 0 if dom == "direct drive" else 1) < (e["key"], e["rank"]):
                e = {"key": tuple(key), "rank": 0 if dom == "direct drive" else 1, "function": fn, "detail": det, "found_in": dom}
            e["count"] = n
            d[cls] = e
    chosen = {}
    for clause, d in per_clause.items():
        reg = set(known.get(clause, []))
        unreg = sorted(c for c in d if c not in reg)
        pool_ = unreg or sorted(d)
        cls = min(pool_, key=lambda c: (d[c]["key"], d[c]["rank"], c))
        chosen[clause] = (cls, unreg)
    # shrink the SQL witnesses of the chosen failures
    todo = []
    for clause, (cls, _u) in sorted(chosen.items()):
        det = per_clause[clause][cls]["detail"]
        if isinstance(det, dict) and det.get("sql") and (det.get("policy") or det.get("e2e_policy")):
            todo.append((clause, (det["dialect"], det.get("policy") or det.get("e2e_policy"), det["sql"], clause, cls)))
    shrunk = {}
    if todo:
        try:
            res = _pmap(_shrink_task, [t for _, t in todo], 6, 300)
        except mp.TimeoutError:         # shrinking is a convenience: report the unshrunk witnesses rather than nothing
            res = [(t[2], 0, "shrink pool timed out") for _, t in todo]
        for (clause, t), (sql, evals, ok) in zip(todo, res):
            shrunk[clause] = (t, sql, evals, ok)
    failed = []
    for clause in sorted(per_clause):
        cls, unreg = chosen[clause]
        e = per_clause[clause][cls]
        det = e["detail"]
        info = {}
        if clause in shrunk:
            t, sql, evals, ok = shrunk[clause]
            info = {"shrunk_from_chars": len(t[2]), "shrunk_to_chars": len(sql), "shrink_evaluations": evals, "reproduced_before_shrinking": ok}
            if ok is True and sql != t[2]:
                try:
                    d2 = _final_witness(t[0], t[1], sql, clause, cls)
                except Exception:
                    d2 = None
                if d2:
                    det = dict(d2, input=f"{det.get('input')} (shrunk)")
        detail = {"failure_class": cls, "smallest_failing_case": det, "found_in": e["found_in"], "shrinking": info,
                  "failing_cases_per_class": {c: per_clause[clause][c]["count"] for c in sorted(per_clause[clause])},
                  "witness_per_class": {c: _brief(per_clause[clause][c]["detail"]) for c in sorted(per_clause[clause])},
                  "registered_classes": sorted(known.get(clause, [])),
                  "unregistered_failure_classes": unreg}
        failed.append({"name": clause, "id": clause, "kind": "bounded", "status": "failed", "function": e["function"], "backend": BACKEND,
                       "detail": detail, "reproduced": True})
    out = {"name": "C15-clause-verdicts", "bound": "union of C15-handle_segment-direct and C15-real-lint-fix-runs",
           "rule": "one entry per clause id that failed on at least one case, carrying the smallest (shrunk) failing case of a failure class not "
                   "registered in known_findings.json if there is one; no new cases (shrinking re-runs sub-texts of a failing input)",
           "evaluations": 0, "distinct_nontrivial": 0, "samples": [{"clause_ids_evaluated": clause_ids()}],
           "clauses_failed": [f["id"] for f in failed], "observations": observations, "failed": failed}
    _CACHE[ck] = out
    return out


def _brief(det):
    if not isinstance(det, dict):
        return det
    keep = ("dialect", "input", "policy", "e2e_policy", "rule", "segment_type", "segment_raw", "fixed_raw", "sql", "fixed_sql", "input_token", "output_token", "output_piece")
    return {k: (v[:300] if isinstance(v, str) else v) for k, v in det.items() if k in keep}


def clause_ids():
    ids = []
    for code in RULES:
        ids += [f"C15/{code}/{p}/case-only" for p in policy_options(code)]
        ids += [f"C15/{code}/fix-shape", f"C15/{code}/fix-anchor-in-allowed-family", f"C15/crawl-targets/{code}", f"C15/crawl-targets/{code}/no-quoted-token-parser"]
    for p in E2E_POLICIES:
        ids += [f"C15/e2e/{p}/case-only", f"C15/e2e/{p}/untouched-tokens-identical"]
    return ids


# ===================================================================================================== layer 2 (static): EXTRA
QUOTED_SAMPLES = ["'A'", '"A"', "`A`", "[A]", "$$A$$", "$A$B$A$", "-- A", "/* A */", "# A", " ", "\n", "N'A'", "E'A'"]


def walk_parsers(dialect):
    """every token parser reachable from the dialect library (segment classes -> match_grammar, grammars -> elements/terminators/...)"""
    seen, out = set(), []
    stack = list(dialect._library.values())
    while stack:
        x = stack.pop()
        if id(x) in seen:
            continue
        seen.add(id(x))
        if isinstance(x, BaseParser):
            out.append(x)
        elif isinstance(x, type) and issubclass(x, BaseSegment):
            g = getattr(x, "match_grammar", None)
            if g is not None:
                stack.append(g)
        elif isinstance(x, BaseGrammar):
            for attr in ("_elements", "terminators"):
                stack.extend(getattr(x, attr, ()) or ())
            for attr in ("exclude", "delimiter", "target", "start_bracket", "end_bracket"):
                v = getattr(x, attr, None)
                if v is not None and not isinstance(v, (str, bool, int)):
                    stack.append(v)
        elif isinstance(x, (list, tuple)):
            stack.extend(x)
    return out, len(seen)


def quoted_match(p, forb_lex):
    """a sample of quoted / comment / whitespace text this parser accepts, or None"""
    if isinstance(p, TypedParser):
        return f"<{p.template} token>" if p.template in forb_lex else None
    if isinstance(p, RegexParser):
        for smp in QUOTED_SAMPLES:          # mirrors RegexParser.match: full match of the (upper-cased) raw, anti-template not matching
            raw = smp.upper() if p.ignore_case else smp
            r = p._template.match(raw)
            if r and r.group(0) == raw and not (p.anti_template and p._anti_template.match(raw)):
                return smp
        return None
    # a quoted template without cased letters cannot be altered by a case mapping
    if isinstance(p, MultiStringParser):
        hit = sorted(t for t in p.templates if delimiter_kind(t) and t.upper() != t.lower())
        return hit[0] if hit else None
    if isinstance(p, StringParser):
        return p.template if delimiter_kind(p.template) and p.template.upper() != p.template.lower() else None
    return None


def handled_by(code, seg_types):
    """would a raw segment with these types be handed to _handle_segment by rule `code` (as far as the class constants decide it)"""
    cls = RULES[code]
    if not (seg_types & set(cls.crawl_behaviour.types)):
        return False
    if cls._eval is Rule_CP01._eval or code == "CP02":         # CP02._eval delegates to CP01._eval
        return not (seg_types & set(cls._exclude_types))
    return bool(seg_types & {"data_type_identifier"})          # CP05: raw data_type_identifier tokens (directly or through their parent)


def crawl_targets(tier, seed):
    """EXTRA, decided by evaluation over constant program data: the class constants of CP01..CP05 and the token parsers of all dialects"""
    from sqlfluff.core.rules.crawlers import SegmentSeekerCrawler
    failed, samples, n, ok = [], [], 0, 0
    known = load_known_classes()
    forb_lex = forbidden_lexer_types()

    def ob(oid, classes, detail):
        nonlocal n, ok
        n += 1
        if not classes:
            ok += 1
            if len(samples) < 4:
                samples.append({"obligation": oid, "backend": "evaluation over constant data", **detail})
            return
        reg = set(known.get(oid, []))
        unreg = sorted(c for c in classes if c not in reg)
        failed.append({"name": oid, "id": oid, "kind": "constant-data", "status": "failed", "function": "sqlfluff.rules.capitalisation",
                       "backend": "evaluation over constant data (exhaustive)", "reproduced": True,
                       "detail": dict(detail, failure_classes=sorted(classes), registered_classes=sorted(reg), unregistered_failure_classes=unreg)})
    for code, cls in RULES.items():
        cb = cls.crawl_behaviour
        types = set(getattr(cb, "types", ()))
        bad = []
        if not isinstance(cb, SegmentSeekerCrawler) or not types:
            bad.append("crawl_behaviour is not a SegmentSeekerCrawler with a type set")
        bad += [f"targets type {t} outside the family of {code}" for t in sorted(types - TARGET_FAMILY[code])]
        bad += [f"targets quoted/comment/whitespace/literal type {t}" for t in sorted(types & (FORBIDDEN_PARSE_TYPES | forb_lex))]
        if code == "CP01":
            if "literal" not in cls._exclude_types:
                bad.append("CP01._exclude_types does not exclude 'literal'")
            missing = {"data_type", "datetime_type_identifier", "primitive_type"} - set(cls._exclude_parent_types)
            if missing:
                bad.append(f"CP01._exclude_parent_types misses {sorted(missing)}")
        if code == "CP02" and "literal" not in cls._exclude_types:
            bad.append("CP02._exclude_types does not exclude 'literal'")
        for meth in ("_handle_segment", "_init_capitalisation_policy"):
            if code != "CP01" and meth in vars(cls):
                bad.append(f"{code} overrides {meth} (the layer 1 contract is driven through the inherited CP01 method)")
        if not set(policy_options(code)) <= set(E2E_POLICIES):
            bad.append(f"policy option outside {E2E_POLICIES}: {sorted(set(policy_options(code)) - set(E2E_POLICIES))}")
        ob(f"C15/crawl-targets/{code}", bad, {"rule": code, "crawl_types": sorted(types), "_exclude_types": list(cls._exclude_types),
                                              "_exclude_parent_types": list(cls._exclude_parent_types), "policy_options": policy_options(code)})
    # the grammar walk
    offenders = {code: {} for code in RULES}
    n_parsers = n_nodes = 0
    for lab in DIALECTS():
        ps, nodes = walk_parsers(dialect_selector(lab))
        n_parsers += len(ps)
        n_nodes += nodes
        for p in ps:
            seg_types = set(p._instance_types) | set(p.raw_class._class_types)
            smp = None
            for code in RULES:
                if handled_by(code, seg_types):
                    smp = smp if smp is not None else (quoted_match(p, forb_lex) or "")
                    if smp:
                        prim = p._instance_types[0] if p._instance_types else p.raw_class.type
                        offenders[code].setdefault(f"{lab}: {type(p).__name__} producing {prim} ({p.raw_class.__name__}) accepts quoted text", smp)
    for code in RULES:
        ob(f"C15/crawl-targets/{code}/no-quoted-token-parser", sorted(offenders[code]),
           {"rule": code, "dialects": len(DIALECTS()), "token_parsers_visited": n_parsers, "grammar_nodes_visited": n_nodes,
            "accepted_sample_per_offender": offenders[code], "samples_tried_on_regex_parsers": QUOTED_SAMPLES,
            "quoted_lexer_types": sorted(forb_lex)})
    return {"name": "C15-crawl-targets", "obligations": n, "discharged": ok, "failed": failed, "undecided": [], "samples": samples,
            "backend": "evaluation over constant data (rule class constants, dialect grammars)",
            "trusted": ["the grammar traversal (library values -> match_grammar -> _elements/terminators/exclude/delimiter/brackets) reaches every token parser of a dialect"]}


# ===================================================================================================== self-checks of this checker (EXTRA)
SPECIAL = "ßẞıİǅǆǄﬁﬂΣσςſKÅµΐΰŉǰẖẗẘẙẚὐᾳῼⅰⅠⓐⒶ"      # special-casing / context-sensitive / title-case / compatibility letters
OPS = (("upper", str.upper), ("lower", str.lower), ("capitalize", str.capitalize))


def _law_ops(x):
    n = norm(x)
    return all(norm(f(x)) == n for _, f in OPS)


def self_checks(tier, seed):
    """Obligations about THIS CHECKER only: the laws of the normaliser, the sensitivity of the oracles to seeded faults, and the agreement of
    the direct drive with what the real linter hands to _handle_segment.  Nothing about the property is counted as discharged here."""
    failed, n, ok, samples = [], 0, 0, []

    def ob(oid, good, detail):
        nonlocal n, ok
        n += 1
        if good:
            ok += 1
            if len(samples) < 10:
                samples.append({"obligation": oid, "backend": "evaluation (checker self-check)", **_js(detail)})
        else:
            failed.append({"name": oid, "id": oid, "kind": "self-check", "status": "failed", "function": "contracts.c15", "detail": _js(detail), "reproduced": True})
    rng = random.Random(seed * 101 + 15)
    # ---- laws of norm on every code point
    bad = [hex(cp) for cp in range(0x110000) if not (0xD800 <= cp <= 0xDFFF) and not _law_ops(chr(cp))]
    ob("C15/self-check/norm/case-ops-law[all-code-points]", not bad,
       {"law": "norm(c.upper()) == norm(c.lower()) == norm(c.capitalize()) == norm(c)", "code_points": 0x110000 - 0x800, "violations": bad[:5]})
    # ---- exhaustive short strings over alphabet + special characters
    pool = list(dict.fromkeys(ALPHABET + SPECIAL))
    L = 3
    cnt, bad_ops, bad_cat = 0, [], []
    for k in range(1, L + 1):
        for t in itertools.product(pool, repeat=k):
            x = "".join(t)
            cnt += 1
            if not _law_ops(x):
                bad_ops.append(x)
            for i in range(1, k):
                if norm(x[:i] + x[i:]) != norm(x[:i]) + norm(x[i:]):
                    bad_cat.append(x)
    ob(f"C15/self-check/norm/case-ops-law[all strings len<={L} over {len(pool)} special letters]", not bad_ops, {"strings": cnt, "violations": bad_ops[:5]})
    ob(f"C15/self-check/norm/concat-law[all splits of strings len<={L} over {len(pool)} special letters]", not bad_cat,
       {"law": "norm(x + y) == norm(x) + norm(y)", "strings": cnt, "violations": bad_cat[:5]})
    # ---- random multi-character strings
    big = pool + [chr(c) for c in range(0x20, 0x250)] + [chr(c) for c in range(0x370, 0x400)] + [chr(c) for c in range(0x1F00, 0x2000)]
    N = 100000 if tier == "quick" else 400000
    bad_ops, bad_cat = [], []
    for _ in range(N):
        x = "".join(rng.choice(big if rng.random() < 0.5 else pool) for _ in range(rng.randint(1, 8)))
        if not _law_ops(x):
            bad_ops.append(x)
        i = rng.randint(0, len(x))
        if norm(x) != norm(x[:i]) + norm(x[i:]):
            bad_cat.append(x)
    ob("C15/self-check/norm/case-ops-law[random multi-character strings]", not bad_ops, {"strings": N, "pool": len(big), "violations": bad_ops[:5]})
    ob("C15/self-check/norm/concat-law[random multi-character strings]", not bad_cat, {"strings": N, "violations": bad_cat[:5]})
    # ---- the obvious simpler normalisers do NOT satisfy the law (so the choice matters), each with its witness
    alts = {"lower": str.lower, "upper": str.upper, "casefold": str.casefold}
    wit = {}
    for name, f in alts.items():
        for x in pool:
            w = next((op for op, g in OPS if f(g(x)) != f(x)), None)
            if w:
                wit[name] = {"string": x, "operation": w, "alt(op(x))": f(getattr(x, w)()), "alt(x)": f(x)}
                break
    ob("C15/self-check/norm/simpler-normalisers-refuted", set(wit) == set(alts), {"witnesses": wit})
    # ---- case_eq separates what the property separates
    sep = [("fooBar", "foo_bar"), ("a b", "ab"), ("é", "e"), ("a", "á"), ("1", "l"), ("'x'", '"x"'), ("ab", "ba"), ("a", "aa"), ("a ", "a"),
           ("a\n", "a\r\n"), ("-- x", "--x"), ("0x1F", "0x1G")]
    same = [("straße", "STRASSE"), ("İ", "i̇"), ("ǅ", "ǆ"), ("Σας", "σασ"), ("ﬁ", "FI"), ("select", "SeLeCt"), ("ıI", "Ii")]
    ob("C15/self-check/case_eq/separates-non-case-differences", not [p for p in sep if case_eq(*p)], {"pairs": sep})
    ob("C15/self-check/case_eq/accepts-case-differences", all(case_eq(*p) for p in same), {"pairs": same})
    # ---- the _handle_segment contract rejects seeded faulty results (built on a real harvested context)
    install_spy()
    protos = _DIRECT.get("protos") or harvest_contexts()
    seg, ctx = protos["CP02"]["naked_identifier"]
    rule, cfg = rule_object("ansi", "CP02", "upper")
    parent = ctx.parent_stack[-1]
    other = protos["CP01"]["keyword"][0]

    def verdict(result):
        f = Fails()
        handle_segment_contract(rule, seg, {}, result, f, lambda: {}, True)
        return sorted(c for c, _ in f.best)
    rule._handle_segment(seg.edit("zz"), dataclasses.replace(ctx, config=cfg, memory={}))        # initialises rule.cap_policy
    good = LintResult(anchor=seg, fixes=[LintFix.replace(seg, [seg.edit(seg.raw.upper())])])
    faults = {
        "two fixes": LintResult(anchor=seg, fixes=[LintFix.replace(seg, [seg.edit("A")]), LintFix.replace(seg, [seg.edit("A")])]),
        "anchor is the parent": LintResult(anchor=seg, fixes=[LintFix.replace(parent, [seg.edit("A")])]),
        "create_after instead of replace": LintResult(anchor=seg, fixes=[LintFix.create_after(seg, [seg.edit("A")])]),
        "edit of another class": LintResult(anchor=seg, fixes=[LintFix.replace(seg, [other.edit("A")])]),
        "two edit segments": LintResult(anchor=seg, fixes=[LintFix.replace(seg, [seg.edit("A"), seg.edit("A")])]),
        "underscore inserted": LintResult(anchor=seg, fixes=[LintFix.replace(seg, [seg.edit("_" + seg.raw.upper())])]),
        "letter replaced": LintResult(anchor=seg, fixes=[LintFix.replace(seg, [seg.edit("Q")])]),
    }
    ob("C15/self-check/contract/accepts-a-correct-fix", verdict(good) == [], {"segment_raw": seg.raw, "clauses_failed": verdict(good)})
    for name, res in faults.items():
        v = verdict(res)
        ob(f"C15/self-check/contract/rejects[{name}]", bool(v), {"fault": name, "clauses_failed": v})
    # ---- the e2e comparison rejects seeded faulty outputs and accepts a pure re-casing
    lnt = _linter("ansi", "upper")
    src = "select a, 'Str', \"Qid\" -- Note\nfrom t /* Blk */ where b = 1.5e3\n"
    outs = {
        "string literal re-cased": src.replace("'Str'", "'STR'"), "quoted identifier re-cased": src.replace('"Qid"', '"QID"'),
        "inline comment re-cased": src.replace("-- Note", "-- NOTE"), "block comment re-cased": src.replace("/* Blk */", "/* BLK */"),
        "whitespace changed": src.replace("from t", "from  t"), "numeric literal re-cased": src.replace("1.5e3", "1.5E3"),
        "word replaced": src.replace("where b", "where c"), "underscore inserted": src.replace("select a", "select _a"),
        "token dropped": src.replace(", 'Str'", ""), "newline dropped": src.replace("-- Note\n", "-- Note"),
    }
    v0 = compare_texts(lnt, src, src.replace("select a", "SELECT A").replace("from t", "From T").replace("where b", "WHERE B"), "upper", [])[0]
    ob("C15/self-check/e2e-oracle/accepts-pure-recasing", v0 == [], {"input": src, "failures": [(c, k) for c, k, _ in v0]})
    for name, o in outs.items():
        v = compare_texts(lnt, src, o, "upper", [])[0]
        ob(f"C15/self-check/e2e-oracle/rejects[{name}]", bool(v), {"fault": name, "failures": [(c, k) for c, k, _ in v]})
    jsrc = "select {{ 'Select' }} as a, b {# Note #} from t {% if true %}where X = 1{% endif %}\n"
    for name, o in {"templated expression re-cased": jsrc.replace("{{ 'Select' }}", "{{ 'SELECT' }}"), "template comment re-cased": jsrc.replace("{# Note #}", "{# NOTE #}"),
                    "block tag re-cased": jsrc.replace("{% if true %}", "{% IF TRUE %}")}.items():
        try:
            v = compare_texts(lnt, jsrc, o, "upper", [])[0]
        except Exception as e:      # an output the templater refuses is a rejection too
            v = [("case-only", repr(e), {})]
        ob(f"C15/self-check/e2e-oracle/rejects[{name}]", bool(v), {"fault": name, "failures": [(c, k) for c, k, _ in v]})
    vj = compare_texts(lnt, jsrc, jsrc.replace("as a, b", "AS A, B").replace("where X", "WHERE x"), "upper", [])[0]
    ob("C15/self-check/e2e-oracle/accepts-recasing-of-literal-code-in-a-template", vj == [], {"input": jsrc, "failures": [(c, k) for c, k, _ in vj]})
    # ---- the direct drive and the real linter agree on what _handle_segment returns for the same (rule, policy, text)
    handle_segment_direct(tier, seed)
    linter_runs(tier, seed)
    table, spy = _CACHE[("L1-table", tier, seed)], _CACHE[("L23-spy-table", tier, seed)]
    cmp_, dis = 0, []
    for code, pol, atype, raw, fixed in sorted(spy):
        t = table.get((code, pol), {})
        for key, dfix in t.items():
            if key.split("|", 1)[1] == raw:
                cmp_ += 1
                if dfix != fixed:
                    dis.append({"rule": code, "policy": pol, "raw": raw, "linter": fixed, "direct": dfix})
                break
    ob("C15/self-check/direct-drive-agrees-with-linter", cmp_ > 0 and not dis,
       {"fixes_seen_by_the_spy_in_token_template_runs_with_explicit_policy": len(spy), "compared_with_direct_drive": cmp_, "disagreements": dis[:5]})
    a, b = _CACHE[("L1", tier, seed)], _CACHE[("L23", tier, seed)]
    cases = [{"case": "direct drive", **x} for x in a["samples"][:2]] + [{"case": "real lint+fix run", **x} for x in b["samples"][:1]]
    return {"name": "C15-checker-self-checks", "obligations": n, "discharged": ok, "failed": failed, "undecided": [],
            "samples": cases[:3] + samples, "backend": "evaluation (checker self-checks only; the property is bounded, not proved)", "trusted": []}


EXTRA = [self_checks, crawl_targets]
BOUNDED = [handle_segment_direct, linter_runs, clause_verdicts]

RULE = ("cases are (a) calls of the real Rule_CP0x._handle_segment: one per (rule, policy value, memory state, segment type, segment text), the texts "
        "enumerated exhaustively over a 9-letter alphabet (a B _ 1 and the special-casing letters e-acute, sharp s, dotted capital I, dotless i, sigma) "
        "up to length 5, on RuleContexts harvested from a real lint run; non-trivial = the call returned a fix (counted; all such cases are distinct by "
        "construction); (b) real runs Linter.lint_string(sql, fix=True) + fix_string, one per (dialect, input, policy): seeded fixture files, crafted "
        "statements, token-template queries; non-trivial = the fix changed the text (distinct (dialect, input, policy) triples counted). "
        "distinct_nontrivial is the measured sum of the two; evaluations = _handle_segment calls checked (direct + spied) + end-to-end comparisons.")

EXPLANATION = (
    "BOUNDED stand-in for C15; nothing is proved (regex.sub with lambdas, dict memory and try/except AttributeError in _handle_segment are outside the "
    "pyvc engine). The property is turned into executable clauses. Layer 1: every LintResult returned by _handle_segment that has fixes has exactly one, "
    "a replace anchored on the handled segment with one edit segment of the same class and types, and case_eq(fixed_raw, segment.raw) with "
    "case_eq(a,b) := norm(a)==norm(b), norm(x)=x.upper().casefold(); one clause id per (rule, configured policy). Layer 2: the class constants "
    "(crawl types, exclusions, policy options) are inside the family the property names, no token parser of any of the 28 dialect grammars gives a "
    "quoted/comment/whitespace token a type that a CP rule handles, and every fix anchor observed in the real runs is an unquoted raw segment of the "
    "family. Layer 3: the fixed text is templated and lexed with the real templater/lexer next to the input; tokens that are not unquoted words in literal "
    "source (whitespace, comments, quoted identifiers, strings, numbers, symbols, template tags and everything rendered from a tag) must be "
    "byte-identical, word tokens case_eq. A clause can fail for several reasons; failures are grouped by a diagnosis string (class). Each failing clause "
    "yields ONE failed entry with the smallest (ddmin-shrunk) witness; known_findings.json entries of C15 list the classes they stand for in `classes`, and "
    "the entry reports `unregistered_failure_classes` (the witness is taken from an unregistered class when there is one), which is what the known "
    "finding's witness_contains pins to []: a new class, or a new failing clause id, exits 1. coverage.obligations/discharged count only checker "
    "self-checks and the exhaustive constant-data obligations of layer 2, not bounded clauses.")

TRUSTED = [
    "norm(x) = x.upper().casefold() as the meaning of 'equal except letter case' (laws self-checked on all code points and on random strings; it identifies "
    "letters sharing an upper-case form: dotless i ~ i, long s ~ s, final sigma ~ sigma, Kelvin sign ~ k)",
    "the real lexer's token types as the meaning of whitespace / comment / quoted identifier / string / number / symbol: only tokens of lexer type 'word' in "
    "literal (untemplated) source may change case",
    "the spy wrapped around Rule_CP01._handle_segment returns the original result unchanged",
    "the diagnosis strings (failure classes) partition failures correctly; an unrecognised failure gets an 'unexplained: ...' class, which is never registered",
]
NOT_COVERED = [
    "anything outside the stated bounds: token texts longer than 5 or over other letters, fixture files not drawn by the seed or longer than the tier's cap, "
    "inputs with parse / template / lex errors (the linter does not fix those by default; counted as skipped)",
    "options ignore_words, ignore_words_regex, ignore_templated_areas, unquoted_identifiers_policy (they only make _eval/_handle_segment return early)",
    "the Rust detection path (_eval_rust / sqlfluffrs): not built here, the Python path runs",
    "whether a re-cased unquoted identifier still denotes the same object in a case-sensitive dialect (a semantic question, not C15)",
    "that the fixed text still lexes the same way: lower('\u0130') = 'i' + U+0307 no longer lexes as one word in postgres (reported under observations, texts are case-equal)",
    "CR LF handling of file paths (Linter reads with universal newlines); only the lint_string observable is checked, where the CR LF -> LF rewrite is a registered class",
]

# ===================================================================================================== must-fail mutants
_CP01 = "sqlfluff/rules/capitalisation/CP01.py"
MUTANTS = [
    ("upper_branch_drops_underscores", _CP01, "                fixed_raw = fixed_raw.upper()", "                fixed_raw = fixed_raw.upper().replace(\"_\", \"\")"),
    ("capitalise_branch_uses_title_and_strips", _CP01, "                fixed_raw = fixed_raw.capitalize()", "                fixed_raw = fixed_raw.title().replace(\"1\", \"l\")"),
    ("pascal_lambda_drops_group3", _CP01, "lambda match: match.group(1) + match.group(2).upper() + match.group(3),", "lambda match: match.group(1) + match.group(2).upper(),"),
    ("camel_lambda_drops_group1", _CP01, "lambda match: match.group(1) + match.group(2).lower() + match.group(3),", "lambda match: match.group(2).lower() + match.group(3),"),
    ("get_fix_anchors_on_parent", _CP01, "        return LintFix.replace(segment, [segment.edit(fixed_raw)])",
     "        return LintFix.replace(segment.get_parent()[0] if segment.get_parent() else segment, [segment.edit(fixed_raw)])"),
    ("handle_segment_returns_two_fixes", _CP01, "                fixes=[self._get_fix(segment, fixed_raw)],\n                memory=memory,",
     "                fixes=[self._get_fix(segment, fixed_raw), self._get_fix(segment, fixed_raw)],\n                memory=memory,"),
    ("cp02_crawls_quoted_identifiers", "sqlfluff/rules/capitalisation/CP02.py", '        {"naked_identifier", "properties_naked_identifier"}',
     '        {"naked_identifier", "properties_naked_identifier", "quoted_identifier"}'),
    ("cp01_exclude_types_emptied", _CP01, '    _exclude_types: tuple[str, ...] = ("literal",)', "    _exclude_types: tuple[str, ...] = ()"),
    ("snake_applied_for_consistent", _CP01, '                concrete_policy = memory.get("latest_possible_case", "upper")', '                concrete_policy = "snake"'),
    ("lower_branch_strips_accents", _CP01, "                fixed_raw = fixed_raw.lower()", "                fixed_raw = fixed_raw.lower().replace(\"\\u00e9\", \"e\")"),
    ("cp04_crawls_quoted_literals", "sqlfluff/rules/capitalisation/CP04.py", 'SegmentSeekerCrawler({"null_literal", "boolean_literal"})',
     'SegmentSeekerCrawler({"null_literal", "boolean_literal", "quoted_literal"})'),
]
