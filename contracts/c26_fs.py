"""C26, deductive part -- LintedFile._safe_create_replace_file under a pyvc contract over a GHOST FILE SYSTEM; LintedFile.persist_tree,
LintedDir.persist_changes and the apply_fixes statements of Linter.lint_paths under contracts over path strings (second half of
the file).  Imported by contracts/c26.py; the fault enumeration and the syntactic obligations stay there.

The model (every class below is a MODEL class of this file, declared to pyvc with ref_class; nothing in /repo is touched):

  FsEntry   a directory entry.  In the contract of _safe_create_replace_file a *path* (the `str` parameters input_path /
            output_path, tmp.name, tmp_name) is identified with the directory entry it names: the function never looks
            inside a path, it only hands paths to os / shutil / tempfile.  Two paths may or may not name the same entry
            (in place: input_path is output_path; with a suffix: two entries) -- nothing is assumed about that.
            ghost fields: g_exists, g_text / g_enc / g_raw (the bytes of the file are g_text encoded with codec g_enc, newlines
            written as given iff g_raw), g_stmode (st_mode), g_dir / g_base (os.path.split of the path), g_born (creation stamp)
  FsWorld   the one file-system object `fs()`: g_faults (number of primitive calls that raised anything but the
            FileNotFoundError answer of os.stat), g_ncreated (temp files created so far; the n-th one is nth_temp(n))
  FileModel the object tempfile.NamedTemporaryFile returns (wrapper and underlying text file are ONE object in the model:
            `tmp.file is tmp`): name, file, ghost g_written / g_pristine / g_enc / g_raw / g_delete
  StatModel os.stat_result: st_mode

Every primitive the write path calls has an ASSUMED contract below (kind external; listed in the evidence): what it does
to the ghost state when it returns, and -- hint_on_raise, assumed on the raising exit after the havoc of `modifies` -- what
it leaves behind when it raises.  Every primitive may raise OSError (or a subclass) and KeyboardInterrupt at any call
(tmp.file.write also UnicodeEncodeError: the text is not encodable); a raising write leaves ARBITRARY partial content.
NOTE: do not add `from __future__ import annotations` here -- the annotations of @spec(uninterpreted=True) functions are read
as pyvc types.  Needs the engine's `hint_on_raise of an external contract is assumed on its raising exit` (pyvc/stmts.py).
"""

import z3 as _z3

from pyvc.dsl import contract, external, spec, implies, iff, ref_class, was, alias_external
from pyvc.ty import INT, BOOL, Text, TTuple, TOpt, SINK, TRef, StrN, TList, TDict
from pyvc import stmts as _stmts
from pyvc.exec import ExcInfo as _ExcInfo, Outcome as _Outcome

PROP = "C26"
SAFE = "sqlfluff.core.linter.linted_file:LintedFile._safe_create_replace_file"
PERSIST = "sqlfluff.core.linter.linted_file:LintedFile.persist_tree"


# ===================================================================================================================
# model classes (real Python classes so that pyvc resolves attribute / method names on them; never instantiated)
# ===================================================================================================================
class FsEntry:
    pass


class FsWorld:
    pass


class StatModel:
    pass


class FileModel:
    """tempfile._TemporaryFileWrapper + the io.TextIOWrapper behind it (one object in the model)"""

    def write(self, s):
        raise NotImplementedError("model class")

    def flush(self):
        raise NotImplementedError("model class")

    def fileno(self):
        raise NotImplementedError("model class")

    def close(self):
        raise NotImplementedError("model class")


_M = "contracts.c26_fs:"
Entry = ref_class(_M + "FsEntry", g_exists=BOOL, g_text=Text, g_enc=Text, g_raw=BOOL, g_stmode=INT, g_dir=Text, g_base=Text,
                  g_born=INT)
World = ref_class(_M + "FsWorld", g_faults=INT, g_ncreated=INT)
Stat = ref_class(_M + "StatModel", st_mode=INT)
File = ref_class(_M + "FileModel", name=Entry, file=TRef("FileModel"), g_written=Text, g_pristine=BOOL, g_enc=Text, g_raw=BOOL,
                 g_delete=BOOL, g_closed=BOOL)
_WORLD = FsWorld()


# ===================================================================================================================
# specification vocabulary (written from the property text)
# ===================================================================================================================
@spec(uninterpreted=True)
def the_world(k: INT) -> World:
    """the file system (one object; the index is a dummy: z3 has no nullary function declarations here)"""
    return _WORLD


@spec
def fs():
    return the_world(0)


@spec(uninterpreted=True)
def is_reg(st_mode: INT) -> BOOL:
    """stat.S_ISREG"""
    import stat
    return stat.S_ISREG(st_mode)


@spec(uninterpreted=True)
def perm_bits(st_mode: INT) -> INT:
    """stat.S_IMODE: the permission bits of an st_mode"""
    import stat
    return stat.S_IMODE(st_mode)


@spec(uninterpreted=True)
def system_tmpdir(k: INT) -> Text:
    """tempfile.gettempdir()"""
    import tempfile
    return tempfile.gettempdir()


@spec(uninterpreted=True)
def locale_encoding(k: INT) -> Text:
    import locale
    return locale.getpreferredencoding(False)


@spec(uninterpreted=True)
def nth_temp(n: INT) -> Entry:
    """the n-th temp file that tempfile creates (history of the file system object; n counts from 1)"""
    return None


@spec
def norm_dir(d):
    """a directory path up to the spelling of the current directory: os.path.dirname gives "" where callers often pass "." """
    return "" if (d == "." or len(d) == 0) else d


@spec
def same_file(e, old):
    """entry e holds what it held at `old`: still absent, or the same bytes (text, codec, newline handling) and st_mode"""
    return ((not e.g_exists and not was(old, e).g_exists)
            or (e.g_exists and was(old, e).g_exists and e.g_text == was(old, e).g_text and e.g_enc == was(old, e).g_enc
                and e.g_raw == was(old, e).g_raw and e.g_stmode == was(old, e).g_stmode))


@spec
def is_fixed_file(out, src, text, encoding, old):
    """entry `out` holds the COMPLETE fixed content: exactly `text`, encoded with the file's encoding (that is what keeps a
    UTF-8 BOM: utf-8-sig / utf-16 write theirs), newlines as given, and -- when the original `src` was a regular file at
    entry -- the original's permission bits"""
    return (out.g_exists and out.g_text == text and out.g_enc == encoding and out.g_raw
            and implies(was(old, src).g_exists and is_reg(was(old, src).g_stmode),
                        perm_bits(out.g_stmode) == perm_bits(was(old, src).g_stmode)))


@spec
def no_new_fault(old):
    return fs().g_faults == was(old, fs()).g_faults


@spec
def one_new_fault(old):
    return fs().g_faults == was(old, fs()).g_faults + 1


@spec
def no_temp_left(old):
    """no temp file created since `old` exists any more (each was removed, or renamed away)"""
    return all(not nth_temp(n).g_exists for n in range(was(old, fs()).g_ncreated + 1, fs().g_ncreated + 1))


@spec
def creation_unchanged(old):
    return fs().g_ncreated == was(old, fs()).g_ncreated


# ===================================================================================================================
# ASSUMED contracts of the primitives
# ===================================================================================================================
import os as _os          # noqa: E402
import shutil as _shutil  # noqa: E402
import stat as _stat      # noqa: E402
import tempfile as _tempfile  # noqa: E402

alias_external(_os.stat, "os:stat")
alias_external(_os.chmod, "os:chmod")
alias_external(_os.remove, "os:remove")
alias_external(_os.unlink, "os:remove")
alias_external(_os.fsync, "os:fsync")
alias_external(_os.path.exists, "os.path:exists")
alias_external(_os.path.lexists, "os.path:exists")
alias_external(_os.path.split, "os.path:split")
alias_external(_os.path.splitext, "os.path:splitext")
alias_external(_os.path.dirname, "os.path:dirname")
alias_external(_os.path.basename, "os.path:basename")
alias_external(_shutil.move, "shutil:move")
alias_external(_os.replace, "os:replace")
alias_external(_os.rename, "os:replace")
alias_external(_tempfile.NamedTemporaryFile, "tempfile:NamedTemporaryFile")
alias_external(_stat.S_ISREG, "stat:S_ISREG")
alias_external(_stat.S_IMODE, "stat:S_IMODE")
alias_external(open, "builtins:open")

W = "heap:FsWorld."
FAULTS = {"OSError+": None, "KeyboardInterrupt": None}


@external("os:stat", PROP)
class os_stat:
    """FileNotFoundError exactly when the entry does not exist (that is an ANSWER, not counted as a fault); any other failure
    (PermissionError stands for the OSErrors that are not FileNotFoundError) may happen at any time"""
    types = {"path": Entry}
    ret = Stat
    raises = {"FileNotFoundError": lambda path: not path.g_exists, "PermissionError": None, "KeyboardInterrupt": None}
    opts = {"raises_iff": False}
    modifies = [W + "g_faults"]

    def ensures(path, result, old):
        return path.g_exists and result.st_mode == path.g_stmode and no_new_fault(old)

    def hint_on_raise(path, old, exc_class):
        return (no_new_fault(old) and not path.g_exists) if exc_class == "FileNotFoundError" else one_new_fault(old)


@external("stat:S_ISREG", PROP)
class s_isreg:
    types = {"mode": INT}
    ret = BOOL

    def ensures(mode, result):
        return result == is_reg(mode)


@external("stat:S_IMODE", PROP)
class s_imode:
    types = {"mode": INT}
    ret = INT

    def ensures(mode, result):
        return result == perm_bits(mode) and 0 <= result <= 4095


@external("os.path:split", PROP)
class path_split:
    """pure path arithmetic: (directory, last component) -- the definition of the ghost fields g_dir / g_base"""
    types = {"p": Entry}
    ret = TTuple(Text, Text)

    def ensures(p, result):
        return result[0] == p.g_dir and result[1] == p.g_base


@external("os.path:dirname", PROP)
class path_dirname:
    types = {"p": Entry}
    ret = Text

    def ensures(p, result):
        return result == p.g_dir


@external("os.path:basename", PROP)
class path_basename:
    types = {"p": Entry}
    ret = Text

    def ensures(p, result):
        return result == p.g_base


@external("os.path:splitext", PROP)
class path_splitext:
    """called with an entry by the writer (result unused there but for the temp file's name) and with a path STRING by
    persist_tree (there: root + ext == path).  `p` is deliberately left untyped."""
    types = {}
    ret = TTuple(StrN, StrN)

    def ensures(p, result):
        return (result[0] + result[1] == p) if isinstance(p, str) else True


@external("tempfile:NamedTemporaryFile", PROP)
class named_temporary_file:
    """creates (O_CREAT | O_EXCL, random name) a NEW regular file in directory `dir` (the system temp directory when dir is
    None) and opens it for text writing with the given codec / newline handling.  NEW: the entry carries a creation stamp
    later than that of every entry the caller could name before the call, hence it is none of them.  When the call raises
    nothing was created (the stdlib unlinks its own half-made file)."""
    types = {"mode": Text, "buffering": INT, "encoding": TOpt(Text), "newline": TOpt(Text), "suffix": SINK,
             "prefix": SINK, "dir": TOpt(Text), "delete": BOOL}
    ret = File
    raises = FAULTS
    modifies = [W + "g_faults", W + "g_ncreated"]

    def ensures(mode="w+b", buffering=-1, encoding=None, newline=None, suffix=None, prefix=None, dir=None, delete=True,
                result=None, old=None):
        return (no_new_fault(old) and fs().g_ncreated == was(old, fs()).g_ncreated + 1 and result.name is nth_temp(fs().g_ncreated)
                and result.name.g_born == fs().g_ncreated
                and result.name.g_exists and is_reg(result.name.g_stmode)
                and norm_dir(result.name.g_dir) == norm_dir(dir if dir is not None else system_tmpdir(0))
                and result.file is result and result.g_pristine and not result.g_closed and result.g_delete == delete
                and result.g_enc == (encoding if encoding is not None else locale_encoding(0))
                and result.g_raw == (newline is not None and newline == ""))

    def hint_on_raise(old):
        return one_new_fault(old) and creation_unchanged(old)


@external("builtins:open", PROP)
class builtin_open:
    """open(path, "w", ...): creates the entry or TRUNCATES it -- from here until the close the entry holds unknown partial
    content (the unchanged code never opens the target; this contract exists so that code which does is decided, not skipped)"""
    types = {"file": Entry, "mode": Text, "buffering": INT, "encoding": TOpt(Text), "errors": SINK, "newline": TOpt(Text)}
    ret = File
    raises = FAULTS
    modifies = ["file.g_exists", "file.g_text", "file.g_enc", "file.g_raw", "file.g_stmode", W + "g_faults"]

    def ensures(file, mode="r", buffering=-1, encoding=None, errors=None, newline=None, result=None, old=None):
        return (no_new_fault(old) and file.g_exists and result.name is file and result.file is result
                and implies(old.file.g_exists, file.g_stmode == old.file.g_stmode)
                and implies(not old.file.g_exists, is_reg(file.g_stmode))
                and result.g_pristine and not result.g_closed and not result.g_delete
                and result.g_enc == (encoding if encoding is not None else locale_encoding(0))
                and result.g_raw == (newline is not None and newline == ""))

    def hint_on_raise(file, old):
        return one_new_fault(old) and same_file(file, old)


@external(_M + "FileModel.write", PROP)
class file_write:
    """ONE write of the whole text into a pristine file makes the text to be flushed exactly `s`; a raising write (disk
    full, text not encodable ...) leaves ANY partial content behind (g_written havocked, nothing assumed)"""
    types = {"self": File, "s": Text}
    ret = INT
    raises = dict(FAULTS, UnicodeEncodeError=None)
    modifies = ["self.g_written", "self.g_pristine", W + "g_faults"]

    def ensures(self, s, result, old):
        return not self.g_pristine and implies(old.self.g_pristine, self.g_written == s) and no_new_fault(old)

    def hint_on_raise(self, s, old):
        return one_new_fault(old)


@external(_M + "FileModel.flush", PROP)
class file_flush:
    types = {"self": File}
    raises = FAULTS
    modifies = [W + "g_faults"]

    def ensures(self, old):
        return no_new_fault(old)

    def hint_on_raise(self, old):
        return one_new_fault(old)


@external(_M + "FileModel.fileno", PROP)
class file_fileno:
    types = {"self": File}
    ret = INT

    def ensures(self, result):
        return True


@external("os:fsync", PROP)
class os_fsync:
    types = {"fd": INT}
    raises = FAULTS
    modifies = [W + "g_faults"]

    def ensures(fd, old):
        return no_new_fault(old)

    def hint_on_raise(fd, old):
        return one_new_fault(old)


@external("os:chmod", PROP)
class os_chmod:
    """sets the permission bits of an existing entry (file type kept); a raising chmod may or may not have done it"""
    types = {"path": Entry, "mode": INT}
    raises = FAULTS
    modifies = ["path.g_stmode", W + "g_faults"]

    def ensures(path, mode, old):
        return (path.g_exists and implies(0 <= mode <= 4095, perm_bits(path.g_stmode) == mode)
                and is_reg(path.g_stmode) == is_reg(old.path.g_stmode) and no_new_fault(old))

    def hint_on_raise(path, mode, old):
        return one_new_fault(old)


@external("shutil:move", PROP)
class shutil_move:
    """ASSUMPTION (the one the whole protocol rests on): a move whose source and destination lie in the SAME directory is one
    rename(2), which is atomic -- it either happened completely or not at all, also when the call raises (an error
    reported late / an interrupt right after the system call).  `requires` is the condition under which this is claimed,
    so the call site owes the obligation call-pre[move]: the temp file was created in the target's directory."""
    types = {"src": Entry, "dst": Entry}
    raises = FAULTS
    modifies = ["dst.g_exists", "dst.g_text", "dst.g_enc", "dst.g_raw", "dst.g_stmode", "src.g_exists", W + "g_faults"]

    def requires(src, dst):
        return norm_dir(src.g_dir) == norm_dir(dst.g_dir)

    def ensures(src, dst, old):
        return old.src.g_exists and renamed(src, dst, old) and no_new_fault(old)

    def hint_on_raise(src, dst, old):
        return one_new_fault(old) and (renamed(src, dst, old) or (same_file(src, old) and same_file(dst, old)))




@spec
def renamed(src, dst, old):
    return (dst.g_exists and dst.g_text == was(old, src).g_text and dst.g_enc == was(old, src).g_enc
            and dst.g_raw == was(old, src).g_raw and dst.g_stmode == was(old, src).g_stmode
            and (src is dst or not src.g_exists))


@external("os:replace", PROP)
class os_replace:
    """os.replace / os.rename: as shutil.move within one directory"""
    types = {"src": Entry, "dst": Entry}
    raises = FAULTS
    modifies = ["dst.g_exists", "dst.g_text", "dst.g_enc", "dst.g_raw", "dst.g_stmode", "src.g_exists", W + "g_faults"]

    def requires(src, dst):
        return norm_dir(src.g_dir) == norm_dir(dst.g_dir)

    def ensures(src, dst, old):
        return old.src.g_exists and renamed(src, dst, old) and no_new_fault(old)

    def hint_on_raise(src, dst, old):
        return one_new_fault(old) and (renamed(src, dst, old) or (same_file(src, old) and same_file(dst, old)))


@external("os.path:exists", PROP)
class path_exists:
    types = {"path": Entry}
    ret = BOOL
    raises = {"KeyboardInterrupt": None}
    modifies = [W + "g_faults"]

    def ensures(path, result, old):
        return result == path.g_exists and no_new_fault(old)

    def hint_on_raise(path, old):
        return one_new_fault(old)


@external("os:remove", PROP)
class os_remove:
    """a raising remove may or may not have removed the entry"""
    types = {"path": Entry}
    raises = FAULTS
    modifies = ["path.g_exists", W + "g_faults"]

    def ensures(path, old):
        return old.path.g_exists and not path.g_exists and no_new_fault(old)

    def hint_on_raise(path, old):
        return one_new_fault(old)


# ------------------------------------------------------------------ the `with` exit of the temp file: close
def _close_hook(ex, st, cm, oc):
    """MODEL of FileModel.__exit__ (= close): the buffered text reaches the file -- the entry's content becomes the text
    written (complete only if the one write succeeded), with the codec / newline handling the file was opened with; a
    delete=True file is unlinked.  close itself may fail (OSError / KeyboardInterrupt): the descriptor is released, the
    content is then ARBITRARY, one more fault is counted, and the new exception replaces whatever the body raised."""
    ex.externals_used.add("model of the temp file's context exit (close): contracts/c26_fs.py _close_hook")
    entry = ex.heap_get(st, cm, "name")
    world = ex.apply_spec(st, fs, [], {})
    outs = []
    # close fails
    for cls, sub in ((OSError, True), (KeyboardInterrupt, False)):
        bad = st.fork()
        ex.heap_set(bad, cm, "g_closed", _v_bool(True))
        for fld in ("g_text", "g_enc", "g_raw"):
            k, arr, ft = ex.heap_arr(bad, "FsEntry", fld)
            bad.heap[k] = _z3.Store(arr, entry.z, _z3.Const(_fresh("closefail_" + fld), ft.sort()))
        f = ex.heap_get(bad, world, "g_faults")
        ex.heap_set(bad, world, "g_faults", _v_int(f.z + 1))
        outs.append((bad, _Outcome("raise", _ExcInfo(cls, or_subclass=sub, line=ex.cur_line))))
    # close succeeds
    ok = st
    ex.heap_set(ok, cm, "g_closed", _v_bool(True))
    for fld, src in (("g_text", "g_written"), ("g_enc", "g_enc"), ("g_raw", "g_raw")):
        ex.heap_set(ok, entry, fld, ex.heap_get(ok, cm, src))
    dele = ex.heap_get(ok, cm, "g_delete")
    cur = ex.heap_get(ok, entry, "g_exists")
    ex.heap_set(ok, entry, "g_exists", _v_bool(_z3.And(cur.z, _z3.Not(dele.z))))
    outs.append((ok, oc))
    return outs


def _v_bool(z):
    from pyvc.engine import V
    return V(BOOL, _z3.BoolVal(z) if isinstance(z, bool) else z)


def _v_int(z):
    from pyvc.engine import V
    return V(INT, z)


def _fresh(base):
    from pyvc import ty as _T
    return _T.fresh_name(base)


_stmts.WITH_HOOKS["FileModel"] = _close_hook


# ===================================================================================================================
# THE CONTRACT of LintedFile._safe_create_replace_file -- from the property text
# ===================================================================================================================
@contract(SAFE, PROP)
class safe_create_replace_file:
    types = {"input_path": Entry, "output_path": Entry, "write_buff": Text, "encoding": Text,
             "mode": TOpt(INT), "status": Stat, "dirname": Text, "basename": Text, "tmp_name": TOpt(Entry), "tmp": File}
    raises = {"BaseException+": None}

    def requires(input_path, output_path, write_buff, encoding):
        # the caller's paths name entries that are not temp files of the future (creation stamps, see NamedTemporaryFile)
        return input_path.g_born <= fs().g_ncreated and output_path.g_born <= fs().g_ncreated

    def ensures(input_path, output_path, write_buff, encoding, old):
        # a successful write: the target holds the complete fixed text in the file's encoding with the original's
        # permissions; with a fixed-file suffix (the target is another entry) the original is not modified; no temp file
        return (is_fixed_file(output_path, input_path, write_buff, encoding, old)
                and implies(input_path is not output_path, same_file(input_path, old))
                and no_temp_left(old))

    def hint_on_raise(input_path, output_path, write_buff, encoding, old):
        # every failure point (any primitive raising anything, also KeyboardInterrupt): the target holds its complete
        # original content or the complete fixed content; the original is untouched when the target is another entry;
        # and -- unless a SECOND fault hit the clean-up -- no temp file is left behind
        return ((same_file(output_path, old) or is_fixed_file(output_path, input_path, write_buff, encoding, old))
                and implies(input_path is not output_path, same_file(input_path, old))
                and fs().g_faults >= was(old, fs()).g_faults + 1
                and implies(one_new_fault(old), no_temp_left(old)))


# ===================================================================================================================
# LintedFile.persist_tree -- over path STRINGS (z3 strings: the suffixed name is built by concatenation)
# ===================================================================================================================
# The call `self._safe_create_replace_file(self.path, fname, write_buff, self.encoding)` is replaced, inside persist_tree
# only, by a RECORDER: pure ghost instrumentation that notes the call's arguments in the file-system object (g_wcalls,
# g_win, g_wout, g_wtext, g_wenc).  What the call does is the contract above (verified over entries); what persist_tree owes
# is WHICH call it makes, and when.
from sqlfluff.core.linter.linted_file import LintedFile as _LintedFile  # noqa: E402

LintedFileT = ref_class("sqlfluff.core.linter.linted_file:LintedFile", path=StrN, encoding=Text, g_fixable=INT)
ref_class(_M + "FsWorld", g_wcalls=INT, g_win=StrN, g_wout=StrN, g_wtext=Text, g_wenc=Text)
alias_external(_LintedFile.__dict__["_safe_create_replace_file"], "c26:write-call")


@spec(uninterpreted=True)
def fixed_text(f: LintedFileT) -> Text:
    """the text self.fix_string() returns (its content: C10 / C11 / C30)"""
    return f.fix_string()[0]


@spec(uninterpreted=True)
def fix_ok(f: LintedFileT) -> BOOL:
    """the success flag self.fix_string() returns"""
    return f.fix_string()[1]


@spec
def write_recorded(input_path, output_path, write_buff, encoding, old):
    return (fs().g_wcalls == was(old, fs()).g_wcalls + 1 and fs().g_win == input_path and fs().g_wout == output_path
            and fs().g_wtext == write_buff and fs().g_wenc == encoding)


@spec
def record_kept(old):
    return (fs().g_win == was(old, fs()).g_win and fs().g_wout == was(old, fs()).g_wout
            and fs().g_wtext == was(old, fs()).g_wtext and fs().g_wenc == was(old, fs()).g_wenc)


@external("c26:write-call", PROP)
class write_call:
    """RECORDER (ghost instrumentation, no assumption about the file system): the call happened with these arguments --
    whether it returns or raises"""
    types = {"input_path": StrN, "output_path": StrN, "write_buff": Text, "encoding": Text}
    raises = {"BaseException+": None}
    modifies = [W + "g_wcalls", W + "g_win", W + "g_wout", W + "g_wtext", W + "g_wenc"]

    def ensures(input_path, output_path, write_buff, encoding, old):
        return write_recorded(input_path, output_path, write_buff, encoding, old)

    def hint_on_raise(input_path, output_path, write_buff, encoding, old):
        return write_recorded(input_path, output_path, write_buff, encoding, old)


@external("sqlfluff.core.linter.linted_file:LintedFile.num_violations", PROP)
class file_num_violations:
    """ghost view (as in contracts/c18.py): the query fixable=True with warnings kept is the number of violations that still
    carry fixes (g_fixable); any other query is an arbitrary non-negative number"""
    types = {"self": LintedFileT}
    ret = INT

    def ensures(self, types=None, filter_ignore=True, filter_warning=True, fixable=None, result=0):
        return result >= 0 and implies(types is None and filter_ignore and not filter_warning and fixable is True,
                                       result == self.g_fixable)


@external("sqlfluff.core.linter.linted_file:LintedFile.fix_string", PROP)
class file_fix_string:
    types = {"self": LintedFileT}
    ret = TTuple(Text, BOOL)

    def ensures(self, result):
        return result[0] == fixed_text(self) and result[1] == fix_ok(self)


@spec
def the_one_write(self, suffix, old):
    """the write persist_tree may make: the original path as input, the fixed text, the file's encoding; the target is the
    original path itself without a suffix and a DIFFERENT path with one (the original file is never the target then)"""
    return (fs().g_win == self.path and fs().g_wtext == fixed_text(self) and fs().g_wenc == self.encoding
            and (fs().g_wout == self.path if len(suffix) == 0 else fs().g_wout != self.path))


@contract(PERSIST, PROP)
class persist_tree:
    types = {"self": LintedFileT, "suffix": StrN, "formatter": TOpt(SINK), "write_buff": Text, "success": BOOL,
             "fname": StrN, "root": StrN, "ext": StrN, "result_label": Text}
    ret = BOOL
    raises = {"BaseException+": None}
    modifies = [W + "g_wcalls", W + "g_win", W + "g_wout", W + "g_wtext", W + "g_wenc"]       # (the recorder's fields)

    def ensures(self, suffix, formatter, result, old):
        calls = fs().g_wcalls - was(old, fs()).g_wcalls
        return ((calls == 0 or calls == 1)
                # no write without fixable changes, none when fix_string() reports failure
                and iff(calls == 1, self.g_fixable > 0 and fix_ok(self))
                and implies(calls == 1, the_one_write(self, suffix, old)) and implies(calls == 0, record_kept(old))
                and result == (fix_ok(self) if self.g_fixable > 0 else True))

    def hint_on_raise(self, suffix, formatter, old):
        # the only thing that raises is the write itself: it was the one permitted write
        return (fs().g_wcalls == was(old, fs()).g_wcalls + 1 and self.g_fixable > 0 and fix_ok(self)
                and the_one_write(self, suffix, old))


# ===================================================================================================================
# several files: the callers of persist_tree hand the suffix through unchanged
# ===================================================================================================================
LinterT = ref_class("sqlfluff.core.linter.linter:Linter", formatter=TOpt(SINK))
LintedDirT = ref_class("sqlfluff.core.linter.linted_dir:LintedDir", files=TList(LintedFileT), retain_files=BOOL)
_REC = [W + "g_wcalls", W + "g_win", W + "g_wout", W + "g_wtext", W + "g_wenc"]


@spec
def latest_write_ok(files, suffix, old, k):
    """at most one write per file processed so far, and the most recent write (if any) is the one permitted write of one of
    the first k files -- with THIS suffix.  (An invariant of the loop: it holds after every iteration, hence for every write.)"""
    return (0 <= fs().g_wcalls - was(old, fs()).g_wcalls <= k
            and implies(fs().g_wcalls > was(old, fs()).g_wcalls,
                        any(files[j].g_fixable > 0 and fix_ok(files[j]) and the_one_write(files[j], suffix, old)
                            for j in range(0, k))))


@contract("sqlfluff.core.linter.linted_dir:LintedDir.persist_changes", PROP)
class dir_persist_changes:
    types = {"self": LintedDirT, "formatter": TOpt(SINK), "fixed_file_suffix": StrN, "buffer": SINK,
             "file": LintedFileT}
    ret = SINK                       # the per-path success flags: reporting only
    raises = {"BaseException+": None}
    modifies = _REC

    def ensures(self, formatter, fixed_file_suffix, old):
        return latest_write_ok(self.files, fixed_file_suffix, old, len(self.files))

    def inv_1(self, fixed_file_suffix, old, _i):
        return latest_write_ok(self.files, fixed_file_suffix, old, _i)


@contract("sqlfluff.core.linter.linter:Linter.lint_paths#apply-fixes-write", PROP)
class lint_paths_write:
    """REGION of Linter.lint_paths (the statements that write one linted file when apply_fixes is set): at most the one
    permitted write of THAT file, with the suffix lint_paths was given"""
    region = ("if apply_fixes:", "progress_bar_files.update(n=1)")
    region_params = ["self", "apply_fixes", "linted_file", "fix_even_unparsable", "fixed_file_suffix"]
    types = {"self": LinterT, "apply_fixes": BOOL, "linted_file": LintedFileT, "fix_even_unparsable": BOOL,
             "fixed_file_suffix": StrN, "num_tmp_prs_errors": INT}
    raises = {"BaseException+": None}
    modifies = _REC

    def ensures(self, apply_fixes, linted_file, fix_even_unparsable, fixed_file_suffix, old):
        calls = fs().g_wcalls - was(old, fs()).g_wcalls
        return ((calls == 0 or calls == 1) and implies(not apply_fixes, calls == 0)
                and implies(calls == 1, linted_file.g_fixable > 0 and fix_ok(linted_file)
                            and the_one_write(linted_file, fixed_file_suffix, old)))
