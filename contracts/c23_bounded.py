"""C23 -- BOUNDED stand-in (labelled; nothing here is proved): the machine-readable output formats of the click command `lint`.

`--format github-annotation` is under a pyvc region contract (contracts/c23.py, `lint#github-annotation`).  The two other formats
built inside `lint` cannot be modelled by the engine: github-annotation-native renders the positions into f-strings (pyvc drops
f-string text), sarif mutates nested dict literals through aliases (`region = ...["region"]; region["endLine"] = ...`; structural
dicts are values in pyvc, not heap objects).  They -- and json / yaml / github-annotation once more, end to end -- are checked here
on a bounded domain: the REAL command is run in-process (click.testing.CliRunner) once per format over a directory of generated
files (single-line, MULTI-line, templated, unparsable, end-of-file violations; several files per run), every output is parsed and
compared with the json records of the same run.

    fn(tier, seed) -> {"name", "bound", "rule", "evaluations", "distinct_nontrivial", "samples", "failed": [...]}
    standalone:  /verif/.venv/bin/python -m contracts.c23_bounded [quick|thorough]

Clauses (ids `C23/cli-format[<format>]/<clause>`), all from the property text:
  entries          one output entry per violation record, in order, naming the record's file
  start            entry start line/column == record start_line_no/start_line_pos
  end              entry end line/column == record end_line_no/end_line_pos when the record has them; absent (native, sarif) or
                   equal to the start (github-annotation) only when the record has no end
  in-file[<class>:<start|end>:<how>]   every reported (line, column), start and end, lies within the source file (json records);
                   <class> = lint | PRS | LXR | TMP (kind of violation), <how> = line<1 | line>last | col<1 | col>line-length+1
  end-not-before-start[<class>]
  offsets-agree[<class>:<start|end>]   (line, column) of start_file_pos / end_file_pos in the source text == the reported one
"""
import json
import os
import random
import re
import shutil
import tempfile

FORMATS = ("json", "yaml", "github-annotation", "github-annotation-native", "sarif")

# (file name, source).  Multi-line anchors: LT10/LT09/ST06/AM07/CV07/LT02/LT05/AM04/ST05; end-of-file: LT12; templated: jinja.
HANDWRITTEN = [
    ("single_line.sql", "SELECT a from tbl\n"),
    ("lt10_multi.sql", "SELECT\n    DISTINCT user_id,\n    list_id\nFROM\n    safe_user\n"),
    ("am07_multi.sql", "select a\nfrom t\nunion all\nselect c, d\nfrom k\n"),
    ("cv07_multi.sql", "(SELECT foo\nFROM bar)\n"),
    ("lt09_templated.sql", "select\n    {{ 'a' }}\nfrom x\n"),
    ("lt09_multi.sql", "select a,\n    b, c\nfrom tbl\n"),
    ("st06_multi.sql", "select\n    a,\n    row_number() over (partition by id order by dt) as y,\n    b\nfrom x\n"),
    ("lt05_long.sql", "select " + ", ".join(f"column_number_{i}" for i in range(12)) + "\nfrom a_table_with_a_long_name\n"),
    ("lt02_indent.sql", "select\n  a,\n        b\nfrom tbl\n    where a = 1\n"),
    ("lt12_no_newline.sql", "select a from tbl"),
    ("lt12_many_newlines.sql", "select a from tbl\n\n\n"),
    ("parse_error.sql", "select a from tbl where\nselect )(\n"),
    ("jinja_loop.sql", "select\n    {% for c in ['a', 'b'] %}\n    {{ c }},\n    {% endfor %}\n    1 as z from tbl\n"),
    ("jinja_block.sql", "{% set cols = 'a,  b' %}\nSELECT {{ cols }}\nfrom tbl where  x = 1\n"),
    ("jinja_syntax_error.sql", "select\n    {% for c in ['a', 'b'] %}\n    {{ c }},\n    {% endfOR %}\n    1 as z from tbl\n"),
    ("jinja_lt02_templated_anchor.sql", 'SELECT\n    c1,\n{{ "c2" }}\n'),
    ("jinja_if_no_newline.sql", "{% if true %}\nSELECT 1 + 1\n{%- endif %}"),
    ("jinja_loop_lt02.sql", "SELECT\n    a,\n{% for x in [1, 2] %}\nb{{ x }},\n{% endfor %}\n    c\nFROM t\n"),
    ("jinja_mixed.sql", "select\n  {{ 'a' }},\n{{'b'}}  from {{ 'tbl' }}"),
    ("jinja_undefined.sql", "select {{ undefined_thing }} from tbl\n"),
    ("unicode.sql", "select 'héllo 世界' as a,\n   b from \"täble\"\nwhere x  = 1\n"),
    ("st05_subquery.sql", "select a.x\nfrom a\njoin (\n    select x,\n        y\n    from b\n) as c on a.x = c.x\n"),
    ("am04_star.sql", "with cte as (\n    select * from t\n)\n\nselect * from cte\nunion all\nselect 1\n"),
    ("clean.sql", "select a from tbl\n"),
    ("empty.sql", ""),
    ("comment_only.sql", "-- nothing here\n"),
    # characters that str.splitlines() treats as line boundaries but that are NOT newlines for line/column purposes (seed C23_C)
    ("u2028_in_comment.sql", "-- pasted from a doc:\u2028 totals per customer\nSELECT a  from tbl\n"),
    ("formfeed_vt_in_comment.sql", "-- page\x0c break \x0b tab \x85 nel \x1c fs\nSELECT a  from tbl\nwhere x  = 1\n"),
    ("u2029_in_string.sql", "select 'a\u2029b' as c,\n   b from tbl\nwhere x  = 1\n"),
]


def _mutants(rng, n):
    """small mutations of the handwritten sources: newlines inserted / removed, case flipped, spaces doubled"""
    out = []
    pool = [s for _, s in HANDWRITTEN if s.strip()]
    for k in range(n):
        s = rng.choice(pool)
        for _ in range(rng.randint(1, 3)):
            i = rng.randrange(len(s)) if s else 0
            op = rng.choice(("nl", "sp", "up", "del", "dupline"))
            if op == "nl":
                j = s.find(" ", i)
                if j >= 0:
                    s = s[:j] + "\n" + s[j + 1:]
            elif op == "sp":
                j = s.find(" ", i)
                if j >= 0:
                    s = s[:j] + "  " + s[j:]
            elif op == "up":
                s = s[:i] + s[i:i + 6].swapcase() + s[i + 6:]
            elif op == "del":
                j = s.find("\n", i)
                if j >= 0:
                    s = s[:j] + " " + s[j + 1:]
            else:
                lines = s.split("\n")
                m = rng.randrange(len(lines))
                lines.insert(m, lines[m])
                s = "\n".join(lines)
        out.append((f"mutant_{k:03d}.sql", s))
    return out


def _fixtures(limit):
    """ansi fixture files of sqlfluff's own test-suite (input data only; absent in some layouts -> none)"""
    out = []
    for d in ("/repo/test/fixtures/linter", "/repo/test/fixtures/linter/autofix/ansi"):
        if not os.path.isdir(d):
            continue
        for root, _dirs, files in sorted(os.walk(d)):
            for f in sorted(files):
                if f.endswith(".sql") and "encoding" not in f and len(out) < limit:
                    p = os.path.join(root, f)
                    try:
                        s = open(p, encoding="utf-8").read()
                    except Exception:
                        continue
                    if "\r" not in s and len(s) < 3000:
                        out.append((f"fx{len(out):03d}_{f}", s))
    return out


# ------------------------------------------------------------------------------------------------ the oracle (independent of sqlfluff)
def offset_to_line_col(src, offset):
    """1-indexed (line, column) of a character offset of the source text"""
    return src.count("\n", 0, offset) + 1, offset - (src.rfind("\n", 0, offset) + 1) + 1


def where_outside(src, line, col):
    """which coordinate of a (line, column) leaves the file (None: inside) -- part of the obligation id"""
    lines = src.split("\n")
    if line is None or col is None:
        return "missing"
    if line < 1:
        return "line<1"
    if line > len(lines):
        return "line>last"
    if col < 1:
        return "col<1"
    if col > len(lines[line - 1]) + 1:
        return "col>line-length+1"
    return None


def error_class(v):
    """TMP / PRS / LXR for templating / parsing / lexing errors, `lint` for rule violations"""
    code = str(v.get("code"))
    return code if code in ("TMP", "PRS", "LXR") else "lint"


def _int(x):
    return x if isinstance(x, int) and not isinstance(x, bool) else None


def parse_output(fmt, output):
    """-> list of (filepath, start_line, start_col, end_line | None, end_col | None), one per emitted entry, in output order"""
    out = []
    if fmt in ("json", "yaml"):
        if fmt == "json":
            recs = json.loads(output)
        else:
            import yaml
            recs = yaml.safe_load(output)
        for rec in recs or []:
            for v in rec["violations"]:
                out.append((rec["filepath"], v["start_line_no"], v["start_line_pos"], v.get("end_line_no"), v.get("end_line_pos")))
    elif fmt == "github-annotation":
        for a in json.loads(output):
            out.append((a["file"], a["start_line"], a["start_column"], a["end_line"], a["end_column"]))
    elif fmt == "github-annotation-native":
        for line in output.splitlines():
            m = re.match(r"::(?:error|warning|notice) title=SQLFluff,file=(.*?),line=(\d+),col=(\d+)(?:,endLine=(\d+))?(?:,endColumn=(\d+))?::", line)
            if m:
                out.append((m.group(1), int(m.group(2)), int(m.group(3)),
                            int(m.group(4)) if m.group(4) is not None else None, int(m.group(5)) if m.group(5) is not None else None))
    elif fmt == "sarif":
        doc = json.loads(output)
        for res in doc["runs"][0]["results"]:
            assert len(res["locations"]) == 1
            pl = res["locations"][0]["physicalLocation"]
            rg = pl["region"]
            out.append((pl["artifactLocation"]["uri"], rg["startLine"], rg["startColumn"], rg.get("endLine"), rg.get("endColumn")))
    return out


def run_lint(lint, fmt, paths, cwd):
    from click.testing import CliRunner
    try:
        runner = CliRunner(mix_stderr=False)
    except TypeError:
        runner = CliRunner()
    old = os.getcwd()
    os.chdir(cwd)
    try:
        res = runner.invoke(lint, list(paths) + ["--format", fmt, "--disable-progress-bar", "--nofail", "--processes", "1"])
    finally:
        os.chdir(old)
    if res.exception is not None and not isinstance(res.exception, SystemExit):
        raise res.exception
    return res.stdout


def cli_formats(tier, seed):
    from sqlfluff.cli.commands import lint
    rng = random.Random(seed)
    files = list(HANDWRITTEN) + _mutants(rng, 12 if tier == "quick" else 150) + _fixtures(12 if tier == "quick" else 400)
    failed, samples = [], []
    ev = nontrivial = multi = 0
    d = tempfile.mkdtemp(prefix="c23_cli_")

    def fail(fmt, clause, detail):
        fid = f"C23/cli-format[{fmt}]/{clause}"
        if not any(f["id"] == fid for f in failed):
            failed.append({"name": fid, "id": fid, "kind": "bounded", "status": "failed", "function": "sqlfluff.cli.commands:lint",
                           "detail": detail, "reproduced": True, "backend": "CPython (real `lint` command, CliRunner)"})

    try:
        with open(os.path.join(d, ".sqlfluff"), "w") as fh:
            fh.write("[sqlfluff]\ndialect = ansi\ntemplater = jinja\nmax_line_length = 80\n")
        src_of = {}
        # batches of several files per run (so that ordering / grouping across files is exercised)
        batch_size = 8
        batches = []
        for bi in range(0, len(files), batch_size):
            sub = os.path.join(d, f"b{bi // batch_size:03d}")
            os.makedirs(sub)
            for name, src in files[bi:bi + batch_size]:
                with open(os.path.join(sub, name), "w", encoding="utf-8", newline="") as fh:
                    fh.write(src)
                src_of[os.path.join(os.path.basename(sub), name)] = src
            batches.append(os.path.basename(sub))
        for b in batches:
            outs = {fmt: run_lint(lint, fmt, [b], d) for fmt in FORMATS}
            recs = json.loads(outs["json"])
            want = []           # the violation records of the run, flattened in order
            for rec in recs:
                for v in rec["violations"]:
                    want.append((rec["filepath"], v))
            # ---- the records themselves (what every format repeats): within the file, offsets agree
            for fp, v in want:
                ev += 1
                src = src_of.get(fp)
                if src is None:
                    fail("json", "entries", {"filepath": fp, "note": "record names a file that was not linted"})
                    continue
                s = (_int(v.get("start_line_no")), _int(v.get("start_line_pos")))
                e = (_int(v.get("end_line_no")), _int(v.get("end_line_pos")))
                ctx = {"file": fp, "source": src, "code": v.get("code"), "record": {k: v.get(k) for k in (
                    "start_line_no", "start_line_pos", "start_file_pos", "end_line_no", "end_line_pos", "end_file_pos")}}
                cls = error_class(v)
                if where_outside(src, *s):
                    fail("json", f"in-file[{cls}:start:{where_outside(src, *s)}]", dict(ctx, note=f"start {s} is outside the source file"))
                if (e[0] is None) != (e[1] is None):
                    fail("json", "end", dict(ctx, note="only one of end_line_no / end_line_pos is present"))
                if None not in e:
                    nontrivial += 1
                    multi += e[0] > s[0] if None not in s else 0
                    if where_outside(src, *e):
                        fail("json", f"in-file[{cls}:end:{where_outside(src, *e)}]", dict(ctx, note=f"end {e} is outside the source file"))
                    if None not in s and e < s:
                        fail("json", f"end-not-before-start[{cls}]", dict(ctx, note=f"end {e} is before start {s}"))
                for which, (ln, col) in (("start", s), ("end", e)):
                    off = v.get(which + "_file_pos")
                    if off is not None:
                        if not (_int(off) is not None and 0 <= off <= len(src)):
                            fail("json", f"in-file[{cls}:{which}_file_pos]", dict(ctx, note=f"{which}_file_pos {off} is outside the source file"))
                        elif offset_to_line_col(src, off) != (ln, col):
                            fail("json", f"offsets-agree[{cls}:{which}]", dict(ctx, note=f"{which}_file_pos {off} is {offset_to_line_col(src, off)} "
                                                                       f"in the source but ({ln}, {col}) is reported"))
            # ---- every other format repeats exactly the records' positions
            for fmt in FORMATS[1:]:
                try:
                    got = parse_output(fmt, outs[fmt])
                except Exception as ex:
                    fail(fmt, "entries", {"batch": b, "note": f"output cannot be parsed: {ex!r}", "output": outs[fmt][:500]})
                    continue
                if len(got) != len(want) or any(g[0] != w[0] for g, w in zip(got, want)):
                    fail(fmt, "entries", {"batch": b, "emitted": len(got), "violation_records": len(want),
                                          "files_emitted": [g[0] for g in got][:20], "files_recorded": [w[0] for w in want][:20]})
                    continue
                for g, (fp, v) in zip(got, want):
                    ev += 1
                    ctx = {"file": fp, "source": src_of.get(fp), "code": v.get("code"), "emitted": list(g[1:]),
                           "record": {k: v.get(k) for k in ("start_line_no", "start_line_pos", "end_line_no", "end_line_pos", "end_file_pos")}}
                    if (g[1], g[2]) != (v["start_line_no"], v["start_line_pos"]):
                        fail(fmt, "start", ctx)
                    if fmt == "github-annotation":
                        want_end = (v.get("end_line_no", v["start_line_no"]), v.get("end_line_pos", v["start_line_pos"]))
                    else:
                        want_end = (v.get("end_line_no"), v.get("end_line_pos"))
                    if (g[3], g[4]) != want_end:
                        fail(fmt, "end", dict(ctx, note=f"end {(g[3], g[4])} emitted where the record says {want_end}"))
            if len(samples) < 3 and want:
                fp, v = want[len(want) // 2]
                samples.append({"file": fp, "code": v.get("code"), "start": [v["start_line_no"], v["start_line_pos"]],
                                "end": [v.get("end_line_no"), v.get("end_line_pos")], "formats_compared": list(FORMATS)})
    finally:
        shutil.rmtree(d, ignore_errors=True)
    if multi == 0 or nontrivial < 10:
        # not a verdict about the property: reported as a checker failure (exit 3), never as a violation
        raise RuntimeError("C23 cli-output-formats: the generated files produced no multi-line violation -- vacuous run")
    return {"name": "cli-output-formats", "bound": f"{len(files)} generated files (handwritten multi-line/templated/unparsable, "
            f"seeded mutants, ansi fixtures), ansi dialect, default rules, batches of {batch_size} files x {len(FORMATS)} formats",
            "rule": "real `lint` command per format; every emitted position compared with the json record of the same violation and "
                    "with the source text", "evaluations": ev, "distinct_nontrivial": nontrivial, "multi_line_violations": multi,
            "samples": samples, "failed": failed}


BOUNDED = [cli_formats]


if __name__ == "__main__":
    import sys
    import time
    sys.path.insert(0, "/verif")
    t0 = time.time()
    r = cli_formats(sys.argv[1] if len(sys.argv) > 1 else "quick", 0)
    print(json.dumps({k: v for k, v in r.items() if k != "failed"}, indent=1, default=str)[:3000])
    for f in r["failed"]:
        print("FAILED", f["id"], json.dumps(f["detail"], default=str)[:1500])
    print(f"{time.time() - t0:.1f}s")
