"""C28 -- parse output is a faithful serialisation of the tree.   BOUNDED STAND-IN: nothing here is a proof.

Property text: "The parse output, whether human, JSON or YAML, and the API parse record list every token of the file
with its text, in file order. Concatenating the token texts reproduces the rendered SQL, and node types nest as they
do in the parse tree."

The contracts below are plain Python predicates (one text, executed natively by CPython on the real objects) over the
real functions BaseSegment.to_tuple / structural_simplify / as_record / stringify / raw_segments / raw, the real click
command `sqlfluff parse` and the real `sqlfluff.parse`.  They are evaluated on two bounded domains:
(A) synthetic trees over the real segment classes, (B) real parses of dialect fixtures, crafted unparsable strings
and Jinja templates.  EXTRA carries only self-checks of this checker (enumerator counts, oracle sensitivity); the
property itself is NOT counted as proved anywhere.
"""
from __future__ import annotations

import ast
import glob
import itertools
import json
import multiprocessing as mp
import os
import random
import re
import shutil
import tempfile
import time
from collections import Counter

from sqlfluff.core.parser.markers import PositionMarker
from sqlfluff.core.parser.segments.base import BaseSegment, UnparsableSegment
from sqlfluff.core.parser.segments.bracketed import BracketedSegment
from sqlfluff.core.parser.segments.common import (CommentSegment, CompositeBinaryOperatorSegment, NewlineSegment,
                                                  SymbolSegment, WhitespaceSegment)
from sqlfluff.core.parser.segments.keyword import KeywordSegment
from sqlfluff.core.parser.segments.meta import Dedent, EndOfFile, Indent, MetaSegment, TemplateSegment
from sqlfluff.core.parser.segments.raw import RawSegment
from sqlfluff.core.templaters.base import TemplatedFile

PROP = "C28"
LEVEL = "exploration"
EXHAUSTIVE = False      # the run as a whole mixes exhaustive sub-spaces with seeded samples; see bounded_stand_ins[0].exhaustive
NATIVE_TRIES = {"quick": 0, "thorough": 0}

F_TUPLE = "sqlfluff.core.parser.segments.base:BaseSegment.to_tuple"
F_RECORD = "sqlfluff.core.parser.segments.base:BaseSegment.as_record"
F_STRINGIFY = "sqlfluff.core.parser.segments.base:BaseSegment.stringify"
F_RAWSEGS = "sqlfluff.core.parser.segments.base:BaseSegment.raw_segments"
F_RAW = "sqlfluff.core.parser.segments.base:BaseSegment.raw"
F_PATHTO = "sqlfluff.core.parser.segments.base:BaseSegment.path_to"
F_CLI = "sqlfluff.cli.commands:parse"
F_API = "sqlfluff.api.simple:parse"

KNOWN_HOIST = "comment_separate hoisting"      # diagnosis text used by known_findings.json (witness_contains)


# ===================================================================================================== vocabulary
def _all_subclasses(c):
    out = set()
    for s in c.__subclasses__():
        out.add(s)
        out |= _all_subclasses(s)
    return out


def meta_types():
    """type names a reader of the record can recognise as zero-width markers (not tokens of the file)"""
    return {c.type for c in _all_subclasses(MetaSegment)} | {MetaSegment.type}


def walk(t):
    """[(leaf, (ancestors root..parent))] in document order; written from the definition of a tree over `.segments`
    (does not call raw_segments / path_to, which are themselves under check)."""
    out = []
    stack = [(t, ())]
    while stack:
        seg, anc = stack.pop()
        if not seg.segments:
            out.append((seg, anc))
        else:
            anc2 = anc + (seg,)
            for c in reversed(seg.segments):
                stack.append((c, anc2))
    return out


def listed(leaf, code_only, include_meta):
    """which leaves a serialiser is supposed to list: every token of the file; zero-width meta markers only on
    request (include_meta); with code_only exactly the code tokens"""
    if code_only:
        return leaf.is_code and not leaf.is_meta
    return include_meta or not leaf.is_meta


def text_of(leaf):
    """the text a listed leaf carries: its raw; a template placeholder (meta, zero-width in the rendered file)
    documents the source it stands for"""
    return leaf.source_str if isinstance(leaf, TemplateSegment) else leaf.raw


def expected_entries(t, code_only, show_raw, include_meta):
    """the flat reading of a faithful serialisation: [(path of ancestor types, type, text-or-None)] in file order.
    A retained container all of whose children are filtered out shows as (path, type, None)."""
    has_code = {}
    order = []
    stack = [t]
    while stack:
        s = stack.pop()
        order.append(s)
        stack.extend(s.segments)
    for s in reversed(order):
        has_code[id(s)] = (s.is_code and not s.is_meta) if not s.segments else any(has_code[id(c)] for c in s.segments)
    out = []
    stack = [(t, ())]
    while stack:
        seg, path = stack.pop()
        ty = seg.get_type()
        if not seg.segments:
            out.append((path, ty, text_of(seg) if (show_raw or isinstance(seg, TemplateSegment)) else None))
            continue
        kids = [c for c in seg.segments
                if (listed(c, code_only, include_meta) if not c.segments else (not code_only or has_code[id(c)]))]
        if not kids:
            out.append((path, ty, None))
        p2 = path + (ty,)
        for c in reversed(kids):
            stack.append((c, p2))
    return out


POS_KEYS = frozenset(["start_line_no", "start_line_pos", "start_file_pos", "end_line_no", "end_line_pos", "end_file_pos"])


def flatten_record(rec):
    """nested dict/list record -> ([(path, type, value)], [shape problems]); position keys are skipped.
    A dict value is a container whose children are its items; a list value is a container whose children are the
    single-type-key dicts of the list; a str (or None) value is a leaf (or an emptied container / raw-less leaf)."""
    return flatten_record_from(("elem", rec, (), False))


def flatten_record_from(frame):
    kind, d, path, in_list = frame
    out, problems = [], []
    if not isinstance(d, dict):
        return out, [f"element at {'/'.join(path)} is {type(d).__name__}, not a dict"]
    items = [(k, v) for k, v in d.items() if not (k in POS_KEYS and isinstance(v, int))]
    if in_list and len(items) != 1:
        problems.append(f"list element at {'/'.join(path)} has {len(items)} type keys")
    if not items:
        problems.append(f"element at {'/'.join(path)} has no type key")
    for k, v in items:
        if not isinstance(k, str):
            problems.append(f"non-string key {k!r} at {'/'.join(path)}")
        if isinstance(v, str) or v is None:
            out.append((path, k, v))
        elif isinstance(v, dict):
            sub, sp = flatten_record_from(("elem", v, path + (k,), False))
            out.extend(sub)
            problems.extend(sp)
        elif isinstance(v, list):
            if not v:
                problems.append(f"empty list at {'/'.join(path + (k,))}")
            for e in v:
                sub, sp = flatten_record_from(("elem", e, path + (k,), True))
                out.extend(sub)
                problems.extend(sp)
        else:
            problems.append(f"value of {k} at {'/'.join(path)} is {type(v).__name__}")
    return out, problems


def flatten_tuple(tp):
    """nested (type, text | (children...)[, position]) -> [(path, type, value)]"""
    out = []

    def rec(e, path):
        ty, val = e[0], e[1]
        if isinstance(val, str):
            out.append((path, ty, val))
        elif not val:
            out.append((path, ty, None))
        else:
            for c in val:
                rec(c, path + (ty,))
    rec(tp, ())
    return out


_LINE = re.compile(r"^(?P<pos>[^|]*)\|(?P<pad> *)(?P<meta>\[META\] (?:\(implicit\) )?)?(?P<type>[^:\s]+):(?P<rest>.*)$")
_HEADER = re.compile(r"^ +(Comments|Code):$")


def parse_stringify(text, tabsize=4):
    """human tree text -> ([(path, type, is_meta, text-or-None)] for leaf lines in output order, [unparsed lines])"""
    leaves, bad = [], []
    stack = []     # (level, type) of open containers
    for line in text.split("\n"):
        if not line:
            continue
        if _HEADER.match(line):
            continue
        m = _LINE.match(line)
        if not m:
            bad.append(line)
            continue
        level = len(m.group("pad")) // tabsize
        while stack and stack[-1][0] >= level:
            stack.pop()
        path = tuple(ty for _, ty in stack)
        rest = m.group("rest").strip()
        is_meta = bool(m.group("meta"))
        txt = None
        is_leaf = is_meta
        if not is_meta and rest[:1] in ("'", '"'):
            try:
                v = ast.literal_eval(rest)
                if isinstance(v, str):
                    txt, is_leaf = v, True
            except (ValueError, SyntaxError):
                pass
        if is_leaf:
            leaves.append((path, m.group("type"), is_meta, txt))
        else:
            stack.append((level, m.group("type")))
    return leaves, bad


def hoisted_walk(t, code_only):
    """the order BaseSegment.stringify is *observed* to use for comment_separate segments (comments first); used only
    to diagnose an order failure as the known pattern, never to accept it"""
    out = []

    def rec(seg):
        if not seg.segments:
            out.append(seg)
            return
        kids = [c for c in seg.segments if not code_only or c.is_code]
        if not code_only and seg.comment_separate and any(c.is_type("comment") for c in seg.segments):
            kids = [c for c in seg.segments if c.is_type("comment")] + [c for c in seg.segments if not c.is_type("comment")]
        for c in kids:
            rec(c)
    rec(t)
    return out


# ===================================================================================================== failure store
def _js(x):
    return json.loads(json.dumps(x, default=str))


def _diff(exp, obs, w=3):
    n = min(len(exp), len(obs))
    i = next((k for k in range(n) if exp[k] != obs[k]), n)
    if max(len(exp), len(obs)) <= 14:
        return {"first_difference_at": i, "expected": _js(exp), "observed": _js(obs)}
    return {"first_difference_at": i, "expected_len": len(exp), "observed_len": len(obs),
            "expected_window": _js(exp[max(0, i - w): i + w + 1]), "observed_window": _js(obs[max(0, i - w): i + w + 1])}


class Fails:
    def __init__(self):
        self.best = {}     # clause id -> (sort key, function, detail)
        self.count = {}

    def add(self, clause, function, key, detail):
        self.count[clause] = self.count.get(clause, 0) + 1
        b = self.best.get(clause)
        if b is None or key < b[0]:
            self.best[clause] = (key, function, detail() if callable(detail) else detail)

    def export(self):
        return {"best": self.best, "count": self.count}

    def merge(self, exported):
        for c, n in exported["count"].items():
            self.count[c] = self.count.get(c, 0) + n
        for c, (key, fn, det) in exported["best"].items():
            b = self.best.get(c)
            key = tuple(key)
            if b is None or key < b[0]:
                self.best[c] = (key, fn, det)


# ===================================================================================================== the contracts
_D = dict(code_only=False, show_raw=False, include_meta=False, include_position=False)
FLAGSETS = [dict(code_only=c, show_raw=s, include_meta=m) for c in (False, True) for s in (False, True) for m in (False, True)]
FLAGSETS.append(dict(code_only=False, show_raw=True, include_meta=True, include_position=True))   # what `parse -m -f json` asks for
FLAGSETS.append(dict(show_raw=True))                                                               # what the API asks for (defaults)
N_FLAGSETS = len(FLAGSETS)
_META_TYPES = None


def check_tree(t, rendered, case, size, fails, path_to_limit=None):
    """evaluate every clause on one real tree.  `case()` -> description of the input for a failure detail.
    returns number of contract evaluations (one per (serialiser, flag set))."""
    global _META_TYPES
    if _META_TYPES is None:
        _META_TYPES = meta_types()
    evals = 0
    W = walk(t)
    leaves = [l for l, _ in W]
    key = (0, size)

    def fail(clause, fn, info, k=key):
        fails.add(clause, fn, k, lambda: dict(case(), **_js(info)))

    # --- raw_segments / get_raw_segments / raw
    for nm, rs in (("raw_segments", t.raw_segments), ("get_raw_segments()", t.get_raw_segments())):
        if len(rs) != len(leaves) or any(a is not b for a, b in zip(rs, leaves)):
            fail("C28/raw_segments/every-leaf-in-file-order", F_RAWSEGS,
                 {"via": nm, **_diff([(l.get_type(), l.raw) for l in leaves], [(l.get_type(), l.raw) for l in rs])})
    cat = "".join(l.raw for l in leaves)
    if t.raw != cat:
        fail("C28/raw/concat-of-leaf-raws", F_RAW, {"expected": cat[:400], "observed": t.raw[:400]})
    if rendered is not None and cat != rendered:
        fail("C28/raw/leaf-texts-reproduce-rendered-sql", F_RAW, {"rendered": rendered[:400], "concatenated": cat[:400]})
    evals += 2
    # --- path_to against the structural walk (the oracle of the nesting clauses is the walk; path_to is not part of C28, a
    #     disagreement is recorded as an observation, not as a failed clause)
    if t.segments:
        idxs = range(len(W)) if path_to_limit is None or len(W) <= path_to_limit else \
            sorted(set(int(i * (len(W) - 1) / (path_to_limit - 1)) for i in range(path_to_limit)))
        for i in idxs:
            leaf, anc = W[i]
            got = [s.segment for s in t.path_to(leaf)]
            if len(got) != len(anc) or any(a is not b for a, b in zip(got, anc)):
                fail("OBS:path_to-differs-from-structural-walk", F_PATHTO, {"leaf": [leaf.get_type(), leaf.raw], "leaf_index": i,
                     "expected": [a.get_type() for a in anc], "observed": [a.get_type() for a in got]})
                break
        evals += 1
    # --- to_tuple / as_record under every flag set
    for fs in FLAGSETS:
        full = dict(_D, **fs)
        co, sr, im = full["code_only"], full["show_raw"], full["include_meta"]
        exp = expected_entries(t, co, sr, im)
        tup = t.to_tuple(**fs)
        rec = t.as_record(**fs)
        ft = flatten_tuple(tup)
        fr, problems = flatten_record(rec)
        evals += 2
        for nm, fn, got in (("to_tuple", F_TUPLE, ft), ("as_record", F_RECORD, fr)):
            if sr:
                e_tok = [(ty, v) for _, ty, v in exp if v is not None]
                o_tok = [(ty, v) for _, ty, v in got if v is not None]
            else:
                e_tok = [ty for _, ty, _ in exp]
                o_tok = [ty for _, ty, _ in got]
            if e_tok != o_tok:
                cl = f"C28/{nm}/code-only-drops-exactly-the-non-code-leaves" if co else f"C28/{nm}/leaves-in-order"
                fail(cl, fn, {"flags": fs, **_diff(e_tok, o_tok)})
            e_nest = [(p, ty, v is None) for p, ty, v in exp]
            o_nest = [(p, ty, v is None) for p, ty, v in got]
            if e_nest != o_nest:
                fail(f"C28/{nm}/nesting", fn, {"flags": fs, "entry": "[path of ancestor types, type, is-empty]", **_diff(e_nest, o_nest)})
            if sr and not co:
                joined = "".join(v for _, ty, v in got if v is not None and ty not in _META_TYPES)
                if joined != t.raw or (rendered is not None and joined != rendered):
                    fail(f"C28/{nm}/concat-reproduces-rendered-sql", fn,
                         {"flags": fs, "expected": (rendered if rendered is not None else t.raw)[:400], "observed": joined[:400]})
        if problems:
            fail("C28/as_record/record-shape", F_RECORD, {"flags": fs, "problems": problems[:5]})
        if ft != fr:
            fail("C28/as_record/agrees-with-to_tuple", F_RECORD, {"flags": fs, **_diff(ft, fr)})
    # --- human rendering
    for co in (False, True):
        text = t.stringify(code_only=co)
        evals += 1
        got, bad = parse_stringify(text)
        if t.segments:
            want = [(tuple(a.get_type() for a in anc), l.get_type(), bool(l.is_meta), None if l.is_meta else l.raw)
                    for l, anc in W if (not co or l.is_code)]
        else:
            want = [((), t.get_type(), bool(t.is_meta), None if t.is_meta else t.raw)]
        sfx = "[code_only]" if co else ""
        if bad:
            fail("C28/stringify/line-format", F_STRINGIFY, {"code_only": co, "unparsed_lines": bad[:5]})
        g3, w3 = [x[1:] for x in got], [x[1:] for x in want]
        if Counter(g3) != Counter(w3):
            missing = list((Counter(w3) - Counter(g3)).elements())[:6]
            extra = list((Counter(g3) - Counter(w3)).elements())[:6]
            fail("C28/stringify/every-leaf-listed-once" + sfx, F_STRINGIFY,
                 {"code_only": co, "entry": "[type, is_meta, text]", "missing": missing, "extra": extra, "text": text[:1500]})
        elif g3 != w3:
            hw = hoisted_walk(t, co)
            hoist = [(l.get_type(), bool(l.is_meta), None if l.is_meta else l.raw) for l in hw] == g3
            diag = (KNOWN_HOIST + ": BaseSegment.stringify lists the comments of a comment_separate segment under 'Comments:' before its 'Code:'"
                    if hoist else "other reordering")
            fail("C28/stringify/leaves-in-file-order" + sfx, F_STRINGIFY,
                 {"code_only": co, "diagnosis": diag, "entry": "[type, is_meta, text]", **_diff(w3, g3), "text": text[:1500]},
                 k=(0 if not hoist else 1, size))
        if Counter(got) != Counter(want):
            if Counter(g3) == Counter(w3):
                fail("C28/stringify/nesting" + sfx, F_STRINGIFY,
                     {"code_only": co, "entry": "[path, type, is_meta, text]", **_diff(sorted(want, key=repr), sorted(got, key=repr)), "text": text[:1500]})
    return evals


# ===================================================================================================== domain A
class AlphaSegment(BaseSegment):
    type = "alpha"


class BetaSegment(BaseSegment):
    type = "beta"
    can_start_end_non_code = True


class KeywordGroupSegment(BaseSegment):
    """a container whose type equals the type of a leaf it may contain"""
    type = "keyword"


def _file_cls():
    from sqlfluff.dialects.dialect_ansi import FileSegment
    return FileSegment


LEAVES = {
    # name: (raw, factory(pos_marker))
    "kw": ("select", lambda pm: KeywordSegment("select", pm)),
    "KW": ("FROM", lambda pm: KeywordSegment("FROM", pm)),
    "comma": (",", lambda pm: SymbolSegment(",", pm, type="comma")),
    "binop": ("+", lambda pm: SymbolSegment("+", pm, type="binary_operator")),
    "raw": ("x1", lambda pm: RawSegment("x1", pm)),
    "empty": ("", lambda pm: RawSegment("", pm)),
    "ws": (" ", lambda pm: WhitespaceSegment(" ", pm)),
    "nl": ("\n", lambda pm: NewlineSegment("\n", pm)),
    "cm": ("-- c", lambda pm: CommentSegment("-- c", pm, type="inline_comment")),
    "indent": ("", lambda pm: Indent(pm)),
    "dedent": ("", lambda pm: Dedent(pm)),
    "ph": ("", lambda pm: TemplateSegment(pm, source_str="{% if x %}", block_type="block_start")),
    "eof": ("", lambda pm: EndOfFile(pm)),
}
NODES = {
    "alpha": lambda segs: AlphaSegment(segs),
    "beta": lambda segs: BetaSegment(segs),
    "keyword": lambda segs: KeywordGroupSegment(segs),
    "unparsable": lambda segs: UnparsableSegment(segs, expected="something"),
    "bracketed": lambda segs: BracketedSegment(segs, start_bracket=(segs[0],), end_bracket=(segs[-1],)),
    "binary_operator": lambda segs: CompositeBinaryOperatorSegment(segs),
    "file": lambda segs: _file_cls()(segs, fname="synthetic.sql"),
}
_TF_CACHE = {}


def spec_leaves(spec):
    if isinstance(spec, str):
        return [spec]
    out = []
    for k in spec[1]:
        out.extend(spec_leaves(k))
    return out


def build(spec):
    """spec: leaf name | (node name, (child specs...)) -> (real tree, rendered string) or (None, reason)"""
    total = "".join(LEAVES[n][0] for n in spec_leaves(spec))
    tf = _TF_CACHE.get(total)
    if tf is None:
        if len(_TF_CACHE) > 5000:
            _TF_CACHE.clear()
        tf = _TF_CACHE[total] = TemplatedFile.from_string(total)
    pos = [0]

    def mk(s):
        if isinstance(s, str):
            raw, fac = LEAVES[s]
            pm = PositionMarker(slice(pos[0], pos[0] + len(raw)), slice(pos[0], pos[0] + len(raw)), tf)
            pos[0] += len(raw)
            return fac(pm)
        return NODES[s[0]](tuple(mk(k) for k in s[1]))
    try:
        return mk(spec), total
    except AssertionError as e:       # validate_non_code_ends: the real constructor refuses this shape
        return None, str(e)[:80]


def level_specs(leaves, nodes, depth, width):
    """all specs of depth <= depth (depth 1 = a leaf), children per node 1..width"""
    if depth == 1:
        return list(leaves)
    sub = level_specs(leaves, nodes, depth - 1, width)
    out = list(leaves)
    for n in nodes:
        for w in range(1, width + 1):
            for kids in itertools.product(sub, repeat=w):
                out.append((n, kids))
    return out


def space_size(L, K, depth, width):
    s = L
    for _ in range(depth - 1):
        s = L + K * sum(s ** w for w in range(1, width + 1))
    return s


SPACES = {
    # name: (leaf names, node names, depth, width)
    "E1-depth2-width3-full-alphabet": (tuple(LEAVES), tuple(NODES), 2, 3),
    "E2-depth3-width3-{kw,cm,indent}x{keyword,unparsable}": (("kw", "cm", "indent"), ("keyword", "unparsable"), 3, 3),
    "E3-depth3-width2-{kw,ws,empty,ph,binop,cm}x{alpha,beta,binary_operator}":
        (("kw", "ws", "empty", "ph", "binop", "cm"), ("alpha", "beta", "binary_operator"), 3, 2),
}


def _spec_json(spec):
    return spec if isinstance(spec, str) else [spec[0], [_spec_json(k) for k in spec[1]]]


def _eval_specs(specs, want_samples=0):
    """worker body: build + check each spec"""
    fails = Fails()
    st = {"attempted": 0, "unconstructible": 0, "constructed": 0, "nontrivial": 0, "evaluations": 0, "samples": []}
    for spec in specs:
        st["attempted"] += 1
        t, rendered = build(spec)
        if t is None:
            st["unconstructible"] += 1
            continue
        st["constructed"] += 1
        nl = len(spec_leaves(spec))
        if nl >= 2:
            st["nontrivial"] += 1
        js = _spec_json(spec)
        st["evaluations"] += check_tree(t, rendered, lambda: {"tree": js, "rendered_sql": rendered}, (nl, len(repr(spec))), fails)
        if len(st["samples"]) < want_samples and nl >= 4 and not isinstance(spec, str) and any(not isinstance(k, str) for k in spec[1]):
            st["samples"].append({"tree": js, "rendered_sql": rendered, "flags": {"show_raw": True},
                                  "as_record": t.as_record(show_raw=True), "to_tuple": _js(t.to_tuple(show_raw=True)),
                                  "stringify_lines": t.stringify().split("\n")[:-1]})
    st["fails"] = fails.export()
    return st


def _enum_task(task):
    name, node, w, first = task
    leaves, nodes, depth, width = SPACES[name]
    sub = level_specs(leaves, nodes, depth - 1, width)
    specs = ((node, (sub[first],) + rest) for rest in itertools.product(sub, repeat=w - 1))
    return name, _eval_specs(specs, want_samples=1 if first % 7 == 3 else 0)


def _sample_task(specs):
    return "sample", _eval_specs(specs, want_samples=1)


def random_spec(rng, leaves, nodes, depth, width):
    """a depth<=3 x width<=3 tree over the full alphabet (seeded)"""
    if depth == 1 or rng.random() < (0.0 if depth == 3 else 0.45):
        return rng.choice(leaves)
    n = rng.choice(nodes)
    w = rng.randint(1, width)
    return (n, tuple(random_spec(rng, leaves, nodes, depth - 1, width) for _ in range(w)))


def _pool(n=16):
    return mp.get_context("fork").Pool(min(n, os.cpu_count() or 4))


_CACHE = {}


def synthetic_trees(tier, seed):
    ck = ("A", tier, seed)
    if ck in _CACHE:
        return _CACHE[ck]
    t0 = time.time()
    rng = random.Random(seed * 7919 + 28)
    leaves_all, nodes_all = list(LEAVES), list(NODES)
    n_sample = 3000 if tier == "quick" else 100000
    seen, sample = set(), []
    tries = 0
    while len(sample) < n_sample and tries < n_sample * 5:
        tries += 1
        sp = random_spec(rng, leaves_all, nodes_all, 3, 3)
        if sp in seen:
            continue
        seen.add(sp)
        if build(sp)[0] is None:      # refused by the real constructor: draw again (counted)
            continue
        sample.append(sp)
    refused = len(seen) - len(sample)
    spaces = ["E1-depth2-width3-full-alphabet"] if tier == "quick" else list(SPACES)
    tasks = []
    for name in spaces:
        leaves, nodes, depth, width = SPACES[name]
        nsub = len(level_specs(leaves, nodes, depth - 1, width))
        for node in nodes:
            for w in range(1, width + 1):
                for first in range(nsub):
                    tasks.append((name, node, w, first))
    chunks = [sample[i:i + 250] for i in range(0, len(sample), 250)]
    fails = Fails()
    per = {}
    with _pool() as pool:
        r1 = pool.map_async(_enum_task, tasks, chunksize=max(1, len(tasks) // 256))
        r2 = pool.map_async(_sample_task, chunks, chunksize=1)
        results = r1.get() + r2.get()
    samples = []
    for name, st in results:
        agg = per.setdefault(name, {"attempted": 0, "unconstructible": 0, "constructed": 0, "nontrivial": 0, "evaluations": 0})
        for k in agg:
            agg[k] += st[k]
        fails.merge(st["fails"])
        samples.extend(st["samples"][:1])
    # the leaf-only trees of each enumerated space (depth 1) are evaluated here, once
    lone = _eval_specs(list(LEAVES))
    per.setdefault("depth1-leaves", {k: lone[k] for k in ("attempted", "unconstructible", "constructed", "nontrivial", "evaluations")})
    fails.merge(lone["fails"])
    enum_specs_nontrivial = sum(per[n]["nontrivial"] for n in spaces)
    # distinct shapes: enumerated specs are distinct by construction inside a space; a sampled spec that also lies in an
    # enumerated space must not be counted twice
    def in_space(sp, name):
        leaves, nodes, depth, width = SPACES[name]

        def ok(s, d):
            if isinstance(s, str):
                return s in leaves
            return d > 1 and s[0] in nodes and len(s[1]) <= width and all(ok(k, d - 1) for k in s[1])
        return ok(sp, depth)
    overlap_spaces = 0
    if tier != "quick":     # E1, E2, E3 overlap each other only on trees over their common sub-alphabet: count them exactly
        common = set()
        for a, b in itertools.combinations(spaces, 2):
            la, na, da, wa = SPACES[a]
            lb, nb, db, wb = SPACES[b]
            ls, ns = [x for x in la if x in lb], [x for x in na if x in nb]
            if ls and ns:
                for sp in level_specs(ls, ns, min(da, db), min(wa, wb)):
                    if not isinstance(sp, str) and len(spec_leaves(sp)) >= 2 and build(sp)[0] is not None:
                        common.add(sp)
        # a tree in all three spaces would be subtracted twice by pairwise counting; the three alphabets have no common node class
        overlap_spaces = len(common)
    sample_new = [sp for sp in sample if len(spec_leaves(sp)) >= 2 and not any(in_space(sp, n) for n in spaces)]
    distinct_shapes = enum_specs_nontrivial - overlap_spaces + len(sample_new)
    expected_sizes = {n: space_size(len(SPACES[n][0]), len(SPACES[n][1]), SPACES[n][2], SPACES[n][3]) - len(SPACES[n][0]) for n in spaces}
    enumerated_ok = all(per[n]["attempted"] == expected_sizes[n] for n in spaces)
    out = {
        "name": "C28-synthetic-trees",
        "bound": ("trees over the real classes " + ", ".join(sorted(NODES)) + " (containers) and " + ", ".join(LEAVES) + " (leaves): "
                  + "; ".join(f"{n}: ALL {expected_sizes[n]} node-rooted shapes enumerated" for n in spaces)
                  + f"; plus {len(sample)} distinct seeded shapes of depth<=3 x width<=3 over the full alphabet (that space has "
                  + f"{space_size(len(LEAVES), len(NODES), 3, 3):.3e} shapes and is NOT exhausted); each shape x {N_FLAGSETS} flag sets of to_tuple/as_record "
                  + "+ stringify(code_only in False/True) + raw_segments/raw/path_to"),
        "rule": RULE,
        "exhaustive": enumerated_ok,
        "exhaustive_spaces": {n: {"shapes": expected_sizes[n], **per[n]} for n in spaces},
        "exhaustive_note": ("every shape of the listed sub-spaces was attempted (count equals the closed form); shapes the real constructors "
                            "refuse (validate_non_code_ends) are counted under 'unconstructible'. The full-alphabet depth-3 space is sampled, not exhausted."),
        "sampled": {"distinct_shapes": len(sample), "refused_by_constructor_and_redrawn": refused, **per.get("sample", {})},
        "flag_sets": FLAGSETS,
        "evaluations": sum(v["evaluations"] for v in per.values()),
        "trees_built": sum(v["constructed"] for v in per.values()),
        "distinct_shapes_with_2+_leaves": distinct_shapes,
        "distinct_nontrivial": distinct_shapes * N_FLAGSETS,
        "samples": samples[:4],
        "failing_clauses": {c: n for c, n in sorted(fails.count.items()) if not c.startswith("OBS:")},
        "wall_s": round(time.time() - t0, 2),
        "failed": [],
    }
    _CACHE[ck] = out
    _CACHE[("A-fails", tier, seed)] = fails
    return out


# ===================================================================================================== domain B
FIXTURES = "/repo/test/fixtures/dialects"

UNPARSABLE_SQL = [
    "SELECT 1 FROM /* c */ +++ -- x\n foo bar baz ;; select )",
    "SELECT 1 +++ /* c */ 2\n",
    "SELECT FROM",
    ")",
    "select a from t where ((",
    "selct 1",
    "SELECT 1; /* c */ ) -- d\n",
    "SELECT a, FROM t -- trailing\n",
    "-- only a comment",
    "",
    " ",
    "\n\n",
    ";",
    "SELECT 'unterminated",
    "SELECT \"a\" AS [b] FROM `c`",
    "SELECT 1 \u00a7 2 \u20ac FROM t",
    "CREATE TABLE t (a int, /* c1 */ ??? -- c2\n b int)",
    "SELECT a\tFROM\tt\r\nWHERE b = 'it''s' -- tab\tand quote '\n",
    "SELECT 'null', 'yes', '1', '1e3', '~', ':', '- a', '# b', ' lead', 'trail ' FROM t\n",
    "INSERT INTO t VALUES (1, /* a */ /* b */ 2) garbage -- c1\n /* c2 */ more garbage\n",
]
JINJA_SQL = [
    "SELECT {{ 1 + 1 }} AS a FROM t\n",
    "{% set cols = ['a', 'b', 'c'] %}SELECT {% for c in cols %}{{ c }}{% if not loop.last %}, {% endif %}{% endfor %} FROM tbl\n",
    "SELECT a {# comment #} FROM t {% if true %}WHERE a > 1{% endif %}\n",
    "{% if false %}SELECT 1{% else %}SELECT 2{% endif %}\n",
    "{% macro m(x) %}{{ x }} + 1{% endmacro %}SELECT {{ m('a') }} FROM t\n",
    "SELECT\n    {% for i in range(3) %}\n    col_{{ i }},\n    {% endfor %}\n    1\nFROM t\n",
    "{% set t = 'tbl' %}\nSELECT * FROM {{ t }} WHERE {{ 'x' }} = 1 -- trailing {{ 'c' }}\n",
    "{# only a comment #}\n",
    "{% if true %}{% endif %}SELECT 1\n",
    "SELECT {{ '' }}1{{ '' }} FROM t{{ '' }}\n",
    "SELECT {% raw %}a{% endraw %} FROM t\n",
    "{% for a in [1,2] %}{% for b in ['x','y'] %}SELECT {{ a }} AS {{ b }};\n{% endfor %}{% endfor %}",
    "{%- if true -%}\n  SELECT 1\n{%- endif -%}\n",
    "SELECT 1 {% if true %}+++ FROM{% endif %} (\n",
    "{{ \"SELECT 1\" }}",
    "SELECT a, {% for x in [] %}{{x}}{% endfor %} b FROM t\n",
    "{% set x %}block set{% endset %}SELECT '{{ x }}'\n",
    "SELECT a FROM t WHERE a IN ({% for v in [1,2,3] %}{{ v }}{{ ',' if not loop.last }}{% endfor %})\n",
    "{% if 1 == 2 %}\nSELECT a\n{% elif 1 == 1 %}\nSELECT b\n{% else %}\nSELECT c\n{% endif %}\nFROM t\n",
    "/* {{ 'x' }} */ SELECT 1 -- {{ 'y' }}\n",
    "SELECT {% if true %}a{% else %}b{% endif %}, {% if false %}c{% else %}d{% endif %} FROM t\n",
    "{% for i in range(2) %}SELECT {{ i }} {# c{{ i }} #} -- sql comment\n;{% endfor %}\n",
]
_JINJA_PARTS = ["{{ 'a' }}", "{% if true %}b{% endif %}", "{# c #}", "{% for i in [1, 2] %}c{{ i }}, {% endfor %}d", "{{ 1 }} + {{ 2 }}",
                "{% if false %}e{% else %}f{% endif %}", "{% set v = 'g' %}{{ v }}", "{%- if true %} h {% endif -%}"]


def choose_inputs(tier, seed):
    """(dialect, label, sql) triples, seeded"""
    rng = random.Random(seed * 104729 + 28)
    per_other = 4 if tier == "quick" else 55
    n_ansi = 40 if tier == "quick" else None
    groups = {}
    for d in sorted(os.listdir(FIXTURES)):
        p = os.path.join(FIXTURES, d)
        if not os.path.isdir(p):
            continue
        files = sorted(glob.glob(os.path.join(p, "*.sql")))
        k = (n_ansi if d == "ansi" else per_other)
        if k is not None and len(files) > k:
            files = sorted(rng.sample(files, k))
        groups[d] = files
    extra = [("crafted-unparsable-%02d" % i, s) for i, s in enumerate(UNPARSABLE_SQL)]
    jin = list(JINJA_SQL)
    while len(jin) < 32:
        parts = [rng.choice(_JINJA_PARTS) for _ in range(rng.randint(2, 4))]
        jin.append("SELECT " + ", ".join(parts) + " FROM t" + rng.choice(["\n", "", " {# end #}\n"]))
    extra += [("jinja-%02d" % i, s) for i, s in enumerate(jin)]
    return groups, extra


def _read(path):
    with open(path, encoding="utf8", newline="") as fh:
        return fh.read()


def _contains_in_order(out, blocks):
    pos, rest = 0, []
    for b in blocks:
        i = out.find(b, pos)
        if i < 0:
            return False, None
        rest.append(out[pos:i])
        pos = i + len(b)
    rest.append(out[pos:])
    return True, "".join(rest)


_TREE_LINE = re.compile(r"^(\[L:\s*\d+, P:\s*\d+\]|-)\s*\|", re.M)


def _new_stats():
    return {"inputs": 0, "trees": 0, "no_tree": 0, "leaves": 0, "evaluations": 0, "unparsable_trees": 0, "trees_with_placeholder": 0,
            "multi_variant_inputs": 0, "cli_invocations": 0, "cli_file_format_pairs": 0, "cli_files": 0, "api_calls": 0, "api_raised": 0,
            "include_meta_all_leaf_concat_differs": 0, "shapes": [], "samples": [], "notes": []}


def _tree_task(task):
    """parse each input with the real Linter and evaluate the tree clauses on every variant tree"""
    dialect, items = task          # items: [(label, sql)]
    from sqlfluff.core import Linter
    fails = Fails()
    t_task = time.time()
    st = _new_stats()
    lnt = Linter(dialect=dialect)
    for label, sql in items:
        ps = lnt.parse_string(sql, fname=label)
        st["inputs"] += 1
        if len(ps.parsed_variants) > 1:
            st["multi_variant_inputs"] += 1
        if not ps.root_variant():
            st["no_tree"] += 1
        for vi, v in enumerate(ps.parsed_variants):
            if not v.tree:
                continue
            t = v.tree
            st["trees"] += 1
            W = walk(t)
            nl = len(W)
            st["leaves"] += nl
            if any(True for _ in t.iter_unparsables()):
                st["unparsable_trees"] += 1
            if any(isinstance(l, TemplateSegment) for l, _ in W):
                st["trees_with_placeholder"] += 1
                joined_all = "".join(v2 for _, _, v2 in flatten_record(t.as_record(show_raw=True, include_meta=True))[0] if v2 is not None)
                if joined_all != v.templated_file.templated_str:
                    st["include_meta_all_leaf_concat_differs"] += 1
            if nl >= 2:
                st["shapes"].append(hash(t.to_tuple(show_raw=True, include_meta=True)))
            case = (lambda label=label, sql=sql, vi=vi: {"dialect": dialect, "input": label, "variant": vi, "sql": sql[:3000]})
            st["evaluations"] += check_tree(t, v.templated_file.templated_str, case, len(sql), fails, path_to_limit=40)
            if len(st["samples"]) < 1 and 4 <= nl <= 40:
                st["samples"].append({"dialect": dialect, "input": label, "sql": sql, "flags": {"show_raw": True},
                                      "as_record": t.as_record(show_raw=True)})
    st["fails"] = fails.export()
    st["task_wall"] = (round(time.time() - t_task, 2), "tree clauses", dialect, [lab for lab, _ in items][:2], len(items))
    return dialect, st


CLI_COMBOS_BASIC = [("json", False, False), ("yaml", False, False), ("human", False, False)]
CLI_COMBOS_FLAGS = CLI_COMBOS_BASIC + [("json", True, False), ("yaml", False, True), ("human", True, False), ("none", False, False)]


def _cli_task(task):
    """one temp directory tree <root>/<dialect>/{.sqlfluff, NNNN_name.sql}: the real click command `parse` on the root for each
    (format, -c, -m), compared with the tree the real Linter produces for the same file; then the simple API on each file"""
    by_dialect, combos = task       # {dialect: [(label, sql)]}
    import click.testing
    import yaml
    import sqlfluff
    from sqlfluff.api.simple import APIParsingError
    from sqlfluff.cli.commands import parse as cli_parse
    from sqlfluff.core import Linter
    fails = Fails()
    t_task = time.time()
    st = _new_stats()
    root = tempfile.mkdtemp(prefix="c28_")
    try:
        parsed = {}
        for dialect, items in by_dialect.items():
            os.mkdir(os.path.join(root, dialect))
            with open(os.path.join(root, dialect, ".sqlfluff"), "w") as fh:
                fh.write(f"[sqlfluff]\ndialect = {dialect}\n")
            lnt = Linter(dialect=dialect)
            for idx, (label, sql) in enumerate(items):
                fname = os.path.join(root, dialect, "%04d_%s.sql" % (idx, re.sub(r"[^A-Za-z0-9_-]", "_", os.path.basename(label).replace(".sql", ""))[:60]))
                with open(fname, "w", encoding="utf8", newline="") as fh:
                    fh.write(sql)
                parsed[fname] = (dialect, label, sql, lnt.parse_string(sql, fname=fname))
        st["cli_files"] = len(parsed)
        runner = click.testing.CliRunner()
        key = lambda sql: (0, len(sql))
        for fmt, co, im in combos:
            args = [root, "-f", fmt] + (["-c"] if co else []) + (["-m"] if im else []) + (["--nocolor"] if fmt == "human" else [])
            res = runner.invoke(cli_parse, args)
            st["cli_invocations"] += 1
            st["cli_file_format_pairs"] += len(parsed)
            out = res.stdout
            if fmt == "none":
                if out.strip() != "":
                    fails.add("C28/cli-none/prints-nothing", F_CLI, (0, 0), {"args": args[1:], "stdout_head": out[:400]})
                continue
            if fmt == "human":
                clause = "C28/cli-human/prints-stringify-of-linter-tree"
                blocks = []
                for fname, (dialect, label, sql, ps) in parsed.items():
                    rv = ps.root_variant()
                    if not rv:
                        continue
                    bl = [rv.tree.stringify(code_only=co)] if len(ps.parsed_variants) == 1 else \
                        [v.tree.stringify(code_only=co) for v in ps.parsed_variants if v.tree]
                    for b in bl:
                        blocks.append(b)
                        if out.count(b) < 1:
                            fails.add(clause, F_CLI, key(sql), {"dialect": dialect, "input": label, "sql": sql[:3000], "args": args[1:],
                                      "problem": "stringify() of the tree the Linter builds for this file is not in the command output",
                                      "expected_lines": b.split("\n")[:40]})
                rest = out
                for b, k in sorted(Counter(blocks).items(), key=lambda x: -len(x[0])):
                    if rest.count(b) != k and rest.count(b) >= 1:
                        fails.add(clause, F_CLI, (0, 3), {"args": args[1:], "problem": f"a tree printed {rest.count(b)} times, expected {k}", "tree_head": b[:300]})
                    rest = rest.replace(b, "")
                if _TREE_LINE.search(rest):
                    mm = _TREE_LINE.search(rest)
                    fails.add(clause, F_CLI, (0, 2), {"args": args[1:], "problem": "tree lines in the output that belong to no Linter tree",
                                                      "extra": rest[mm.start():mm.start() + 600]})
                continue
            clause = f"C28/cli-{fmt}/round-trip-equals-as_record-of-linter-tree"
            try:
                payload = json.loads(out) if fmt == "json" else yaml.load(out, Loader=getattr(yaml, "CSafeLoader", yaml.SafeLoader))
                by = {e["filepath"]: e["segments"] for e in payload}
            except Exception as e:
                fails.add(clause, F_CLI, (0, 0), {"args": args[1:], "problem": f"output does not load: {e!r}"[:600],
                                                  "exit_code": res.exit_code, "stdout_head": out[:400]})
                continue
            if sorted(by) != sorted(parsed):
                fails.add(clause, F_CLI, (0, 1), {"args": args[1:], "problem": "file list differs", "expected_files": sorted(os.path.relpath(x, root) for x in parsed)[:50],
                                                  "observed_files": sorted(os.path.relpath(x, root) for x in by)[:50]})
            for fname, (dialect, label, sql, ps) in parsed.items():
                if fname not in by:
                    continue
                rv = ps.root_variant()
                want = rv.tree.as_record(code_only=co, show_raw=True, include_meta=im, include_position=im) if rv else None
                if json.dumps(by[fname]) != json.dumps(want):       # order-sensitive comparison of the whole record
                    eo = flatten_record(want)[0] if want else []
                    oo = flatten_record(by[fname])[0] if isinstance(by[fname], dict) else []
                    fails.add(clause, F_CLI, key(sql), {"dialect": dialect, "input": label, "sql": sql[:3000], "args": args[1:],
                                                        "entry": "[path, type, text] of the flattened records", **_diff(eo, oo)})
        # ---- the simple API
        for fname, (dialect, label, sql, ps) in parsed.items():
            st["api_calls"] += 1
            try:
                got = sqlfluff.parse(sql, dialect=dialect)
            except APIParsingError:
                st["api_raised"] += 1
                if not ps.violations:
                    st["notes"].append(f"api raised APIParsingError but Linter.parse_string had no violations: {label}")
                continue
            rv = ps.root_variant()
            want = rv.tree.as_record(show_raw=True) if rv else None
            if json.dumps(got) != json.dumps(want):
                eo = flatten_record(want)[0] if want else []
                oo = flatten_record(got)[0] if isinstance(got, dict) else []
                fails.add("C28/api-parse/equals-as_record-of-linter-tree", F_API, key(sql),
                          {"dialect": dialect, "input": label, "sql": sql[:3000], "entry": "[path, type, text]", **_diff(eo, oo)})
    finally:
        shutil.rmtree(root, ignore_errors=True)
    st["fails"] = fails.export()
    st["task_wall"] = (round(time.time() - t_task, 2), "cli+api", sorted(by_dialect), len(parsed), len(combos))
    return "cli", st


def _b_task(task):
    return _tree_task(task[1]) if task[0] == "tree" else _cli_task(task[1])


def real_parses(tier, seed):
    ck = ("B", tier, seed)
    if ck in _CACHE:
        return _CACHE[ck]
    t0 = time.time()
    groups, extra = choose_inputs(tier, seed)
    rng = random.Random(seed * 31 + 5)
    step, per_dialect_cli, cap = (6, 1, 1500) if tier == "quick" else (12, 6, 12000)
    tasks = []
    cli_other = {}
    for d, files in groups.items():
        items = [(os.path.relpath(f, FIXTURES), _read(f)) for f in files]
        for i in range(0, len(items), step):
            tasks.append(("tree", (d, items[i:i + step])))
        # a seeded subset (inputs of at most `cap` characters) additionally goes through the real CLI and API, which re-parse it 4-8 times
        small = [it for it in items if len(it[1]) <= cap]
        cli_other[d] = rng.sample(small, min(per_dialect_cli * (4 if d == "ansi" else 1), len(small)))
    for i in range(0, len(extra), 13):
        tasks.append(("tree", ("ansi", extra[i:i + 13])))
    # CLI roots: the crafted + Jinja strings and the ansi files get every (format, flag) combination, the other dialects the three formats
    # (many small CLI tasks: in this sandbox concurrent parses slow each other down, the makespan is set by the longest task)
    ansi_cli = extra + cli_other.pop("ansi")
    csz = 7 if tier == "quick" else 10
    cli_tasks = [({"ansi": ansi_cli[i:i + csz]}, CLI_COMBOS_FLAGS) for i in range(0, len(ansi_cli), csz)]
    ds = sorted(cli_other)
    if tier == "quick":         # quick: the CLI/API leg on half of the other dialects (seeded), all of them in thorough
        ds = sorted(rng.sample(ds, (len(ds) + 1) // 2))
    nparts = 14 if tier == "quick" else 27
    for k in range(nparts):
        part = {d: cli_other[d] for d in ds[k::nparts] if cli_other[d]}
        if part:
            cli_tasks.append((part, CLI_COMBOS_BASIC if tier == "quick" else CLI_COMBOS_FLAGS))
    n_cli = sum(len(v) for bd, _ in cli_tasks for v in bd.values())
    tasks = [("cli", ct) for ct in cli_tasks] + sorted(tasks, key=lambda tk: -sum(len(s) for _, s in tk[1][1]))
    # measured here: parsing is mmap/munmap heavy (CPython 3.12 frame-stack chunks under deep recursion) and more than ~6 concurrent
    # parsers slow each other down in this sandbox
    with _pool(6) as pool:
        results = pool.map(_b_task, tasks, chunksize=1)
    fails = Fails()
    agg = Counter()
    shapes = set()
    samples, notes, per_dialect, walls = [], [], Counter(), []
    for d, st in results:
        for k, v in st.items():
            if isinstance(v, int):
                agg[k] += v
        if d != "cli":
            per_dialect[d] += st["inputs"]
        shapes.update((d, h) for h in st["shapes"])
        samples.extend(st["samples"])
        notes.extend(st["notes"])
        walls.append(st["task_wall"])
        fails.merge(st["fails"])
    rng = random.Random(seed)
    rng.shuffle(samples)
    out = {
        "name": "C28-real-parses",
        "bound": (f"{agg['inputs']} inputs parsed by the real Linter.parse_string: {sum(len(v) for v in groups.values())} .sql fixtures of "
                  f"{len(groups)} dialects under {FIXTURES} (tier {tier}: " + ("40 seeded ansi + 4 seeded per other dialect" if tier == "quick" else "all ansi + up to 55 seeded per other dialect")
                  + f"), {len(UNPARSABLE_SQL)} crafted strings with unparsable/odd sections, {len(extra) - len(UNPARSABLE_SQL)} Jinja templates (loops/ifs/placeholders); "
                  f"every variant tree x {N_FLAGSETS} flag sets + stringify x2; the real click command `parse` on temp directory trees "
                  f"(-f json|yaml|human|none, with -c / -m variants) and sqlfluff.parse() on a seeded subset of {n_cli} of the inputs "
                  f"(all crafted/Jinja strings + inputs of at most {cap} characters, {per_dialect_cli} per dialect"
                  + (" for a seeded half of the non-ansi dialects" if tier == "quick" else "") + f", {4 * per_dialect_cli} for ansi)"),
        "rule": RULE,
        "exhaustive": False,
        "inputs_per_dialect": dict(sorted(per_dialect.items())),
        "evaluations": agg["evaluations"] + agg["cli_file_format_pairs"] + agg["api_calls"],
        "tree_contract_evaluations": agg["evaluations"], "cli_invocations": agg["cli_invocations"], "cli_files": agg["cli_files"],
        "cli_file_format_pairs": agg["cli_file_format_pairs"], "api_calls": agg["api_calls"], "api_raised_APIParsingError": agg["api_raised"],
        "trees": agg["trees"], "leaves_total": agg["leaves"], "inputs_without_tree": agg["no_tree"],
        "trees_with_unparsable_section": agg["unparsable_trees"], "trees_with_template_placeholder": agg["trees_with_placeholder"],
        "multi_variant_inputs": agg["multi_variant_inputs"],
        "observation_include_meta": {
            "trees where concatenating ALL leaf texts of as_record(show_raw=True, include_meta=True) differs from the rendered SQL": agg["include_meta_all_leaf_concat_differs"],
            "why": "TemplateSegment.to_tuple emits the template *source* of a placeholder; the clause concat-reproduces-rendered-sql therefore "
                   "concatenates the leaves whose type is not a meta type (placeholder/indent/dedent/...)"},
        "distinct_shapes_with_2+_leaves": len(shapes),
        "distinct_nontrivial": len(shapes) * N_FLAGSETS,
        "samples": samples[:3],
        "notes": notes[:10],
        "slowest_tasks": sorted(walls, key=lambda w: -w[0])[:5],
        "failing_clauses": {c: n for c, n in sorted(fails.count.items()) if not c.startswith("OBS:")},
        "wall_s": round(time.time() - t0, 2),
        "failed": [],
    }
    _CACHE[ck] = out
    _CACHE[("B-fails", tier, seed)] = fails
    return out


def clause_verdicts(tier, seed):
    """one failed entry per clause id, carrying the smallest failing case found in either domain"""
    synthetic_trees(tier, seed)
    real_parses(tier, seed)
    fa, fb = _CACHE[("A-fails", tier, seed)], _CACHE[("B-fails", tier, seed)]
    failed = []
    observations = {}
    for clause in sorted(set(fa.best) | set(fb.best)):
        a, b = fa.best.get(clause), fb.best.get(clause)
        if clause.startswith("OBS:"):
            observations[clause[4:]] = {"cases": {"synthetic trees": fa.count.get(clause, 0), "real parses": fb.count.get(clause, 0)},
                                        "smallest": (a or b)[2], "function": (a or b)[1],
                                        "note": "BaseSegment.path_to compares segments with == (type, raw, position): a container whose only child is a "
                                                "container of the same type is taken for its own child and the chain comes back one step short. Not a C28 clause."}
            continue
        # an unexplained case (key[0] == 0) outranks one explained by a known pattern; then synthetic (smaller) before real
        cands = sorted([x for x in (("synthetic tree", a), ("real parse", b)) if x[1]], key=lambda x: (x[1][0][0], 0 if x[0] == "synthetic tree" else 1))
        dom, (key, fn, det) = cands[0]
        detail = {"smallest_failing_case": det, "found_in": dom,
                  "failing_cases": {"synthetic trees": fa.count.get(clause, 0), "real parses": fb.count.get(clause, 0)}}
        if len(cands) > 1 and cands[1][1][0][0] == key[0]:       # same explanation class only (a known pattern must not mask a new one)
            detail["also_on_" + cands[1][0].replace(" ", "_")] = cands[1][1][2]
        failed.append({"name": clause, "id": clause, "kind": "bounded", "status": "failed", "function": fn,
                       "backend": "CPython (bounded evaluation of the executable contract)", "detail": detail, "reproduced": True})
    return {"name": "C28-clause-verdicts", "bound": "union of C28-synthetic-trees and C28-real-parses",
            "rule": "one entry per clause id that failed on at least one case; the smallest failing case is carried; no new evaluations",
            "evaluations": 0, "distinct_nontrivial": 0, "samples": [{"clauses_evaluated": CLAUSES}],
            "clauses_failed": [f["id"] for f in failed], "observations": observations, "failed": failed}


CLAUSES = [
    "C28/raw_segments/every-leaf-in-file-order", "C28/raw/concat-of-leaf-raws", "C28/raw/leaf-texts-reproduce-rendered-sql",
    "C28/to_tuple/leaves-in-order", "C28/to_tuple/code-only-drops-exactly-the-non-code-leaves", "C28/to_tuple/nesting", "C28/to_tuple/concat-reproduces-rendered-sql",
    "C28/as_record/leaves-in-order", "C28/as_record/code-only-drops-exactly-the-non-code-leaves", "C28/as_record/nesting", "C28/as_record/concat-reproduces-rendered-sql",
    "C28/as_record/record-shape", "C28/as_record/agrees-with-to_tuple",
    "C28/stringify/line-format", "C28/stringify/every-leaf-listed-once", "C28/stringify/leaves-in-file-order", "C28/stringify/nesting",
    "C28/stringify/every-leaf-listed-once[code_only]", "C28/stringify/leaves-in-file-order[code_only]", "C28/stringify/nesting[code_only]",
    "C28/cli-json/round-trip-equals-as_record-of-linter-tree", "C28/cli-yaml/round-trip-equals-as_record-of-linter-tree",
    "C28/cli-human/prints-stringify-of-linter-tree", "C28/cli-none/prints-nothing", "C28/api-parse/equals-as_record-of-linter-tree",
]


# ===================================================================================================== self-checks (EXTRA)
def self_checks(tier, seed):
    """Obligations about THIS CHECKER only (decided by evaluation): the enumerators produce the closed-form number of shapes
    and the oracles reject seeded faults of a fake serialiser.  Nothing about sqlfluff is counted as discharged here."""
    failed, n, ok, samples = [], 0, 0, []

    def ob(oid, good, detail):
        nonlocal n, ok
        n += 1
        if good:
            ok += 1
            if len(samples) < 8:
                samples.append({"obligation": oid, "backend": "evaluation (checker self-check)", **detail})
        else:
            failed.append({"name": oid, "id": oid, "kind": "self-check", "status": "failed", "function": "contracts.c28", "detail": detail, "reproduced": True})
    for name, (leaves, nodes, depth, width) in SPACES.items():
        if depth == 2 or len(leaves) <= 3 or width == 2:
            cnt = len(level_specs(leaves, nodes, depth - 1, width))
            want_sub = space_size(len(leaves), len(nodes), depth - 1, width)
            ob(f"C28/self-check/enumerator-count[{name}]", cnt == want_sub and len(set(level_specs(leaves, nodes, depth - 1, width))) == cnt,
               {"sub_level_shapes": cnt, "closed_form": want_sub, "top_level_closed_form": space_size(len(leaves), len(nodes), depth, width)})
    # oracle sensitivity on a hand-written tree with duplicates, a same-type child, a meta, an empty raw and a comment
    spec = ("file", (("keyword", ("kw", "ws", "kw")), "ws", ("unparsable", ("KW", "empty", "indent")), "ws", "nl", "cm", "eof"))
    t, rendered = build(spec)
    # a hand-written faithful record / human text of that tree (NOT produced by the serialisers under check)
    rec = {"file": [{"keyword": [{"keyword": "select"}, {"whitespace": " "}, {"keyword": "select"}]}, {"whitespace": " "},
                    {"unparsable": {"keyword": "FROM", "raw": ""}}, {"whitespace": " "}, {"newline": "\n"}, {"inline_comment": "-- c"}]}
    want = expected_entries(t, False, True, False)
    good = flatten_record(rec)[0]
    ob("C28/self-check/oracle-accepts-handwritten", good == want and "".join(v for _, _, v in good if v is not None) == rendered
       and [(p, ty, v) for p, ty, v in good][:3] == [(("file", "keyword"), "keyword", "select"), (("file", "keyword"), "whitespace", " "), (("file", "keyword"), "keyword", "select")],
       {"tree": _spec_json(spec), "as_record": rec})

    def mutate_record(kind):
        r = json.loads(json.dumps(rec))
        top = r["file"]
        if kind == "drop-last-duplicate":
            top[0]["keyword"] = top[0]["keyword"][:-1]
        elif kind == "duplicates-merged-into-dict":
            top[0]["keyword"] = {k: v for d in top[0]["keyword"] for k, v in d.items()}
        elif kind == "text-uppercased":
            top[0]["keyword"][0]["keyword"] = "SELECT"
        elif kind == "two-leaves-swapped":
            top[4], top[5] = top[5], top[4]
        elif kind == "level-un-nested":
            top[2:3] = [{"keyword": "FROM"}, {"raw": ""}]
        elif kind == "empty-raw-leaf-skipped":
            top[2]["unparsable"] = {"keyword": "FROM"}
        return r
    for kind in ("drop-last-duplicate", "duplicates-merged-into-dict", "text-uppercased", "two-leaves-swapped", "level-un-nested", "empty-raw-leaf-skipped"):
        got = flatten_record(mutate_record(kind))[0]
        ob(f"C28/self-check/oracle-rejects[{kind}]", got != want, {"fault": kind})
    txt = ("[L:  1, P:  1]      |file:\n[L:  1, P:  1]      |    keyword:\n"
           "[L:  1, P:  1]      |        keyword:                                              'select'\n"
           "[L:  1, P:  7]      |        whitespace:                                           ' '\n"
           "[L:  1, P:  8]      |        keyword:                                              'select'\n"
           "[L:  1, P: 14]      |    whitespace:                                               ' '\n"
           "[L:  1, P: 15]      |    unparsable:                                               !! Expected: 'something'\n"
           "[L:  1, P: 15]      |        keyword:                                              'FROM'\n"
           "[L:  1, P: 19]      |        raw:                                                  ''\n"
           "[L:  1, P: 19]      |        [META] indent:\n"
           "[L:  1, P: 19]      |    whitespace:                                               ' '\n"
           "[L:  1, P: 20]      |    newline:                                                  '\\n'\n"
           "[L:  2, P:  1]      |    inline_comment:                                           '-- c'\n"
           "[L:  2, P:  5]      |    [META] end_of_file:\n")
    lv, bad = parse_stringify(txt)
    ob("C28/self-check/stringify-parser-reads-handwritten", not bad and [x[1:] for x in lv] ==
       [("keyword", False, "select"), ("whitespace", False, " "), ("keyword", False, "select"), ("whitespace", False, " "), ("keyword", False, "FROM"),
        ("raw", False, ""), ("indent", True, None), ("whitespace", False, " "), ("newline", False, "\n"), ("inline_comment", False, "-- c"), ("end_of_file", True, None)]
       and lv[0][0] == ("file", "keyword") and lv[5][0] == ("file", "unparsable"), {"lines": txt.split("\n")[:-1]})
    # actual cases of the bounded run, so that coverage.samples shows what was explored
    a = synthetic_trees(tier, seed)
    b = real_parses(tier, seed)
    cases = [{"case": "synthetic tree", **s} for s in a["samples"][:2]] + [{"case": "real parse", **s} for s in b["samples"][:1]]
    return {"name": "C28-checker-self-checks", "obligations": n, "discharged": ok, "failed": failed, "undecided": [],
            "samples": cases[:3] + samples, "backend": "evaluation (checker self-checks only; the property is bounded, not proved)",
            "trusted": []}


EXTRA = [self_checks]
BOUNDED = [synthetic_trees, real_parses, clause_verdicts]

RULE = ("cases are (tree, flag set) pairs. Domain A enumerates tree shapes (nested (container class, children) over a fixed leaf alphabet; exhaustively for "
        "the listed sub-spaces, seeded random draws without repetition for the full alphabet) and builds each with the real constructors on a "
        "TemplatedFile.from_string; domain B takes the variant trees the real Linter produces for seeded fixture files, crafted strings and Jinja templates. "
        f"Every tree is evaluated under the same {N_FLAGSETS} flag sets of to_tuple/as_record (code_only x show_raw x include_meta, the -m set with positions, "
        "the API default set). A pair is non-trivial when the tree has at least 2 leaves; distinct = distinct tree shape (A: the spec itself, enumerated "
        "once per space, overlaps between spaces and with the sample subtracted; B: hash of to_tuple(show_raw, include_meta) per dialect) x flag set. "
        "distinct_nontrivial is that measured number of shapes times the number of flag sets; evaluations counts contract evaluations "
        "(one per serialiser call checked, CLI file x format pair, API call).")

EXPLANATION = (
    "BOUNDED stand-in for C28; nothing is proved. The property is turned into executable clauses over a flat reading of each output: "
    "flatten(as_record(t, flags)) and flatten(to_tuple(t, flags)) must equal, in order, the (type, text) of the leaves the flag set is supposed to list "
    "(every non-meta leaf; metas only with include_meta; with code_only exactly the code leaves), with the path of dict keys / tuple heads above each leaf "
    "equal to the get_type() chain of its ancestors (so nothing is dropped, merged or re-parented by structural_simplify's duplicate-key handling), and the "
    "concatenation of the non-meta leaf texts equal to t.raw and, for a file root, to the templated string. stringify() is parsed line by line: every "
    "leaf once (multiset), in file order (sequence), under the right ancestors (indentation). The click command `parse` is run in-process on temp "
    "directories: its JSON and YAML output must load to a record that is order-sensitively equal to as_record(show_raw=True, code_only=-c, "
    "include_meta=include_position=-m) of the tree the Linter produces for the same file, its human output must be the stringify() text of those trees, "
    "`-f none` prints nothing; sqlfluff.parse() must return as_record(show_raw=True) of the same tree (or raise APIParsingError). The oracle for 'which "
    "leaves' and 'which ancestors' is an independent walk over .segments; raw_segments, get_raw_segments, raw and path_to are checked against it. "
    "coverage.obligations/discharged count ONLY self-checks of this checker (enumerator counts, oracle sensitivity to six seeded faults, stringify "
    "parser), not clauses of the property. A clause that fails on any case yields one failed entry with the smallest case found.")

TRUSTED = [
    "the flat reading (flatten_record / flatten_tuple / parse_stringify in contracts/c28.py) is itself unverified code; its sensitivity is self-checked on six seeded faults",
    "json.loads / yaml.safe_load are the readers a consumer of the CLI output would use",
    "click.testing.CliRunner runs the command in-process as the console entry point would (stdout only is read)",
    "PositionMarker / TemplatedFile.from_string give synthetic trees the positions a lexer would",
]
NOT_COVERED = [
    "anything outside the stated bounds: trees deeper/wider than the enumerated sub-spaces, leaf classes other than the 13 listed, fixture files not drawn by the seed",
    "the values of the position fields emitted with -m (include_position); only that they do not disturb the token list and nesting",
    "inputs for which no tree exists (fatal templating / lexing failure): the CLI prints null / '...Failed to Parse...' and lists no tokens",
    "non-root variants in the JSON/YAML output (the command documents that only the root variant is emitted) and the Rust parser path (sqlfluffrs is not built here)",
    "the --write-output file path of the parse command, stdin ('-') input, --bench / --parse-statistics extras, colourised output",
    "with include_meta the text of a placeholder is its template source, so concatenating *all* leaves (metas included) does not give the rendered SQL; the clause concatenates non-meta-typed leaves (measured in bounded_stand_ins[1].observation_include_meta)",
    "dialect grammars themselves (whether the tree is the *right* tree) -- C28 is only about serialising whatever tree was built",
]

# ===================================================================================================== must-fail mutants
_B = "sqlfluff/core/parser/segments/base.py"
MUTANTS = [
    ("structural_simplify_drops_last_duplicate", _B,
     "            result[key] = contents\n            return result", "            result[key] = contents[:-1]\n            return result"),
    ("duplicate_key_detection_off_by_one", _B,
     "        if len(set(subkeys)) != len(subkeys):", "        if len(set(subkeys)) + 1 < len(subkeys):"),
    ("to_tuple_skips_empty_raw_children", _B,
     "                if include_meta or not seg.is_meta:\n", "                if (include_meta or not seg.is_meta) and (seg.segments or seg.raw):\n"),
    ("to_tuple_leaf_text_upper", _B,
     "            base_tuple = (self.get_type(), self.raw)", "            base_tuple = (self.get_type(), self.raw_upper)"),
    ("to_tuple_code_only_default_flipped", _B,
     "    def to_tuple(\n        self,\n        code_only: bool = False,", "    def to_tuple(\n        self,\n        code_only: bool = True,"),
    ("stringify_skips_comments", _B,
     "                if not code_only or seg.is_code:\n", "                if (not code_only or seg.is_code) and not seg.is_comment:\n"),
    ("stringify_children_reversed", _B,
     "            for seg in self.segments:\n                # If we're in code_only, only show the code segments", "            for seg in reversed(self.segments):\n                # If we're in code_only, only show the code segments"),
    ("cli_json_built_code_only", "sqlfluff/cli/commands.py",
     "                segments = root_variant.tree.as_record(\n                    code_only=code_only,", "                segments = root_variant.tree.as_record(\n                    code_only=True,"),
    ("cli_yaml_sorts_keys", "sqlfluff/cli/commands.py", "                sort_keys=False,", "                sort_keys=True,"),
    ("api_parse_without_raw", "sqlfluff/api/simple.py",
     "    record = root_variant.tree.as_record(show_raw=True)", "    record = root_variant.tree.as_record(show_raw=True, code_only=True)"),
]
