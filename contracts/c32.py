"""C32 -- linting is read-only and repeatable.

READ-ONLY half (this file): level F of DESIGN.md -- frame/effect clauses discharged *syntactically* by pyvc.effects over the real
AST of every module below <src>/sqlfluff (re-read from disk on every run; `--src DIR` honoured through sqlfluff.__file__), plus an
audit-hook cross-check (BOUNDED dynamic_trace).

REPEATABILITY half ("no state that outlives one lint may change what a later lint reports"), three parts, each labelled:
  contracts/c32_state.py      pyvc contracts on the anchored mechanisms: Linter.allowed_rule_ref_map (FRAME: the reference map handed
                              in is not modified -- two region contracts proved/refuted by pyvc, two native_only companions) and
                              BlockTracker.enter / exit / top (what the class-level `_stack` / `_map` hold after each call)
  contracts/c32_inventory.py  EXTRA syntactic obligations: the exact inventory of process-lifetime state (functools caches, caching
                              decorators, cached_property, module-/class-level state written at run time, ContextVars, __dict__ stores,
                              written mutable defaults) and an inter-procedural taint analysis "a shared object is never written"
  contracts/c32_history.py    BOUNDED stand-in for the history property itself: random and directed histories of lint / parse / render
                              operations in worker processes against one FRESH python process per operation
"""
from __future__ import annotations

import ast
import hashlib
import os
import shutil
import sys
import tempfile
import time
import traceback

from pyvc import effects
from . import c32_state as _state        # pyvc contracts of the repeatability half (registered on import)
from . import c32_inventory as _inventory
from . import c32_history as _history

PROP = "C32"
LEVEL = "other"

L = "sqlfluff.core.linter.linter:Linter."
R = "sqlfluff.core.linter.runner:"
CLI = "sqlfluff.cli.commands:"

# ------------------------------------------------------------------------------------------------ declarations
# (a) functions that contain a PRIMITIVE write site, with the primitives each one contains (determined by reading the
#     tree at build time; a new site anywhere under sqlfluff fails `primitive-sites/no-undeclared-site`)
SAFE_REPLACE = "sqlfluff.core.linter.linted_file:LintedFile._safe_create_replace_file"
PERSIST_TIMING = "sqlfluff.core.linter.linting_result:LintingResult.persist_timing_records"
DUMP_PAYLOAD = CLI + "dump_file_payload"
FILE_OUTPUT = "sqlfluff.cli.outputstream:FileOutput.__init__"
DIFF_QUALITY = "sqlfluff.diff_quality_plugin:SQLFluffViolationReporter._run_sqlfluff"
DECLARED_SITES = {
    SAFE_REPLACE: {"tempfile.NamedTemporaryFile", "os.chmod", "shutil.move", "os.remove"},   # the fix path
    PERSIST_TIMING: {"open[mode='w']"},                                                     # --persist-timing
    DUMP_PAYLOAD: {"open[mode='w']"},                                                       # --write-output
    FILE_OUTPUT: {"open[mode='w']"},                                                        # --write-output / os.devnull
    DIFF_QUALITY: {"tempfile.NamedTemporaryFile", "diff_cover.command_runner.execute", "os.remove"},  # diff-quality temp json
}
# the least fixpoint writes_fs over the call graph, exactly
DECLARED_WRITES_FS = set(DECLARED_SITES) | {
    "sqlfluff.core.linter.linted_file:LintedFile.persist_tree",
    "sqlfluff.core.linter.linted_dir:LintedDir.persist_changes",
    "sqlfluff.core.linter.linting_result:LintingResult.persist_changes",
    L + "lint_paths", L + "lint_path",                       # only through the `if apply_fixes:` edge (see guard clauses)
    "sqlfluff.cli.outputstream:make_output_stream",
    CLI + "get_linter_and_formatter", CLI + "lint", CLI + "parse", CLI + "render", CLI + "fix", CLI + "cli_format",
    CLI + "_paths_fix", CLI + "do_fixes", CLI + "dialects", CLI + "rules", CLI + "version",
    "sqlfluff.diff_quality_plugin:SQLFluffViolationReporter.violations_batch",
    "sqlfluff.utils.testing.rules:assert_rule_raises_violations_in_file",
}
# (b) entry points of the lint / parse / render paths -> primitive-site functions they may reach
NONE = frozenset()
ENTRY_POINTS = {
    L + "lint_string": NONE, L + "lint_string_wrapped": NONE, L + "lint_paths": NONE, L + "lint_path": NONE,
    L + "parse_string": NONE, L + "parse_path": NONE, L + "parse_rendered": NONE,
    L + "render_string": NONE, L + "render_file": NONE, L + "load_raw_file_and_config": NONE,
    L + "lint_fix_parsed": NONE, L + "lint_parsed": NONE, L + "lint_rendered": NONE, L + "lint": NONE, L + "fix": NONE,
    L + "get_rulepack": NONE, L + "__init__": NONE,
    R + "BaseRunner.run": NONE, R + "SequentialRunner.run": NONE, R + "ParallelRunner.run": NONE,
    R + "ParallelRunner._apply": NONE, R + "BaseRunner.iter_partials": NONE, R + "ParallelRunner.iter_partials": NONE,
    R + "BaseRunner.iter_rendered": NONE, R + "get_runner": NONE,
    "sqlfluff.api.simple:lint": NONE, "sqlfluff.api.simple:parse": NONE, "sqlfluff.api.simple:fix": NONE,
    "sqlfluff.core.config.fluffconfig:FluffConfig.from_path": NONE,
    "sqlfluff.core.config.fluffconfig:FluffConfig.make_child_from_path": NONE,
    "sqlfluff.core.linter.discovery:paths_from_path": NONE,
    # CLI: exactly the explicit output options
    CLI + "lint": frozenset({FILE_OUTPUT, DUMP_PAYLOAD, PERSIST_TIMING}),     # --write-output, --persist-timing
    CLI + "parse": frozenset({FILE_OUTPUT, DUMP_PAYLOAD}),                    # --write-output
    CLI + "render": frozenset({FILE_OUTPUT}),                                 # make_output_stream(c, None, None)
}
# the guard: Linter.lint_paths may reach a writes_fs function only under `if apply_fixes:`; who may pass apply_fixes
GUARD_FUNC, GUARD_PARAM, GUARD_PARAM_INDEX = L + "lint_paths", "apply_fixes", 5
APPLY_FIXES_CALLERS = {CLI + "_paths_fix"}
# dunder methods / properties allowed to be writes_fs (implicit calls are covered by this clause, not by edges)
IMPLICIT_ALLOWED = {FILE_OUTPUT}
# dynamic code: (function, what) sites that exist today
DYNAMIC_DECLARED = {
    ("sqlfluff.core.dialects:load_raw_dialect", "importlib.import_module"):
        "imports sqlfluff.dialects.<name> for a name looked up in the constant table dialect_readout",
    ("sqlfluff.core.rules.loader:get_rules_from_path", "importlib.import_module"):
        "imports the rule modules found by globbing the sqlfluff/rules directory (in-package code, analysed here)",
    ("sqlfluff.core.templaters.jinja:JinjaTemplater._extract_libraries_from_config", "importlib.util.module_from_spec"):
        "loads the user's jinja `library_path` python modules: user code, out of scope",
    ("sqlfluff.core.templaters.jinja:JinjaTemplater._extract_libraries_from_config", "<loader>.exec_module"):
        "executes the user's jinja `library_path` python modules: user code, out of scope",
}
# modules whose every open() must be read-only (config loading, encoding detection, ignore files, templaters)
READ_ONLY_MODULE_PREFIXES = ("sqlfluff.core.config", "sqlfluff.core.helpers", "sqlfluff.core.linter.discovery",
                             "sqlfluff.core.templaters", "sqlfluff.core.parser", "sqlfluff.core.rules", "sqlfluff.rules",
                             "sqlfluff.dialects", "sqlfluff.utils.reflow", "sqlfluff.utils.analysis",
                             "sqlfluff.utils.functional", "sqlfluff.core.plugin", "sqlfluff.api")
CONFIG_OPEN_SITES = {"sqlfluff.core.config.file:_load_raw_file_as_dict", "sqlfluff.core.config.toml:load_toml_file_config"}
# the call graph must not be vacuous: these must be reachable from the entry point
LANDMARKS = {
    L + "lint_string": ["sqlfluff.core.templaters.jinja:JinjaTemplater.process", "sqlfluff.core.templaters.base:RawTemplater.process",
                        "sqlfluff.core.templaters.python:PythonTemplater.process",
                        "sqlfluff.core.templaters.placeholder:PlaceholderTemplater.process",
                        "sqlfluff.core.parser.lexer:PyLexer.lex", "sqlfluff.core.parser.parser:Parser.parse",
                        "sqlfluff.core.rules.base:BaseRule.crawl", "sqlfluff.rules.layout.LT01:Rule_LT01._eval",
                        "sqlfluff.rules.aliasing.AL01:Rule_AL01._eval", "sqlfluff.core.plugin.lib:get_rules",
                        "sqlfluff.rules.layout:get_rules", "sqlfluff.core.linter.fix:apply_fixes"],
    L + "lint_paths": [L + "load_raw_file_and_config", L + "render_file", L + "lint_rendered", R + "SequentialRunner.run",
                       R + "ParallelRunner.run", R + "ParallelRunner._apply", "sqlfluff.core.linter.discovery:paths_from_path",
                       "sqlfluff.core.config.file:load_config_file_as_dict", "sqlfluff.core.config.file:_load_raw_file_as_dict",
                       "sqlfluff.core.config.toml:load_toml_file_config", "sqlfluff.core.helpers.file:get_encoding",
                       "sqlfluff.core.templaters.jinja:JinjaTemplater.process", "sqlfluff.rules.layout.LT01:Rule_LT01._eval",
                       "sqlfluff.core.linter.linted_dir:LintedDir.add"],
    L + "parse_string": ["sqlfluff.core.templaters.jinja:JinjaTemplater.process", "sqlfluff.core.parser.lexer:PyLexer.lex",
                         "sqlfluff.core.parser.parser:Parser.parse"],
    L + "render_string": ["sqlfluff.core.templaters.jinja:JinjaTemplater.process",
                          "sqlfluff.core.templaters.jinja:JinjaTemplater._extract_macros_from_path"],
    CLI + "lint": [L + "lint_paths", L + "lint_string_wrapped", DUMP_PAYLOAD, PERSIST_TIMING, FILE_OUTPUT],
    CLI + "parse": [L + "parse_path", L + "parse_string", DUMP_PAYLOAD],
    CLI + "render": [L + "load_raw_file_and_config", L + "render_string"],
}

_CACHE = {}


def _pkgdir():
    import sqlfluff
    return os.path.dirname(os.path.abspath(sqlfluff.__file__))


def _index():
    if "ix" not in _CACHE:
        t0 = time.time()
        _CACHE["ix"] = effects.Index(_pkgdir(), "sqlfluff")
        _CACHE["ix_time"] = time.time() - t0
    return _CACHE["ix"]


# ------------------------------------------------------------------------------------------------ static clauses
class Clauses:
    CAP = 4

    def __init__(self):
        self.n = 0
        self.ok = 0
        self.failed = []
        self.undecided = []
        self.samples = []

    def clause(self, cid, failures, stale=None, sample=None):
        """one obligation; `failures` = list of (suffix, function, detail) ; `stale` = list of reasons"""
        self.n += 1
        name = f"{PROP}/effects/{cid}"
        if len(failures) > self.CAP:            # keep the report readable: the first CAP-1 in full, the rest in one record
            rest = failures[self.CAP - 1:]
            failures = failures[: self.CAP - 1] + [("and-%d-more" % len(rest), rest[0][1],
                                                    {"further failures of this clause": [r[0] for r in rest][:200]})]
        if failures:
            for suffix, fn, detail in failures:
                nm = name + (f"[{suffix}]" if suffix else "")
                self.failed.append({"name": nm, "id": nm, "kind": "effect", "status": "failed", "function": fn,
                                    "detail": detail, "reproduced": False, "backend": "syntactic effect analysis"})
        elif stale:
            self.undecided.append({"function": name, "obligation": name, "reason": ["stale-declaration"] + list(stale)})
        else:
            self.ok += 1
            if sample is not None:
                self.samples.append(dict({"obligation": name, "backend": "syntactic effect analysis"}, **sample))


def _site(ix, f, p):
    return f"{ix.relfile(f.file)}:{p['line']}  {p['text']}"


def _guarded_by(site, param):
    return any(g["branch"] == "if" and param in g["conjuncts"] for g in site["guards"])


def _param_info(fnode, name):
    """-> (is parameter, index among positional params excluding self, default is constant False, rebound in body)"""
    a = fnode.args
    pos = [x.arg for x in a.posonlyargs + a.args]
    is_param = name in pos or name in [x.arg for x in a.kwonlyargs]
    idx = pos.index(name) - 1 if name in pos else None
    default_false = False
    if name in pos:
        d = a.defaults
        off = len(pos) - len(d)
        i = pos.index(name) - off
        if 0 <= i < len(d):
            default_false = isinstance(d[i], ast.Constant) and d[i].value is False
    rebound = any(isinstance(n, ast.Name) and n.id == name and isinstance(n.ctx, (ast.Store, ast.Del))
                  for s in fnode.body for n in ast.walk(s))
    return is_param, idx, default_false, rebound


def static_clauses():
    ix = _index()
    C = Clauses()
    funcs = ix.funcs
    if ix.parse_errors:
        C.n += 1
        C.undecided.append({"function": "index", "obligation": f"{PROP}/effects/all-modules-parse", "reason": ix.parse_errors[:5]})
    W = ix.writes_fs()
    site_funcs = {k: f for k, f in funcs.items() if f.prims}

    def prim_chain(k, w=W):
        out = [k]
        while w.get(out[-1]) not in (None, "<prim>"):
            out.append(w[out[-1]])
        leaf = funcs[out[-1]]
        return out, [_site(ix, leaf, p) for p in leaf.prims]

    # ---- (a) primitive sites: exact declared set
    for k, want in sorted(DECLARED_SITES.items()):
        f = funcs.get(k)
        got = {p["prim"] for p in f.prims} if f else set()
        fails, stale = [], []
        if f is None:
            stale.append(f"declared write site {k} no longer exists")
        else:
            for p in f.prims:
                if p["prim"] not in want:
                    fails.append((p["prim"], k, {"new primitive write in a declared writer": _site(ix, f, p), "declared": sorted(want)}))
            if want - got:
                stale.append(f"{k}: declared primitives {sorted(want - got)} not found")
        C.clause(f"primitive-sites/{k}", fails, stale, {"primitives": sorted(got), "sites": [_site(ix, f, p) for p in f.prims] if f else []})
    fails = []
    for k, f in sorted(site_funcs.items()):
        if k not in DECLARED_SITES:
            for p in f.prims:
                fails.append((f"{k}@{p['prim']}", k, {"undeclared primitive write site": _site(ix, f, p), "primitive": p["prim"],
                                                      "enclosing-guards": [g["branch"] + " " + g["test"] for g in p["guards"]],
                                                      "declared sites": sorted(DECLARED_SITES)}))
    C.clause("primitive-sites/no-undeclared-site", fails, None,
             {"functions_scanned": len(funcs), "modules": ix.files, "functions_with_primitive_write": sorted(site_funcs)})

    # ---- writes_fs least fixpoint: exact declared set
    new = sorted(set(W) - DECLARED_WRITES_FS)
    gone = sorted(DECLARED_WRITES_FS - set(W))
    fails = []
    if new:
        det = {"functions that newly may write the file system": new[:60], "count": len(new), "witness chains": {}}
        for k in new[:8]:
            ch, sites = prim_chain(k)
            det["witness chains"][k] = {"calls": ch, "primitive sites": sites}
        fails.append(("", new[0], det))
    C.clause("writes_fs-set-exact", fails, [f"declared writes_fs member {k} is no longer writes_fs" for k in gone],
             {"writes_fs": sorted(W)})

    # ---- guard: lint_paths reaches writers only under `if apply_fixes:`
    cut = set()
    g = funcs.get(GUARD_FUNC)
    fails, stale = [], []
    if g is None:
        stale.append(f"{GUARD_FUNC} not found")
    else:
        is_param, idx, dflt_false, rebound = _param_info(g.node, GUARD_PARAM)
        if not is_param:
            stale.append(f"{GUARD_PARAM} is not a parameter of lint_paths")
        else:
            if not dflt_false:
                fails.append(("default", GUARD_FUNC, {"problem": f"default of `{GUARD_PARAM}` is not the constant False"}))
            if rebound:
                fails.append(("rebound", GUARD_FUNC, {"problem": f"`{GUARD_PARAM}` is assigned inside lint_paths"}))
            if idx != GUARD_PARAM_INDEX:
                stale.append(f"position of {GUARD_PARAM} changed to {idx} (declared {GUARD_PARAM_INDEX})")
        guarded = []
        for callee, e in g.edges.items():
            if callee not in W or callee == GUARD_FUNC:
                continue
            bad = [s for s in e["sites"] if not _guarded_by(s, GUARD_PARAM)]
            if bad:
                ch, sites = prim_chain(callee)
                for s in bad:
                    fails.append((callee, GUARD_FUNC, {
                        "unguarded call edge into a writer": f"{ix.relfile(g.file)}:{s['line']}  lint_paths -> {callee}  [{s['how']}]",
                        "enclosing ifs": [x["branch"] + " " + x["test"] for x in s["guards"]],
                        "required": f"inside the body of `if {GUARD_PARAM}` (or `if {GUARD_PARAM} and ...`)",
                        "call chain": [GUARD_FUNC] + ch, "primitive sites": sites}))
            else:
                guarded.append(callee)
                cut.add((GUARD_FUNC, callee))
        if not fails and not guarded:
            stale.append("lint_paths has no guarded write edge any more")
    C.clause("guard/lint_paths-writes-only-under-apply_fixes", fails, stale,
             {"guarded edges (cut for the read-only analysis)": sorted(c[1] for c in cut)})

    # who passes apply_fixes
    fails, passing = [], []
    for f in funcs.values():
        for call in f.calls.get("lint_paths", []):
            kws = [k.arg for k in call.keywords]
            passes = (GUARD_PARAM in kws or None in kws or len(call.args) > GUARD_PARAM_INDEX
                      or any(isinstance(x, ast.Starred) for x in call.args))
            const_false = any(k.arg == GUARD_PARAM and isinstance(k.value, ast.Constant) and k.value.value is False for k in call.keywords)
            if passes and not const_false:
                passing.append(f.key)
                if f.key not in APPLY_FIXES_CALLERS:
                    fails.append((f.key, f.key, {"call passes apply_fixes (or *args/**kwargs) to lint_paths":
                                                 f"{ix.relfile(f.file)}:{call.lineno}  {ast.unparse(call)[:160]}",
                                                 "allowed callers": sorted(APPLY_FIXES_CALLERS)}))
    C.clause("guard/apply_fixes-passed-only-by-the-fix-commands", fails,
             None if passing else ["no caller passes apply_fixes any more"], {"callers passing apply_fixes": sorted(set(passing))})

    # ---- (b) entry points
    Wcut = ix.writes_fs(cut)
    reach_cache = {}
    for entry, allowed in sorted(ENTRY_POINTS.items()):
        short = entry.replace("sqlfluff.", "")
        if entry not in funcs:
            C.clause(f"entry/{short}", [], [f"entry point {entry} not found"])
            continue
        pred = ix.reach(entry, cut)
        reach_cache[entry] = pred
        hit = sorted(k for k in pred if k in site_funcs)
        fails = []
        for k in hit:
            if k in allowed:
                continue
            f = funcs[k]
            fails.append((k, entry, {"entry point": entry, "reaches primitive write site(s)": [_site(ix, f, p) for p in f.prims],
                                     "in function": k, "allowed for this entry": sorted(allowed),
                                     "call chain": ix.chain(pred, k),
                                     "note": "edges lint_paths -> writer under `if apply_fixes:` are cut (apply_fixes defaults to False and only the fix commands pass it)"}))
        # callers that pass apply_fixes must not be reachable either
        for k in APPLY_FIXES_CALLERS:
            if k in pred:
                fails.append((k, entry, {"entry point": entry, "reaches a caller that passes apply_fixes": k, "call chain": ix.chain(pred, k)}))
        stale = []
        for lm in LANDMARKS.get(entry, []):
            if lm not in pred:
                stale.append(f"call graph vacuity: landmark {lm} is not reachable from {entry}")
        C.clause(f"entry/{short}", fails, stale,
                 {"reachable_functions": len(pred), "reachable_primitive_sites": hit,
                  "landmarks_reached": len(LANDMARKS.get(entry, []))})

    # every rule _eval and every templater process is on the lint path (not vacuous) and none is writes_fs
    pred = reach_cache.get(L + "lint_string", {})
    evals = [k for k in funcs if k.endswith("._eval") and k.startswith("sqlfluff.rules.")]
    procs = [k for k in funcs if k.startswith("sqlfluff.core.templaters.") and k.endswith(".process")]
    stale = [f"{k} not reachable from lint_string" for k in evals + procs if k not in pred]
    if len(evals) < 50 or len(procs) < 4:
        stale.append(f"only {len(evals)} rule _eval / {len(procs)} templater process functions found")
    fails = [(k, k, {"rule/templater body may write": prim_chain(k, Wcut)}) for k in evals + procs if k in Wcut]
    C.clause("lint-path/rules-and-templaters-reached-and-write-free", fails, stale,
             {"rule _eval bodies": len(evals), "templater process bodies": len(procs)})

    # ---- (c) opens
    lr = funcs.get(L + "load_raw_file_and_config")
    fails, stale = [], []
    if lr is None:
        stale.append("load_raw_file_and_config not found")
    else:
        first = (lr.node.args.posonlyargs + lr.node.args.args)[0].arg
        if len(lr.opens) != 1:
            stale.append(f"expected exactly one open() in load_raw_file_and_config, found {len(lr.opens)}")
        for o in lr.opens:
            if o["write"]:
                fails.append((f"open@{o['mode']}", lr.key, {"open of the lint target is not read-only": f"{ix.relfile(lr.file)}:{o['line']} open({o['target']}, mode={o['mode']})"}))
        if lr.opens and not any(o["target"] == first and not o["write"] for o in lr.opens):
            stale.append(f"no read-mode open of the parameter `{first}`")
    C.clause("open/lint-target-opened-read-only", fails, stale, {"opens": lr.opens if lr else []})

    fails, n_sites, seen_cfg = [], 0, set()
    for f in funcs.values():
        if not f.module.startswith(READ_ONLY_MODULE_PREFIXES):
            continue
        for o in f.opens:
            n_sites += 1
            if f.module.startswith("sqlfluff.core.config"):
                seen_cfg.add(f.key)
            if o["write"]:
                fails.append((f"{f.key}@{o['mode']}", f.key, {"write-mode open in a read-only module": f"{ix.relfile(f.file)}:{o['line']} {o['callee']}({o['target']}, mode={o['mode']})"}))
        if f.prims:
            fails.append((f.key, f.key, {"function of a read-only module contains a primitive write": [_site(ix, f, p) for p in f.prims]}))
    stale = [f"declared config open site {k} not found" for k in sorted(CONFIG_OPEN_SITES - seen_cfg)]
    C.clause("open/config-and-core-modules-open-read-only", fails, stale,
             {"open sites checked": n_sites, "module prefixes": list(READ_ONLY_MODULE_PREFIXES), "config open sites": sorted(seen_cfg)})

    # ---- implicit calls: no dunder method / property writes
    fails = []
    for k in sorted(W):
        f = funcs[k]
        if (f.is_property or (f.cls and f.name.startswith("__") and f.name.endswith("__"))) and k not in IMPLICIT_ALLOWED:
            ch, sites = prim_chain(k)
            fails.append((k, k, {"implicitly callable function may write": ch, "primitive sites": sites}))
    C.clause("implicit/no-dunder-or-property-writes", fails, None,
             {"dunder methods": sum(1 for f in funcs.values() if f.cls and f.name.startswith("__")),
              "properties": sum(1 for f in funcs.values() if f.is_property), "allowed": sorted(IMPLICIT_ALLOWED)})

    # ---- import-time code
    fails = []
    for k in sorted(W):
        if funcs[k].kind == "module":
            ch, sites = prim_chain(k)
            fails.append((k, k, {"import-time code may write": ch, "primitive sites": sites}))
    C.clause("import-time-code-write-free", fails, None, {"module bodies": sum(1 for f in funcs.values() if f.kind == "module")})

    # ---- dynamic code
    found = {}
    for f in funcs.values():
        for d in f.dynamic:
            if d["what"] in ("compile",) and f.module.startswith("sqlfluff"):
                # re.compile is resolved as external `re.compile`; a bare compile() would be the builtin
                pass
            found[(f.key, d["what"])] = f"{ix.relfile(f.file)}:{d['line']}  {d['text']}"
    fails = [(f"{k[0]}@{k[1]}", k[0], {"undeclared dynamic code site (exec/eval/import by name)": v}) for k, v in sorted(found.items())
             if k not in DYNAMIC_DECLARED]
    stale = [f"declared dynamic-code site {k} not found" for k in DYNAMIC_DECLARED if k not in found]
    C.clause("dynamic-code-sites-declared", fails, stale, {"sites": sorted(found.values())})

    # ---- plugin hooks resolve inside the tree
    stale, nh = [], 0
    for f in funcs.values():
        for h in f.hookcalls:
            nh += 1
            if not h["impls"]:
                stale.append(f"hook call {h['hook']} in {f.key} has no in-tree @hookimpl")
    C.clause("plugin-hooks-resolve-to-in-tree-hookimpls", [], stale if nh else ["no hook call found"],
             {"hook calls": nh, "hookimpl functions": sum(len(v) for v in ix.hookimpls.values())})

    # ---- CLI: what is written is the explicit output option
    _cli_output_clauses(ix, C)
    _CACHE["static_meta"] = {"writes_fs": len(W), "cut": sorted(cut)}
    return C


def _arg(call, idx, kw):
    if len(call.args) > idx:
        return call.args[idx]
    for k in call.keywords:
        if k.arg == kw:
            return k.value
    return None


def _is_name(e, name):
    return isinstance(e, ast.Name) and e.id == name


def _is_none(e):
    return e is None or (isinstance(e, ast.Constant) and e.value is None)


def _cli_output_clauses(ix, C):
    funcs = ix.funcs
    for cmd, opt_param in (("lint", "write_output"), ("parse", "write_output"), ("render", None)):
        f = funcs.get(CLI + cmd)
        fails, stale = [], []
        if f is None:
            C.clause(f"cli/{cmd}/writes-only-to-the-output-options", [], [f"command {cmd} not found"])
            continue
        params = {a.arg for a in f.node.args.posonlyargs + f.node.args.args + f.node.args.kwonlyargs}
        if opt_param and opt_param not in params:
            stale.append(f"{opt_param} is not a parameter of {cmd}")
        n = 0
        for call in f.calls.get("dump_file_payload", []):
            n += 1
            a0 = _arg(call, 0, "filename")
            if not (opt_param and _is_name(a0, opt_param)):
                fails.append(("dump_file_payload", f.key, {"dump_file_payload target is not the --write-output option":
                                                           f"{ix.relfile(f.file)}:{call.lineno}  {ast.unparse(call)[:120]}"}))
        for call in f.calls.get("make_output_stream", []):
            n += 1
            a2 = _arg(call, 2, "output_path")
            if not (_is_none(a2) or (opt_param and _is_name(a2, opt_param))):
                fails.append(("make_output_stream", f.key, {"make_output_stream output_path is not the --write-output option / None":
                                                            f"{ix.relfile(f.file)}:{call.lineno}  {ast.unparse(call)[:120]}"}))
        for call in f.calls.get("persist_timing_records", []):
            n += 1
            a0 = _arg(call, 0, "filename")
            site = None
            for e in f.edges.values():
                for s in e["sites"]:
                    if s["line"] == call.lineno:
                        site = s
            ok = _is_name(a0, "persist_timing") and "persist_timing" in params and site is not None and _guarded_by(site, "persist_timing")
            if not ok:
                fails.append(("persist_timing_records", f.key, {"persist_timing_records not guarded by / not targeting --persist-timing":
                                                                f"{ix.relfile(f.file)}:{call.lineno}  {ast.unparse(call)[:120]}"}))
        if n == 0:
            stale.append(f"no output call found in {cmd}")
        C.clause(f"cli/{cmd}/writes-only-to-the-output-options", fails, stale, {"output calls checked": n})
    # the three output helpers write to their path parameter only
    for key, param, what in ((DUMP_PAYLOAD, "filename", "open"), (PERSIST_TIMING, "filename", "open"), (FILE_OUTPUT, "output_path", "open")):
        f = funcs.get(key)
        fails, stale = [], []
        if f is None:
            stale.append(f"{key} not found")
        else:
            wr = [o for o in f.opens if o["write"]]
            if not wr:
                stale.append("no write-mode open found")
            for o in wr:
                if o["target"] != param:
                    fails.append((key, key, {"output helper opens something other than its path parameter":
                                             f"{ix.relfile(f.file)}:{o['line']} open({o['target']}, {o['mode']})"}))
        C.clause(f"cli/output-helper/{key.split(':')[1]}-writes-its-path-parameter", fails, stale, {"parameter": param})
    f = funcs.get("sqlfluff.cli.outputstream:make_output_stream")
    fails, stale = [], []
    if f is None:
        stale.append("make_output_stream not found")
    else:
        calls = f.calls.get("FileOutput", [])
        if not calls:
            stale.append("no FileOutput(...) in make_output_stream")
        for call in calls:
            a1 = _arg(call, 1, "output_path")
            txt = ast.unparse(a1) if a1 is not None else None
            if txt not in ("output_path", "os.devnull"):
                fails.append(("FileOutput", f.key, {"FileOutput target is neither output_path nor os.devnull":
                                                    f"{ix.relfile(f.file)}:{call.lineno}  {ast.unparse(call)}"}))
    C.clause("cli/make_output_stream-targets-output_path-or-devnull", fails, stale, {})


# ------------------------------------------------------------------------------------------------ dynamic cross-check
_AUDIT = {"on": False, "installed": False, "events": [], "ignored": 0, "seen": 0}
_WRITE_FLAGS = os.O_WRONLY | os.O_RDWR | os.O_APPEND | os.O_CREAT | os.O_TRUNC
_EVENTS = {"os.remove", "os.rename", "os.chmod", "os.chown", "os.mkdir", "os.rmdir", "os.truncate", "os.utime", "os.link",
           "os.symlink", "os.system", "os.exec", "os.posix_spawn", "os.spawn", "os.startfile", "subprocess.Popen",
           "tempfile.mkstemp", "tempfile.mkdtemp", "sqlite3.connect", "os.setxattr", "os.removexattr"}
AUDIT_EVENTS_TEXT = ("open with a writing mode/flags (w,a,x,+ / O_WRONLY|O_RDWR|O_APPEND|O_CREAT|O_TRUNC), " + ", ".join(sorted(_EVENTS))
                     + ", shutil.* ; ignored: paths in __pycache__ / *.pyc, os.devnull, integer file descriptors")


def _hook(event, args):
    if not _AUDIT["on"]:
        return
    try:
        path = None
        if event == "open":
            path, mode, flags = (list(args) + [None, None, None])[:3]
            _AUDIT["seen"] += 1
            w = (isinstance(mode, str) and any(c in mode for c in "wax+")) or (mode is None and isinstance(flags, int) and flags & _WRITE_FLAGS)
            if isinstance(flags, int) and flags & _WRITE_FLAGS:
                w = True
            if not w:
                return
        elif event in _EVENTS or event.startswith("shutil."):
            path = args[0] if args else None
        else:
            return
        if isinstance(path, bytes):
            path = os.fsdecode(path)
        p = str(path)
        if isinstance(path, int) or "__pycache__" in p or p.endswith(".pyc") or p == os.devnull:
            _AUDIT["ignored"] += 1
            return
        frames, fr = [], sys._getframe(1)
        pkg = _AUDIT.get("pkgdir", "")
        while fr is not None and len(frames) < 12:
            fn = fr.f_code.co_filename
            if fn.startswith(pkg):
                frames.append((os.path.relpath(fn, os.path.dirname(pkg)), fr.f_lineno, fr.f_code.co_name))
            fr = fr.f_back
        _AUDIT["events"].append({"event": event, "path": p, "args": repr(args)[:160], "sqlfluff_frames": frames})
    except Exception:       # never let the tracer change the behaviour of the traced code
        _AUDIT["ignored"] += 1


def _snapshot(root):
    out = {}
    for d, dirs, files in os.walk(root):
        dirs.sort()
        for n in dirs:
            p = os.path.join(d, n)
            out[os.path.relpath(p, root) + "/"] = ("dir", os.stat(p).st_mode)
        for n in sorted(files):
            p = os.path.join(d, n)
            st = os.stat(p)
            with open(p, "rb") as fh:
                h = hashlib.sha256(fh.read()).hexdigest()
            out[os.path.relpath(p, root)] = (h, st.st_mode, st.st_mtime_ns, st.st_size)
    return out


JINJA_SQL = "{% set cols = ['a', 'b'] %}\nSELECT {{ cols | join(', ') }},{{ my_macro('c') }} from tbl  WHERE x=1\n"
RAW_SQL = "select a,b from tbl where  a = 1\nUNION\nselect 1 , 2\n"
STRINGS = [
    ("ansi", "raw", "SELECT 1\n"),
    ("ansi", "raw", "select a,b from t where a=1 ;"),
    ("ansi", "jinja", "{% for c in ['x','y'] %}select {{ c }} from t;\n{% endfor %}"),
    ("ansi", "jinja", "SELECT {{ undefined_var }} , b FROM {{ ref('m') }}\n"),
    ("postgres", "raw", "SELECT a::int, b FROM t ORDER BY 1 desc\n"),
    ("tsql", "raw", "SELECT TOP 1 [a] FROM [dbo].[t]\n"),
    ("ansi", "placeholder", "SELECT a FROM t WHERE a = :val\n"),
    ("ansi", "python", "SELECT {foo} FROM t\n"),
    ("bigquery", "jinja", "select * from `p.d.t` where {% if true %} a = 1 {% else %} b = 2 {% endif %}\n"),
    ("ansi", "raw", "SELECT (a +\n"),                      # unparsable
]
MORE_STRINGS = [
    ("snowflake", "jinja", "select $1, {{ 'x' }} from @stage\n"), ("mysql", "raw", "select `a` from t limit 1\n"),
    ("sparksql", "raw", "select a from t lateral view explode(b) x as y\n"), ("duckdb", "raw", "select * exclude (a) from t\n"),
    ("ansi", "jinja", "{# c #}\n{% macro m(x) %}{{ x }}{% endmacro %}select {{ m('a') }}\n"), ("oracle", "raw", "select a from t where rownum < 2\n"),
    ("ansi", "raw", "\n\n   SELECT\ta  FROM  t\n\n\n"), ("ansi", "raw", ""), ("redshift", "raw", "select a from t limit 1\n"),
    ("clickhouse", "raw", "select a from t final\n"),
]


def _make_tree(root):
    os.makedirs(os.path.join(root, "jinja", "macros"))
    os.makedirs(os.path.join(root, "raw", "sub"))
    w = lambda rel, s: open(os.path.join(root, rel), "w", newline="").write(s)
    w(".sqlfluff", "[sqlfluff]\ndialect = ansi\n")
    w(".sqlfluffignore", "ignored.sql\n")
    w("ignored.sql", "selec nonsense\n")
    w("jinja/.sqlfluff", "[sqlfluff]\ntemplater = jinja\n\n[sqlfluff:templater:jinja]\nload_macros_from_path = macros\n\n[sqlfluff:templater:jinja:context]\nsomevar = 5\n")
    w("jinja/macros/m.sql", "{% macro my_macro(x) %}{{ x }}_m{% endmacro %}\n")
    w("jinja/a.sql", JINJA_SQL)
    w("raw/pyproject.toml", "[tool.sqlfluff.core]\nmax_line_length = 60\n")
    w("raw/b.sql", RAW_SQL)
    w("raw/sub/c.sql", "SELECT a\r\nFROM t\r\n")          # CRLF newlines must survive
    os.chmod(os.path.join(root, "raw", "b.sql"), 0o640)


def dynamic_trace(tier, seed):
    if "dyn" in _CACHE:
        return _CACHE["dyn"]
    t0 = time.time()
    import click.testing
    from sqlfluff.core import Linter, FluffConfig
    from sqlfluff.cli.commands import lint as cli_lint, parse as cli_parse, render as cli_render
    import sqlfluff.api.simple as simple
    if not _AUDIT["installed"]:
        _AUDIT["pkgdir"] = _pkgdir()
        sys.addaudithook(_hook)
        _AUDIT["installed"] = True
    top = tempfile.mkdtemp(prefix="c32_dyn_")
    inp, outdir, fixdir = os.path.join(top, "in"), os.path.join(top, "out"), os.path.join(top, "fixme")
    os.makedirs(inp), os.makedirs(outdir), os.makedirs(fixdir)
    _make_tree(inp)
    with open(os.path.join(fixdir, ".sqlfluff"), "w") as fh:
        fh.write("[sqlfluff]\ndialect = ansi\n")
    with open(os.path.join(fixdir, "f.sql"), "w") as fh:
        fh.write("select a  from t\n")
    cwd0 = os.getcwd()
    runs, failed, samples = [], [], []
    distinct = set()
    base = _snapshot(inp)

    def run(entry, label, thunk, allowed_prefix=(), nontrivial=lambda r: bool(r)):
        _AUDIT["events"], _AUDIT["seen"] = [], 0
        err, res = None, None
        _AUDIT["on"] = True
        try:
            res = thunk()
        except SystemExit as e:
            res = ("exit", e.code)
        except Exception:
            err = traceback.format_exc()[-600:]
        finally:
            _AUDIT["on"] = False
        events = list(_AUDIT["events"])
        after = _snapshot(inp)
        diff = sorted(k for k in set(base) | set(after) if base.get(k) != after.get(k))
        bad = [e for e in events if not any(e["path"].startswith(p) for p in allowed_prefix)]
        rec = {"entry": entry, "input": label, "write_events": len(events), "unexpected_write_events": len(bad),
               "open_events_seen": _AUDIT["seen"], "input_tree_changed": diff, "error": err}
        try:
            nt = err is None and nontrivial(res)
        except Exception:
            nt = False
        rec["nontrivial"] = bool(nt)
        runs.append(rec)
        if nt:
            distinct.add((entry, hashlib.sha256(label.encode()).hexdigest()))
        if len(samples) < 5 and nt:
            samples.append(dict(rec, result=str(res)[:120]))
        if diff:
            base.clear()
            base.update(after)      # re-baseline so that one write is reported once, by the run that did it
        if diff or bad:
            nm = f"{PROP}/dynamic/{entry}/input-tree-or-fs-written"
            prev = [f for f in failed if f["name"] == nm]
            if prev:                # same entry point, another input: one violation, all inputs listed
                prev[0]["detail"].setdefault("further failing inputs", []).append({"input": label, "changed": diff, "write events": bad[:2]})
                return res, events
            failed.append({"name": nm, "id": nm, "kind": "bounded-dynamic", "status": "failed", "function": entry, "reproduced": True,
                           "backend": "CPython audit hook + directory snapshot",
                           "detail": {"input": label, "changed entries of the input tree": diff, "write events": bad[:6],
                                      "how to rerun": f"./check {PROP} (dynamic cross-check, entry {entry})"}})
        return res, events          # a run that raised is trivial (crashes are C04's business), not a C32 violation

    try:
        os.chdir(inp)
        # tracer self-test: a deliberate write must be seen (otherwise the cross-check is vacuous)
        _AUDIT["events"] = []
        _AUDIT["on"] = True
        with open(os.path.join(outdir, "selftest"), "w") as fh:
            fh.write("x")
        os.remove(os.path.join(outdir, "selftest"))
        _AUDIT["on"] = False
        selftest = len(_AUDIT["events"])
        strings = STRINGS + (MORE_STRINGS if tier == "thorough" else [])
        for dialect, templater, sql in strings:
            def cfg(d=dialect, t=templater):
                return FluffConfig(configs={"core": {"dialect": d, "templater": t},
                                            "templater": {"placeholder": {"param_style": "colon", "val": "1"},
                                                          "python": {"context": {"foo": "a"}}}})
            lab = f"{dialect}/{templater}/{sql!r}"
            run("Linter.lint_string", lab, lambda: Linter(config=cfg()).lint_string(sql, fname="<string>"), nontrivial=lambda r: r.tree is not None or r.violations)
            run("Linter.lint_string(fix=True)", lab, lambda: Linter(config=cfg()).lint_string(sql, fname="<string>", fix=True), nontrivial=lambda r: r.tree is not None or r.violations)
            run("Linter.parse_string", lab, lambda: Linter(config=cfg()).parse_string(sql), nontrivial=lambda r: r.parsed_variants or r.violations())
            run("Linter.render_string", lab, lambda: Linter(config=cfg()).render_string(sql, "<string>", cfg(), "utf8"), nontrivial=lambda r: r.templated_variants or r.templater_violations)
            if templater in ("raw", "jinja"):
                run("api.simple.lint", lab, lambda: simple.lint(sql, dialect=dialect), nontrivial=lambda r: isinstance(r, list))
        nfiles = lambda r: sum(len(d.files) for d in r.paths) >= 3
        root_cfg = lambda: FluffConfig.from_path(inp)
        run("Linter.lint_paths", "tree", lambda: Linter(config=root_cfg()).lint_paths((inp,)), nontrivial=nfiles)
        run("Linter.lint_paths(fix=True)", "tree", lambda: Linter(config=root_cfg()).lint_paths((inp,), fix=True), nontrivial=nfiles)
        run("Linter.lint_path", "tree/jinja/a.sql", lambda: Linter(config=root_cfg()).lint_path(os.path.join(inp, "jinja", "a.sql")), nontrivial=lambda r: len(r.files) == 1)
        run("Linter.parse_path", "tree", lambda: list(Linter(config=root_cfg()).parse_path(inp)), nontrivial=lambda r: len(r) >= 3)
        for rel in ("jinja/a.sql", "raw/b.sql", "raw/sub/c.sql"):
            p = os.path.join(inp, rel)
            run("Linter.render_file", "tree/" + rel, lambda: Linter(config=root_cfg()).render_file(p, root_cfg()), nontrivial=lambda r: r.templated_variants)
            run("Linter.load_raw_file_and_config", "tree/" + rel, lambda: Linter.load_raw_file_and_config(p, root_cfg()), nontrivial=lambda r: r[0])
        cr = click.testing.CliRunner()
        ok = lambda r: r.exit_code in (0, 1) and r.output
        run("cli lint", "tree", lambda: cr.invoke(cli_lint, [inp]), nontrivial=ok)
        run("cli lint -f json", "tree", lambda: cr.invoke(cli_lint, [inp, "-f", "json"]), nontrivial=ok)
        run("cli parse", "tree/raw/b.sql", lambda: cr.invoke(cli_parse, [os.path.join(inp, "raw", "b.sql")]), nontrivial=ok)
        run("cli parse -f yaml", "tree/jinja/a.sql", lambda: cr.invoke(cli_parse, [os.path.join(inp, "jinja", "a.sql"), "-f", "yaml"]), nontrivial=ok)
        run("cli render", "tree/jinja/a.sql", lambda: cr.invoke(cli_render, [os.path.join(inp, "jinja", "a.sql")]), nontrivial=ok)
        # explicit output options: writes are allowed below the output directory only
        wo, pt = os.path.join(outdir, "o.json"), os.path.join(outdir, "t.csv")
        run("cli lint --write-output --persist-timing", "tree",
            lambda: cr.invoke(cli_lint, [inp, "-f", "json", "--write-output", wo, "--persist-timing", pt]),
            allowed_prefix=(outdir,), nontrivial=lambda r: os.path.getsize(wo) > 0 and os.path.getsize(pt) > 0)
        run("cli parse --write-output", "tree/raw/b.sql",
            lambda: cr.invoke(cli_parse, [os.path.join(inp, "raw", "b.sql"), "-f", "json", "--write-output", wo]),
            allowed_prefix=(outdir,), nontrivial=lambda r: os.path.getsize(wo) > 0)
        if tier == "thorough":
            run("Linter.lint_paths(processes=2)", "tree", lambda: Linter(config=root_cfg()).lint_paths((inp,), processes=2), nontrivial=nfiles)
        # positive control: the fix path must be SEEN writing (tracer and frame attribution are live)
        _, ev = run("control: lint_paths(fix=True, apply_fixes=True)", "fixme", lambda: Linter(config=FluffConfig.from_path(fixdir)).lint_paths((fixdir,), fix=True, apply_fixes=True),
                    allowed_prefix=(fixdir,), nontrivial=lambda r: open(os.path.join(fixdir, "f.sql")).read() == "select a from t\n")
        control_seen = any(fr[2] == "_safe_create_replace_file" for e in ev for fr in e["sqlfluff_frames"])
    finally:
        _AUDIT["on"] = False
        os.chdir(cwd0)
        shutil.rmtree(top, ignore_errors=True)
    if not selftest or not control_seen or not runs[-1]["nontrivial"]:
        nm = f"{PROP}/dynamic/tracer-liveness"
        failed.append({"name": nm, "id": nm, "kind": "bounded-dynamic", "status": "failed", "function": "tracer", "reproduced": True,
                       "detail": {"selftest_events": selftest, "fix path seen writing": control_seen, "control": runs[-1]}})
    out = {"name": "C32-dynamic-write-trace", "bound": f"{len(runs)} runs of the real entry points on {len(strings)} strings and a 6-file temp tree (tier {tier})",
           "rule": "each run = one real entry point on one input under sys.addaudithook; violation = any write-class audit event ("
                   + AUDIT_EVENTS_TEXT + ") outside the explicitly given output directory, or any change of the input tree's "
                   "names/sha256/mode/mtime_ns; a run is non-trivial when it finished without exception and produced a tree, "
                   "violations, rendered variants, >=3 linted files or CLI output; distinct = distinct (entry point, input)",
           "evaluations": len(runs), "distinct_nontrivial": len(distinct), "samples": samples,
           "tracer_selftest_events": selftest, "fix_path_control_seen_writing": control_seen,
           "trivial_runs": [r for r in runs if not r["nontrivial"]][:10], "wall_s": round(time.time() - t0, 2), "failed": failed}
    _CACHE["dyn"] = out
    return out


# ------------------------------------------------------------------------------------------------ runner interface
def effects_check(tier, seed):
    t0 = time.time()
    C = static_clauses()
    # cross-reference: a static failure whose site is also observed by the dynamic tracer is reproduced on real code
    if C.failed:
        try:
            dyn = dynamic_trace(tier, seed)
            seen = []
            for f in dyn["failed"]:
                for e in f.get("detail", {}).get("write events", []) or []:
                    for fr in e["sqlfluff_frames"][:1]:        # innermost package frame = the primitive site
                        seen.append((f"{fr[0]}:{fr[1]}", f["function"], f["detail"].get("input"), e["event"], e["path"]))
            for f in C.failed:
                blob = repr(f["detail"])
                for site, entry, inp, ev, path in seen:
                    if site + " " in blob or site + "'" in blob:
                        f["reproduced"] = True
                        f["detail"]["reproduced by the dynamic tracer"] = {"entry": entry, "input": inp, "event": ev, "path": path, "site": site}
                        break
        except Exception:
            pass
    ix = _index()
    return {"name": "C32-effects", "obligations": C.n, "discharged": C.ok, "failed": C.failed, "undecided": C.undecided,
            "samples": _pick(C.samples), "backend": "syntactic effect analysis",
            "trusted": ["pyvc.effects call-edge resolution (documented over-approximation, see explanation)",
                        "the primitive write list: " + effects.PRIMITIVE_LIST_TEXT,
                        f"python ast of {ix.files} modules / {len(ix.funcs)} functions / {len(ix.classes)} classes under {ix.pkgdir} (index built in {_CACHE.get('ix_time', 0):.1f}s, clauses in {time.time() - t0:.1f}s)"]}


def _pick(samples):
    """the runner keeps the first three: show one site clause, the guard, one entry point"""
    want = ("primitive-sites/no-undeclared-site", "guard/lint_paths", "entry/core.linter.linter:Linter.lint_paths",
            "open/lint-target", "entry/cli.commands:lint")
    out = [s for w in want for s in samples if w in s["obligation"]]
    return (out + [s for s in samples if s not in out])[:5]


def state_inventory(tier, seed):
    """EXTRA: inventory of process-lifetime state + shared values never written (contracts/c32_inventory.py)"""
    _inventory._CACHE["ix"] = _index()          # one parse of the package for both analyses
    return _inventory.state_inventory(tier, seed)


def histories(tier, seed):
    """BOUNDED: histories of operations vs one fresh process per operation (contracts/c32_history.py)"""
    return _history.histories(tier, seed)


EXTRA = [effects_check, state_inventory]
BOUNDED = [dynamic_trace, histories]
NATIVE_TRIES = {"quick": 300, "thorough": 5000}
RULE = ("see bounded_stand_ins[*].rule: [0] dynamic write trace (cross-check of the read-only half), [1] histories vs one fresh process per "
        "operation (stand-in for the repeatability half); the decided parts are the static effect / state clauses and the pyvc contracts")

EXPLANATION = (
    "Decided here: the READ-ONLY half of C32, by a syntactic effect system (pyvc/effects.py) over the real AST of every module "
    "under <src>/sqlfluff, re-parsed on every run. writes_fs(f) holds iff f's body contains a primitive file-system write "
    "(open with a non-read mode, Path.write_*/touch/unlink/rename/replace/mkdir/rmdir/chmod, os.remove/rename/replace/chmod/"
    "mkdir/..., shutil.*, tempfile.*, subprocess.*/os.system, os.open, pickle/json/yaml dump to a stream, sqlite3.connect; the "
    "exact list is in trusted_base) or a call edge to a writes_fs function (least fixpoint). Call edges over-approximate dynamic "
    "dispatch: bare names through local defs/imports/re-exports; Foo(...) to __init__/__new__/__post_init__ of the class "
    "family; self./cls./super()./Class. calls to every definition in the ancestors, descendants and the descendants' ancestors; "
    "module.func through imports; <x>.hook.h() to every in-tree @hookimpl h; an attribute call on any other receiver to EVERY "
    "method of that name in the package; a function/class/method mentioned as a value (callback, functools.partial, registry "
    "list) is charged to the mentioning function; decorators are called by the decorated function; nested defs/lambdas belong "
    "to the enclosing function; module-level code is a pseudo function. Operators, `with`, attribute access and other implicit "
    "calls are covered by the clause that no dunder method and no property is writes_fs except FileOutput.__init__. "
    "Clauses: (a) the functions containing a primitive write are exactly the 5 declared ones with exactly the declared "
    "primitives, and the writes_fs fixpoint is exactly the declared 24 functions; (b) from each of the lint/parse/render entry points "
    "(Linter.*, runners, api.simple, config loading, file discovery) no primitive write site is reachable, where the only "
    "edges cut are those from Linter.lint_paths that sit inside `if apply_fixes:` (apply_fixes is a parameter with default "
    "False, never re-bound, and only cli.commands:_paths_fix passes it, which is itself unreachable from every entry point); "
    "the CLI commands lint/parse/render reach exactly FileOutput.__init__/dump_file_payload/persist_timing_records, whose "
    "targets are syntactically the --write-output/--persist-timing option values (or os.devnull); (c) the only open() of the "
    "lint target (load_raw_file_and_config) and every open() in config loading, encoding detection, ignore-file discovery, "
    "templaters, parser, rules and dialect modules is read-mode. A failed clause names the site (file:line) and the call chain "
    "from the entry point; there is no failing *input* for a static effect violation unless the dynamic cross-check also "
    "observes the write. The bounded stand-in runs the real entry points on a temp tree and strings under sys.addaudithook "
    "and a directory snapshot: it is a cross-check of the analysis, not part of the decision.  REPEATABILITY half -- decided in "
    "parts, none of which is a proof of the whole-history property: (1) pyvc contracts on the two anchored mechanisms.  "
    "Linter.allowed_rule_ref_map: the FRAME the property needs (the reference map handed in -- the caller's RulePack map -- is not "
    "modified, whatever disable_noqa_except says) as two region contracts over every statement but the final return-comprehension, with "
    "local aliases of containers tracked by the engine (opts.track_aliases), plus two native_only (bounded) contracts: the same frame "
    "on the real function, and `result == allowed_map(content at entry, disable_noqa_except)` against an independent implementation.  "
    "BlockTracker.enter/exit/top (whole functions): exit undoes exactly one enter and leaves the memo alone; enter pushes the uuid of its "
    "slice, never changes or removes a memo entry and adds at most its own; top reads only; (native_only, assuming uuid4 does not repeat) "
    "enter keeps the memo injective.  (2) EXTRA obligations `C32/state/...` (syntactic, over the real AST): the inventory of every "
    "syntactic form of process-lifetime state is EXACT against a declared table in which each entry says why it cannot change a later "
    "lint; an undeclared item on the lint path is undecided-with-reason; `shared-values-never-written` follows every object that comes "
    "out of a functools cache or an undeclared run-time-written module-/class-level container through assignments, returns, arguments, "
    "constructor arguments and attributes and FAILS at a store / del / mutator call / self-writing method on it (call chain reported); "
    "`block-uuid-opaque`: a block uuid is only passed on, tested, compared for equality or used as a key; the package's one caching "
    "decorator returns a memo only under `== parse_context.uuid`.  (3) BOUNDED `C32-histories-vs-fresh-process`: see its rule.")

NOT_COVERED = [
    "the whole-history property itself is only checked on the bounded pool of contracts/c32_history.py (histories of 2-8 operations over "
    "22 strings and an 18-file tree, 6 configs); no proof that ARBITRARY histories give identical violations",
    "instance attributes of long-lived objects (Linter, root FluffConfig, templater and dialect/grammar objects, RuleSet) written during "
    "a lint are NOT inventoried syntactically -- only module-level, class-level, functools/cached_property/__dict__ state is; a leak "
    "through such an attribute is only visible to the history stand-in (mutant linter_config_shared_instead_of_copied is caught there)",
    "the taint analysis resolves calls and attributes by name (over-approximation) but stops at builtin-method names on receivers of "
    "unknown class, at private containers of shared objects stored in attributes, and at third-party callees (listed as trusted)",
    "the final statement of Linter.allowed_rule_ref_map (a dict comprehension) is outside the symbolic subset: covered by the two "
    "native_only contracts only",
    "dict/set iteration order and hash randomisation between processes: covered only as far as the reference processes (random hash "
    "seeds) agree with the workers on the pool; violations are compared as sorted lists",
    "the parallel runner (processes > 1) is not exercised by the histories (worker processes are forked per file; fork + tqdm lock hazard)",
    "parse-tree printing shows the first 6 hex digits of block uuids (`[Block: 'ab12cd']`): `sqlfluff parse` output is therefore not "
    "repeatable between processes; the property speaks of violations only",
    "writes performed inside third-party libraries (jinja2 bytecode cache, tqdm, click, pluggy entry-point loading, chardet, platformdirs) and inside out-of-tree plugins (dbt templater)",
    "user-supplied python executed by the jinja templater (library_path modules, macros calling python objects) and by the python templater's format context",
    "the fix/format commands (they write by design) and diff_quality_plugin (writes its own temp json)",
    "data-flow of path values: a declared writer being handed an input path (e.g. --write-output pointing at an input file) is the user's explicit request",
    "memory-only mutation of input STRINGS is impossible (immutable); of config objects handed in by the caller: only as far as the histories observe it",
]
ASSUMPTIONS = [
    "E1 no dynamic code on the lint path beyond the declared sites: exec/eval/compile/__import__/importlib.import_module/importlib.util are searched syntactically in every module; the 4 sites found (dialect import by name from a constant table, rule-module import from the in-tree rules directory, jinja library_path loading = user code) are listed in DYNAMIC_DECLARED and any new one fails the check; getattr(obj, <non-constant>)(...) and callables stored in containers are resolved only through the by-reference rule",
    "E2 third-party libraries (jinja2, click, pyyaml, pathspec, tqdm, platformdirs, chardet, regex, pluggy, colorama, tomllib, diff_cover) and the standard library outside the primitive list do not write to input files",
    "E3 plugins outside <src>/sqlfluff (entry-point plugins, dbt templater) are out of scope; pluggy hook calls are resolved to the in-tree @hookimpl functions only",
    "E4 writing through an already-open handle is attributed to the site that opened it; handles are not smuggled in from outside the package (sys.stdout/stderr excepted)",
    "E5 methods inherited from a class outside the package are effect free unless named in the primitive list; `self.m(...)` with m undefined in the class family is such a method or an instance attribute charged where the callable was mentioned",
    "E6 dynamic cross-check: CPython audit events are raised for every builtin open/os.* write primitive (PEP 578); child processes of the parallel runner are only covered by the directory snapshot",
    "R1 uuid.uuid4() never returns a value that is already in BlockTracker._map (122 random bits): needed for the injectivity of the block memo (BlockTracker.enter#c32-injective) and for the parse-context cache key",
    "R2 config files and the files of the jinja library/macro paths do not change while a process runs (the loader caches are keyed by path; C27-1)",
    "R3 state inventory: module-level and class-level state is written only through the syntactic forms listed in contracts/c32_inventory.py (store / del / mutator-named method / global re-binding / ContextVar.set / __dict__ / setattr with a non-constant name); writes through aliases of such objects held elsewhere, through C extensions, or through exec/eval (clause dynamic-code-sites-declared) are not seen",
    "R4 history stand-in: a subprocess started for one operation is a fresh process; HOME and XDG_CONFIG_HOME point to an empty directory for reference and worker processes alike; PYTHONHASHSEED is left random",
]
TRUSTED = ["CPython ast.parse / ast.unparse", "PEP 578 audit events (dynamic cross-check only)",
           "pyvc engine, opt-in local alias tracking (opts.track_aliases): `name = name` of a list/set/dict value makes both names one object; "
           "in-place updates reach every alias; used by the two allowed_rule_ref_map region contracts",
           "region contracts of Linter.allowed_rule_ref_map: `reference_map` is a dict str -> set of str, `disable_noqa_except` an optional str",
           "assumed contract fnmatch.filter (contracts/c32_state.py): it returns a new list of some of the names and does not touch its arguments"]

# ------------------------------------------------------------------------------------------------ must-fail mutants
_LR_OLD = """            raw_file = target_file.read()
        # Scan the raw file for config commands."""
_LR_NEW = """            raw_file = target_file.read()
        with open(fname, "w", encoding=encoding) as normalised_file:
            normalised_file.write(raw_file.replace("\\r\\n", "\\n"))
        # Scan the raw file for config commands."""
_JJ_OLD = """        if not config:  # pragma: no cover
            raise ValueError(
                "For the jinja templater, the `process()` method requires a config "
                "object."
            )

        # Fast path: a file with no Jinja markers renders to itself, so skip"""
_JJ_NEW = """        if not config:  # pragma: no cover
            raise ValueError(
                "For the jinja templater, the `process()` method requires a config "
                "object."
            )
        if os.path.exists(fname):
            from pathlib import Path
            Path(fname).with_suffix(".rendered").write_text(in_str)

        # Fast path: a file with no Jinja markers renders to itself, so skip"""
_LP_OLD = """                # If we're applying fixes, then do that here.
                if apply_fixes:"""
_LP_NEW = """                # If we're applying fixes, then do that here.
                if fix:
                    linted_file.persist_tree(suffix=fixed_file_suffix, formatter=self.formatter)
                if apply_fixes:"""
_LP2_OLD = """                if apply_fixes:
                    num_tmp_prs_errors = linted_file.num_violations("""
_LP2_NEW = """                if apply_fixes or fix:
                    num_tmp_prs_errors = linted_file.num_violations("""
MUTANTS = [
    ("load_raw_writes_back_normalised", "sqlfluff/core/linter/linter.py", _LR_OLD, _LR_NEW),
    ("jinja_render_cache_next_to_input", "sqlfluff/core/templaters/jinja.py", _JJ_OLD, _JJ_NEW),
    ("persist_tree_outside_apply_fixes_guard", "sqlfluff/core/linter/linter.py", _LP_OLD, _LP_NEW),
    ("guard_weakened_to_apply_fixes_or_fix", "sqlfluff/core/linter/linter.py", _LP2_OLD, _LP2_NEW),
    ("rule_eval_removes_file", "sqlfluff/rules/layout/LT12.py", "    def _eval(self, context: RuleContext) -> Optional[LintResult]:\n",
     "    def _eval(self, context: RuleContext) -> Optional[LintResult]:\n        import os\n        if os.path.exists(\"stale.sql.bak\"):\n            os.remove(\"stale.sql.bak\")\n"),
    ("config_loader_opens_rplus", "sqlfluff/core/config/file.py", 'with open(filepath, mode="r") as file:', 'with open(filepath, mode="r+") as file:'),
    ("lint_cmd_dumps_to_first_path", "sqlfluff/cli/commands.py", "        dump_file_payload(write_output, file_output)\n\n    if persist_timing:",
     "        dump_file_payload(write_output or paths[0] + \".lint.json\", file_output)\n\n    if persist_timing:"),
    ("linted_dir_add_touches_marker", "sqlfluff/core/linter/linted_dir.py", "    def add(self, file: LintedFile) -> None:\n",
     "    def add(self, file: LintedFile) -> None:\n        from pathlib import Path\n        Path(file.path + \".linted\").touch()\n"),
    # ---- repeatability half: state that outlives one lint (each a single textual edit)
    # (the shape of seeded change A) a functools cache hands every file of a directory the SAME, mutable, config object
    ("child_config_lru_cached_per_directory", "sqlfluff/core/linter/linter.py",
     """    @staticmethod
    def load_raw_file_and_config(
        fname: str, root_config: FluffConfig
    ) -> tuple[str, FluffConfig, str]:
        \"\"\"Load a raw file and the associated config.\"\"\"
        file_config = root_config.make_child_from_path(fname)
""",
     """    from functools import lru_cache as _lru_cache

    @staticmethod
    @_lru_cache(maxsize=256)
    def _child_config(root_config: FluffConfig, dirname: str) -> FluffConfig:
        return root_config.make_child_from_path(dirname)

    @staticmethod
    def load_raw_file_and_config(
        fname: str, root_config: FluffConfig
    ) -> tuple[str, FluffConfig, str]:
        \"\"\"Load a raw file and the associated config.\"\"\"
        file_config = Linter._child_config(root_config, os.path.dirname(os.path.abspath(fname)))
"""),
    # NOTE: the mutant `reference_map_memoised_on_the_class` (the shape of seeded change B: rule_reference_map memoised on the class and
    # handed out by reference) was retired: since /repo 01d856a allowed_rule_ref_map copies the map before extending it, a shared map
    # is no longer written, so that edit alone does not break the property any more (the state inventory still reports the new
    # process-lifetime cache as undeclared: exit 2, undecided).
    ("block_stack_not_popped", "sqlfluff/core/parser/lexer.py", "        uuid = self._stack.pop()\n", "        uuid = self._stack[-1]\n"),
    ("block_memo_overwritten_on_every_enter", "sqlfluff/core/parser/lexer.py", "        uuid = self._map.get(key, None)\n", "        uuid = None\n"),
    ("dedupe_buffer_kept_for_the_whole_process", "sqlfluff/core/linter/linted_file.py",
     "        new_violations = []\n        dedupe_buffer = set()\n",
     """        new_violations = []
        global _DEDUPE_BUFFER
        try:
            dedupe_buffer = _DEDUPE_BUFFER
        except NameError:
            dedupe_buffer = _DEDUPE_BUFFER = set()
"""),
    ("render_memoised_by_file_name", "sqlfluff/core/linter/linter.py",
     """    def render_string(
        self, in_str: str, fname: str, config: FluffConfig, encoding: str
    ) -> RenderedFile:
        \"\"\"Template the file.\"\"\"
""",
     """    _rendered: dict = {}

    def render_string(self, in_str: str, fname: str, config: FluffConfig, encoding: str) -> RenderedFile:
        \"\"\"Template the file (once per file name).\"\"\"
        if fname not in self._rendered:
            self._rendered[fname] = self._render_string(in_str, fname, config, encoding)
        return self._rendered[fname]

    def _render_string(
        self, in_str: str, fname: str, config: FluffConfig, encoding: str
    ) -> RenderedFile:
        \"\"\"Template the file.\"\"\"
"""),
    ("linter_config_shared_instead_of_copied", "sqlfluff/core/linter/linter.py",
     "        config = (config or self.config).copy()\n", "        config = config or self.config\n"),
    ("allowed_map_expansion_pops_entries", "sqlfluff/core/linter/linter.py",
     "                noqa_set |= output_map.get(x, set())\n", "                noqa_set |= output_map.pop(x, set())\n"),
    ("allowed_map_expansion_empties_matched_entries", "sqlfluff/core/linter/linter.py",
     "                noqa_set |= output_map.get(x, set())\n",
     "                noqa_set |= output_map.get(x, set())\n                output_map[x] = set()\n"),
    ("noqa_directives_in_a_mutable_default", "sqlfluff/core/rules/noqa.py",
     """        reference_map: dict[str, set[str]],
    ) -> tuple["IgnoreMask", list[SQLBaseError]]:
        \"\"\"Look for inline ignore comments and return NoQaDirectives.\"\"\"
        ignore_buff: list[NoQaDirective] = []
""",
     """        reference_map: dict[str, set[str]],
        ignore_buff: list[NoQaDirective] = [],
    ) -> tuple["IgnoreMask", list[SQLBaseError]]:
        \"\"\"Look for inline ignore comments and return NoQaDirectives.\"\"\"
"""),
    ("templater_context_memoised_on_the_class", "sqlfluff/core/templaters/base.py",
     """    def get_context(
        self,
        fname: Optional[str],
        config: Optional[FluffConfig],
    ) -> dict[str, Any]:
""",
     """    _ctx_memo: dict = {}

    def get_context(self, fname: Optional[str], config: Optional[FluffConfig]) -> dict[str, Any]:
        if self.name not in self._ctx_memo:
            self._ctx_memo[self.name] = self._get_context(fname, config)
        return self._ctx_memo[self.name]

    def _get_context(
        self,
        fname: Optional[str],
        config: Optional[FluffConfig],
    ) -> dict[str, Any]:
"""),
]
