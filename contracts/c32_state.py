"""C32 (repeatability half), part 1 -- pyvc contracts on the anchored mechanisms of shared mutable state.

Written from the property: "no state that outlives one lint may change what a later lint reports".

   sqlfluff.core.linter.linter: Linter.allowed_rule_ref_map
        #c32-frame-special-codes  pyvc region contract (early return + the three special codes): FRAME -- the map handed in is not
                                  modified.  FAILS on the current code (`output_map = reference_map; output_map[..] = ..`).
        #c32-frame-expansion      pyvc region contract (glob expansion of disable_noqa_except, up to the final return): map only read
        #c32-frame-native         native_only (bounded): the same frame on the real function -> a concrete failing input
        #c32-function             native_only (bounded): result == allowed_map(content at entry, disable_noqa_except)
   sqlfluff.core.parser.lexer:  BlockTracker.enter / exit / top   pyvc, whole functions: what `_stack` and `_map` -- CLASS attributes,
                                  shared by all instances -- hold after each call;  enter#c32-injective native_only (bounded)
"""
from pyvc.dsl import contract, external, spec, implies, ref_class, inline
from pyvc.ty import INT, StrN, TList, TTuple, TOpt, TDict, TSet, SLICE
from pyvc import replay as _replay

from sqlfluff.core.linter.linter import Linter as _LinterCls

PROP = "C32"

RefMap = TDict(StrN, TSet(StrN))       # rule reference map: reference (code, name, group, alias) -> set of rule codes


# ================================================================== Linter.allowed_rule_ref_map
# The one library call inside the regions: nothing about WHICH names it returns is needed for the frame (deliberately no
# functional / quantified axiom here: the frame obligation must stay refutable by the bounded, quantifier-free re-encoding).
@external("fnmatch:filter")
class fnmatch_filter:
    types = {"names": TSet(StrN), "pat": StrN}
    ret = TList(StrN)

    def ensures(names, pat, result):
        return all(result[i] in names for i in range(len(result)))


@contract("sqlfluff.core.linter.linter:Linter.allowed_rule_ref_map#c32-frame-special-codes", PROP)
class allowed_rule_ref_map_frame_write:
    """FRAME the property needs: the reference map handed in belongs to the caller (a RulePack, possibly shared by every file
    of the process) and must come back unmodified -- whatever `disable_noqa_except` says.  This region is the first part of
    the function (the early return and the three special codes); local aliases of the argument are tracked
    (opts.track_aliases), so a store through `output_map = reference_map` is a store into the argument."""
    region = ("if not disable_noqa_except:", 'unexpanded_rules = tuple(r.strip() for r in disable_noqa_except.split(","))')
    region_params = ["cls", "reference_map", "disable_noqa_except"]
    types = {"cls": _LinterCls, "reference_map": RefMap, "disable_noqa_except": TOpt(StrN), "output_map": RefMap,
             "special_rule": StrN}
    modifies = ["reference_map"]          # so that `reference_map` below is the FINAL value; the clause: it is the old one
    opts = {"track_aliases": True}

    def ensures(reference_map, disable_noqa_except, result, old):
        return reference_map == old.reference_map


@contract("sqlfluff.core.linter.linter:Linter.allowed_rule_ref_map#c32-frame-expansion", PROP)
class allowed_rule_ref_map_frame_read:
    """second part (glob expansion of the listed references, up to the final return): the map is only read.  `output_map` stands
    for whatever map the first part hands over (the argument itself or a copy of it), `unexpanded_rules` for the trimmed fields
    of disable_noqa_except.  (The one statement between the two regions, `unexpanded_rules = tuple(...)`, and the final
    `return {comprehension}` mention no store at all: EXTRA clause C32/state/allowed-rule-ref-map/statements-outside-the-regions.)"""
    region = ("noqa_set = set()", "return {k: v.intersection(noqa_set) for k, v in output_map.items()}")
    region_params = ["cls", "output_map", "unexpanded_rules"]
    types = {"cls": _LinterCls, "output_map": RefMap, "unexpanded_rules": TList(StrN), "noqa_set": TSet(StrN), "r": StrN, "x": StrN}
    modifies = ["output_map"]
    opts = {"track_aliases": True}

    def ensures(output_map, unexpanded_rules, result, old):
        return output_map == old.output_map

    def inv_1(output_map, old):
        return output_map == old.output_map

    def inv_2(output_map, old):
        return output_map == old.output_map


@spec(uninterpreted=True)
def allowed_map(m: RefMap, exc: TOpt(StrN)) -> RefMap:
    """the reference map noqa comments are read with (docs: configuration/ignoring_configuration, `disable_noqa_except`).
    Without `disable_noqa_except`: m.  With it: every reference of m, and the special codes PRS / LXR / TMP standing for
    themselves, keeps exactly those of its codes that some listed reference (comma separated, blanks trimmed; a code, name,
    group, alias or glob) stands for.  An independent implementation: a function of the two VALUES and of nothing else."""
    import fnmatch
    if not exc:
        return m
    full = {k: set(v) for k, v in m.items()}
    for special in ("PRS", "LXR", "TMP"):
        full[special] = {special}
    listed = set()
    for ref in exc.split(","):
        for k in full:
            if fnmatch.fnmatchcase(k, ref.strip()):
                listed |= full[k]
    return {k: {c for c in v if c in listed} for k, v in full.items()}


@contract("sqlfluff.core.linter.linter:Linter.allowed_rule_ref_map#c32-function", PROP)
class allowed_rule_ref_map_function:
    """BOUNDED (native_only): the real function is run by CPython on generated maps.  Clauses from the property: the result is
    a function of (content of the map at entry, disable_noqa_except) -- the independent implementation above -- and the map
    handed in is unchanged afterwards, so that the next call with the same map, by this lint or by a later one, sees the
    same content (the frame is `#c32-frame-native` below).  (The dict comprehension of the last statement is outside the symbolic subset; the statements before it are
    proved by the two region contracts above.)"""
    types = {"cls": _LinterCls, "reference_map": RefMap, "disable_noqa_except": TOpt(StrN)}
    ret = RefMap
    modifies = ["reference_map"]
    opts = {"native_only": True, "alphabet": "AB*,P ", "max_len": 3}

    def ensures(reference_map, disable_noqa_except, result, old):
        return result == allowed_map(old.reference_map, disable_noqa_except)      # a function of the entry content


@contract("sqlfluff.core.linter.linter:Linter.allowed_rule_ref_map#c32-frame-native", PROP)
class allowed_rule_ref_map_frame_native:
    """BOUNDED (native_only) companion of `#c32-frame-special-codes`: the same frame clause evaluated by CPython on the real
    function, which yields a concrete failing input (a region contract cannot be called natively)."""
    types = {"cls": _LinterCls, "reference_map": RefMap, "disable_noqa_except": TOpt(StrN)}
    ret = RefMap
    modifies = ["reference_map"]
    opts = {"native_only": True, "alphabet": "AB*,P ", "max_len": 3}

    def ensures(reference_map, disable_noqa_except, result, old):
        return reference_map == old.reference_map                                 # FRAME: the caller's map is untouched


# ================================================================== BlockTracker (core/parser/lexer.py)
# `_stack` and `_map` are CLASS attributes: every BlockTracker() of the process reads and writes the same list and the same
# dict (nothing ever assigns self._stack / self._map).  The contracts below are about those two objects as seen through any
# instance; what outlives a lex is stated by them: exit() undoes exactly one enter() (so a lex that closes every block it
# opened leaves the stack as it found it), and `_map` is an append-only memo -- enter() never changes or removes an entry,
# adds at most the entry of its own source slice, and gives a NEW source slice a value that no other slice has.
UUIDT = ref_class("uuid:UUID")           # tokens: only compared (identity); uuid.UUID defines no __bool__/__len__: always truthy
SliceKey = TTuple(INT, INT)
BlockTracker = ref_class("sqlfluff.core.parser.lexer:BlockTracker", _stack=TList(UUIDT), _map=TDict(SliceKey, UUIDT))

inline("sqlfluff.core.helpers.slice:to_tuple")


@external("uuid:uuid4")
class uuid4_c:
    """nothing is assumed about the value symbolically; that it differs from every uuid already in the map (122 random bits)
    is an ASSUMPTION of the injectivity clause, which is only evaluated natively (bounded)"""
    types = {}
    ret = UUIDT

    def ensures(result):
        return True


@contract("sqlfluff.core.parser.lexer:BlockTracker.enter", PROP)
class bt_enter:
    types = {"self": BlockTracker, "src_slice": SLICE, "key": SliceKey, "uuid": TOpt(UUIDT)}
    modifies = ["heap:BlockTracker._stack", "heap:BlockTracker._map"]

    def ensures(self, src_slice, old):
        k = (src_slice.start, src_slice.stop)
        # the memo is only ever extended: no entry is changed or removed, and only the entry of this slice may be new
        c1 = all(implies(q in old.self._map, q in self._map and self._map[q] == old.self._map[q]) for q in old.self._map.keys())
        c2 = k in self._map
        c3 = all(implies(q in self._map, q in old.self._map or q == k) for q in self._map.keys())
        # exactly one push: the uuid of this slice
        c4 = self._stack == old.self._stack + [self._map[k]]
        return c1 and c2 and c3 and c4


@contract("sqlfluff.core.parser.lexer:BlockTracker.exit", PROP)
class bt_exit:
    types = {"self": BlockTracker, "uuid": UUIDT}
    modifies = ["heap:BlockTracker._stack"]

    def requires(self):
        return len(self._stack) >= 1      # from the code: pop() of an empty stack is an IndexError (an unmatched block end)

    def ensures(self, old):
        # exactly one pop, and the memo is untouched: after enter(); ...balanced...; exit() the stack is what it was
        return (len(old.self._stack) >= 1 and self._stack == old.self._stack[0:len(old.self._stack) - 1]
                and self._map == old.self._map)


@contract("sqlfluff.core.parser.lexer:BlockTracker.top", PROP)
class bt_top:
    types = {"self": BlockTracker}
    ret = UUIDT
    modifies = []

    def requires(self):
        return len(self._stack) >= 1

    def ensures(self, result, old):
        return (result == self._stack[len(self._stack) - 1] and self._stack == old.self._stack
                and self._map == old.self._map)


@contract("sqlfluff.core.parser.lexer:BlockTracker.enter#c32-injective", PROP)
class bt_enter_injective:
    """BOUNDED (native_only; ASSUMES uuid4() never repeats a value of the map).  Why the shared memo cannot change what a later
    file reports: block uuids are only ever compared with each other (see the EXTRA clause `block-uuid-opaque`), and within
    one file `uuid(block a) == uuid(block b)  <=>  source slice of a == source slice of b` holds whether the memo starts empty
    (fresh process) or warm (after other files) -- PROVIDED the memo stays injective, which is this clause."""
    types = {"self": BlockTracker, "src_slice": SLICE}
    modifies = ["heap:BlockTracker._stack", "heap:BlockTracker._map"]
    opts = {"native_only": True, "ints": [0, 1, 2, 3, 5]}

    def requires(self, src_slice):
        return all(implies(a != b, self._map[a] != self._map[b]) for a in self._map.keys() for b in self._map.keys())

    def ensures(self, src_slice, old):
        return all(implies(a != b, self._map[a] != self._map[b]) for a in self._map.keys() for b in self._map.keys())


# ------------------------------------------------------------------ native builders
import uuid as _uuid                                            # noqa: E402
from sqlfluff.core.parser.lexer import BlockTracker as _BT     # noqa: E402

_UUID_POOL = [_uuid.UUID(int=i + 1) for i in range(6)]


def _build_uuid(rng, gen):
    return rng.choice(_UUID_POOL)


def _build_tracker(rng, gen):
    """a tracker whose two containers are INSTANCE attributes holding generated content (the methods reach them through
    `self`, exactly as they reach the class attributes), so that the check's own process state is not touched"""
    bt = _BT()
    bt._stack = [rng.choice(_UUID_POOL) for _ in range(rng.randint(0, 3))]
    bt._map = {(a, a + rng.choice([0, 1, 2])): rng.choice(_UUID_POOL) for a in rng.sample(range(5), rng.randint(0, 3))}
    return bt


_replay.BUILDERS["UUID"] = _build_uuid
_replay.BUILDERS["BlockTracker"] = _build_tracker
