"""C02 -- the deductive kernel: BaseFileSegment.root_parse puts EVERY lexed token into the tree, in order, exactly once.

Vocabulary (written from the property "tree leaves are exactly the lexed tokens"): every tree node n has a position in THE
token sequence being parsed,  fst(n)  and  width(n)  (number of leaf tokens), and  ok(n)  says "the leaves of n are exactly
tokens[fst(n) : fst(n) + width(n)], in order".  A tuple of nodes is `contiguous` when every element is ok and each starts
where the previous one ends.  Building a node from a non-empty contiguous tuple of children yields an ok node spanning them
(BaseSegment.__init__: `raw_segments` is the concatenation of the children's -- assumed, it is the definition of leaves).

Functions under contract (region contracts: root_parse is verified in two statement ranges):
   root_parse#trim    the two trimming loops: 0 <= _start_idx <= _end_idx <= len(segments)
   root_parse#build   from `_matched = match.apply(...)` to the final `return cls(...)`: the returned file node is ok, starts
                      at token 0 and has width len(segments) -- i.e. its leaves are exactly the lexed tokens
Assumed (checked on every real parse by the bounded stand-ins of contracts/c02_bounded.py): MatchResult.apply returns a
contiguous tuple spanning exactly its matched_slice; the root grammar's match starts at _start_idx and ends by _end_idx.
"""
from pyvc.dsl import contract, external, spec, implies, ref_class, rec_class
from pyvc.ty import INT, BOOL, Text, TList, TOpt, TOpaque, SINK, SLICE

PROP = "C02"

Seg = ref_class("sqlfluff.core.parser.segments.base:BaseSegment", is_code=BOOL)
FileSeg = ref_class("sqlfluff.core.parser.segments.file:BaseFileSegment", base="BaseSegment")
Unparsable = ref_class("sqlfluff.core.parser.segments.base:UnparsableSegment", base="BaseSegment")
ParseContext = ref_class("sqlfluff.core.parser.context:ParseContext")
MatchResult = rec_class("sqlfluff.core.parser.match_result:MatchResult", matched_slice=SLICE, matched_class=SINK,
                        segment_kwargs=SINK, insert_segments=TList(SINK), child_matches=TList(SINK))

from sqlfluff.dialects.dialect_ansi import FileSegment as _FileSegment  # noqa: E402  (a concrete file class: the method is inherited)
from pyvc import ops as _ops  # noqa: E402
# MatchResult.__bool__: "truthy if it has length or inserts" (its two-line body, stated as the truth hook of the record)
_ops.REC_TRUTHY["MatchResult"] = lambda v: _ops.z3.Or(
    _ops.rec_get(_ops.rec_get(v, "matched_slice"), "stop").z - _ops.rec_get(_ops.rec_get(v, "matched_slice"), "start").z > 0,
    _ops.seq_len(_ops.rec_get(v, "insert_segments")) > 0)


@spec(uninterpreted=True)
def fst(n: Seg) -> INT:
    """index (in the token sequence being parsed) of the node's first leaf"""
    return 0


@spec(uninterpreted=True)
def width(n: Seg) -> INT:
    """number of leaf tokens of the node"""
    return len(n.raw_segments)


@spec(uninterpreted=True)
def ok(n: Seg) -> BOOL:
    """the node's leaves are exactly tokens[fst(n) : fst(n) + width(n)], in order"""
    return True


@spec
def contiguous(xs):
    """every element accounts for exactly its own stretch of tokens and the stretches follow one another"""
    return (all(ok(xs[j]) and width(xs[j]) >= 0 for j in range(len(xs)))
            and all(fst(xs[j + 1]) == fst(xs[j]) + width(xs[j]) for j in range(0, len(xs) - 1)))


@spec
def spans(xs, lo, hi):
    """a contiguous tuple that covers tokens[lo:hi] (an empty tuple covers only the empty stretch)"""
    return (contiguous(xs)
            and (lo == hi if len(xs) == 0 else (fst(xs[0]) == lo and fst(xs[len(xs) - 1]) + width(xs[len(xs) - 1]) == hi)))


@spec
def tokens(segments):
    """the lexer's output: token i is its own leaf at position i"""
    return all(ok(segments[i]) and fst(segments[i]) == i and width(segments[i]) == 1 for i in range(len(segments)))


@spec
def is_truthy(m):
    """MatchResult.__bool__: it has length or inserts"""
    return m.matched_slice.stop - m.matched_slice.start > 0 or len(m.insert_segments) > 0


# ------------------------------------------------------------------ assumed neighbours
@external("sqlfluff.core.parser.match_result:MatchResult.apply", PROP)
class apply:
    """checked on every apply call of real parses by contracts/c02_bounded.py (`leaves` clause)"""
    types = {"self": MatchResult, "segments": TList(Seg), "parse_context": ParseContext}
    ret = TList(Seg)

    def requires(self, segments, parse_context):
        return 0 <= self.matched_slice.start <= self.matched_slice.stop <= len(segments)

    def ensures(self, segments, parse_context, result):
        return (spans(result, self.matched_slice.start, self.matched_slice.stop)
                and implies(is_truthy(self), len(result) >= 1)
                and implies(len(result) >= 1, fst(result[0]) == self.matched_slice.start))


@external("sqlfluff.core.parser.match_result:MatchResult.__bool__", PROP)
class match_bool:
    types = {"self": MatchResult}
    ret = BOOL

    def ensures(self, result):
        return result == is_truthy(self)


@external("sqlfluff.core.parser.context:ParseContext.increment_parse_nodes", PROP)
class increment_parse_nodes:
    """proved under C04 (may raise SQLParseError when the node budget is exhausted: that is an error exit, not a tree)"""
    types = {"self": ParseContext, "count": INT}
    raises = {"SQLParseError": None}

    def ensures(self, count=1):
        return True


@external("sqlfluff.core.parser.segments.base:UnparsableSegment.__init__", PROP)
class unparsable_init:
    """a node built from a non-empty contiguous tuple of children spans exactly them (definition of `raw_segments`)"""
    types = {"self": Unparsable, "segments": TList(Seg), "pos_marker": SINK, "expected": SINK}

    def requires(self, segments, pos_marker=None, expected=""):
        return len(segments) > 0

    def ensures(self, segments, pos_marker=None, expected=""):
        return implies(contiguous(segments),
                       ok(self) and fst(self) == fst(segments[0])
                       and fst(self) + width(self) == fst(segments[len(segments) - 1]) + width(segments[len(segments) - 1])
                       and width(self) >= 0)


@external("sqlfluff.core.parser.segments.file:BaseFileSegment.__init__", PROP)
class file_init:
    types = {"self": FileSeg, "segments": TList(Seg), "fname": SINK, "pos_marker": SINK}

    def requires(self, segments, fname=None, pos_marker=None):
        return len(segments) > 0

    def ensures(self, segments, fname=None, pos_marker=None):
        return implies(contiguous(segments),
                       ok(self) and fst(self) == fst(segments[0])
                       and fst(self) + width(self) == fst(segments[len(segments) - 1]) + width(segments[len(segments) - 1])
                       and width(self) >= 0)


# ------------------------------------------------------------------ root_parse, in two ranges
@contract("sqlfluff.core.parser.segments.file:BaseFileSegment.root_parse#trim", PROP)
class root_parse_trim:
    region = ("_start_idx = 0", "if _start_idx == _end_idx:")
    region_params = ["segments"]
    types = {"segments": TList(Seg), "_start_idx": INT, "_end_idx": INT}
    ghost_out = {"_start_idx": INT, "_end_idx": INT}

    def requires(segments):
        return len(segments) > 0          # Parser.parse returns early for an empty token list

    def ensures(segments, result, _start_idx, _end_idx):
        return 0 <= _start_idx <= _end_idx <= len(segments)

    def inv_1(segments, _start_idx, _i):
        return 0 <= _start_idx <= _i and _start_idx < len(segments)

    def inv_2(segments, _start_idx, _end_idx, _i):
        return 0 <= _start_idx <= _end_idx <= len(segments)


@contract("sqlfluff.core.parser.segments.file:BaseFileSegment.root_parse#build", PROP)
class root_parse_build:
    region = ("_matched = match.apply(segments, parse_context=parse_context)", None)
    region_params = ["cls", "segments", "match", "parse_context", "fname", "_start_idx", "_end_idx"]
    types = {"cls": _FileSegment, "segments": TList(Seg), "match": MatchResult, "parse_context": ParseContext,
             "fname": SINK, "_start_idx": INT, "_end_idx": INT, "_idx": INT, "content": TList(Seg),
             "_matched": TList(Seg), "_unmatched": TList(Seg)}
    ret = FileSeg
    raises = {"SQLParseError": None}

    def requires(cls, segments, match, parse_context, fname, _start_idx, _end_idx):
        return (tokens(segments)
                # established by root_parse#trim and the `if _start_idx == _end_idx` early return
                and 0 <= _start_idx < _end_idx <= len(segments)
                # assumed of the root grammar's match(segments[:_end_idx], _start_idx, ctx): starts where asked, ends in range
                and _start_idx <= match.matched_slice.start <= match.matched_slice.stop <= _end_idx
                and implies(is_truthy(match), match.matched_slice.start == _start_idx))

    def ensures(cls, segments, match, parse_context, fname, _start_idx, _end_idx, result):
        # the tree's leaves are exactly the lexed tokens: all of them, in order, once
        return ok(result) and fst(result) == 0 and width(result) == len(segments)

    def inv_1(_unmatched, _idx, _i):
        return 0 <= _idx <= _i and _idx < len(_unmatched)


TRUSTED = ["BaseSegment.__init__ (all subclasses): a node's leaves (`raw_segments`) are the concatenation of its children's",
           "MatchResult.apply returns a contiguous tuple of nodes spanning exactly matched_slice (bounded check in c02_bounded)",
           "the root grammar's match(segments[:_end_idx], _start_idx, ctx) starts at _start_idx when it matches anything and "
           "ends by _end_idx (precondition of root_parse#build)",
           "region contracts root_parse#trim / #build: the statements between them (the early return for an all-non-code "
           "file, the progress bar, the grammar match) are not in the verified ranges"]
MUTANTS = [
    ("root_drops_trailing_non_code", "sqlfluff/core/parser/segments/file.py", "            segments[:_start_idx] + content + segments[_end_idx:],", "            segments[:_start_idx] + content,"),
    ("root_drops_leading_non_code", "sqlfluff/core/parser/segments/file.py", "            segments[:_start_idx] + content + segments[_end_idx:],", "            content + segments[_end_idx:],"),
    ("root_unparsable_skips_one", "sqlfluff/core/parser/segments/file.py", "                        _unmatched[_idx:], expected=\"Nothing else in FileSegment.\"", "                        _unmatched[_idx + 1 :], expected=\"Nothing else in FileSegment.\""),
    ("root_unmatched_from_start", "sqlfluff/core/parser/segments/file.py", "        _unmatched = segments[match.matched_slice.stop : _end_idx]", "        _unmatched = segments[match.matched_slice.start : _end_idx]"),
    ("root_no_match_wraps_too_little", "sqlfluff/core/parser/segments/file.py", "                    segments[_start_idx:_end_idx], expected=str(cls.match_grammar)", "                    segments[_start_idx : _end_idx - 1], expected=str(cls.match_grammar)"),
]
