"""C30 -- edits are applied to disjoint source ranges exactly once.   Functions under contract:
   sqlfluff.core.linter.patch:       _patches_conflict, merge_source_patches
   sqlfluff.core.linter.linted_file: LintedFile._slice_source_file_using_patches, ._build_up_fixed_source_string
Inlined from their real bodies: FixPatch.dedupe_tuple, RawFileSlice.end_source_idx / source_slice.
"""
from pyvc.dsl import contract, spec, lemma, implies, inline, rec_class
from pyvc.ty import INT, BOOL, Text, TList, TSet, TTuple, TOpt, SLICE
from pyvc import replay as _replay

PROP = "C30"

from .types import FixPatch, RawFileSlice  # noqa: E402

DedupeT = TTuple(TTuple(INT, INT), Text)


# ------------------------------------------------------------------ specification (from the property text)
@spec
def conflict(a, b):
    """two edits cannot both be applied: same range with different text, or ranges that overlap in an
    open interval (an edit never conflicts with an identical-range, identical-text copy of itself)"""
    return ((a.fixed_raw != b.fixed_raw) if a.source_slice == b.source_slice
            else max(a.source_slice.start, b.source_slice.start) < min(a.source_slice.stop, b.source_slice.stop))


@spec
def key_le(a, b):
    return (a.source_slice.start, a.source_slice.stop) <= (b.source_slice.start, b.source_slice.stop)


@spec
def same_edit(a, b):
    return a.source_slice == b.source_slice and a.fixed_raw == b.fixed_raw


@spec
def tiles(buff, upto):
    """the ranges in buff are consecutive, start at 0 and end at `upto`"""
    return ((upto == 0 if len(buff) == 0 else (buff[0].start == 0 and buff[len(buff) - 1].stop == upto))
            and all(0 <= buff[q].start <= buff[q].stop <= upto for q in range(len(buff)))
            and all(buff[q].stop == buff[q + 1].start for q in range(len(buff) - 1))
            # (redundant, but makes the ordering available without induction)
            and all(buff[q].stop <= buff[r].start for q in range(len(buff)) for r in range(q + 1, len(buff))))


@spec
def is_suffix(rest, whole):
    return (len(rest) <= len(whole)
            and all(rest[b] == whole[len(whole) - len(rest) + b] for b in range(len(rest))))


@spec
def common_inv(source_patches, sos, raw_source_string, slice_buff, source_idx, sos0, i):
    return (tiles(slice_buff, source_idx) and 0 <= source_idx <= len(raw_source_string)
            and is_suffix(sos, sos0)
            and all(sos[b].source_idx >= source_idx for b in range(len(sos)))
            and all(slice_buff[q] != slice_buff[r] for q in range(len(slice_buff)) for r in range(q + 1, len(slice_buff)))
            # empty ranges only come from patches already processed
            and all(implies(slice_buff[q].start == slice_buff[q].stop,
                            any(slice_buff[q] == source_patches[a].source_slice for a in range(0, i)))
                    for q in range(len(slice_buff))))


# ------------------------------------------------------------------ contracts
@contract("sqlfluff.core.linter.patch:_patches_conflict", PROP)
class patches_conflict:
    types = {"first": FixPatch, "second": FixPatch}
    ret = BOOL
    functional = True

    def ensures(first, second, result):
        return result == conflict(first, second)


@contract("sqlfluff.core.linter.patch:merge_source_patches", PROP)
class merge_source_patches:
    types = {"patch_buffers": TList(TList(FixPatch)), "merged_patches": TList(FixPatch), "dedupe_buffer": TSet(DedupeT)}
    ret = TList(FixPatch)

    def ensures(patch_buffers, result):
        return (
            # (m1) applied edits never conflict pairwise
            all(not conflict(result[i], result[j]) for i in range(len(result)) for j in range(i + 1, len(result)))
            # (m2) no edit is kept twice
            and all(not same_edit(result[i], result[j]) for i in range(len(result)) for j in range(i + 1, len(result)))
            # (m3) sorted by (start, stop)
            and all(key_le(result[i], result[j]) for i in range(len(result)) for j in range(i + 1, len(result)))
            # nothing invented: every kept edit is one of the inputs, whole
            and all(any(result[i] == patch_buffers[a][b] for a in range(len(patch_buffers)) for b in range(len(patch_buffers[a])))
                    for i in range(len(result)))
            # (m4) dropped entirely and only for a reason: every input edit is kept, or repeats a kept edit,
            #      or conflicts with a kept edit
            and all(any(result[i] == patch_buffers[a][b] or same_edit(result[i], patch_buffers[a][b])
                        or conflict(result[i], patch_buffers[a][b]) for i in range(len(result)))
                    for a in range(len(patch_buffers)) for b in range(len(patch_buffers[a]))))

    def inv_1(merged_patches, dedupe_buffer, _iter, _i):
        return (
            all(not conflict(merged_patches[i], merged_patches[j])
                for i in range(len(merged_patches)) for j in range(i + 1, len(merged_patches)))
            and all(not same_edit(merged_patches[i], merged_patches[j])
                    for i in range(len(merged_patches)) for j in range(i + 1, len(merged_patches)))
            and all(key_le(merged_patches[i], merged_patches[j])
                    for i in range(len(merged_patches)) for j in range(i + 1, len(merged_patches)))
            and all(any(merged_patches[i] == _iter[k] for k in range(0, _i)) for i in range(len(merged_patches)))
            and all(any(merged_patches[i] == _iter[k] or same_edit(merged_patches[i], _iter[k])
                        or conflict(merged_patches[i], _iter[k]) for i in range(len(merged_patches)))
                    for k in range(0, _i))
            and all(((merged_patches[i].source_slice.start, merged_patches[i].source_slice.stop),
                     merged_patches[i].fixed_raw) in dedupe_buffer for i in range(len(merged_patches)))
            and all(any(((merged_patches[i].source_slice.start, merged_patches[i].source_slice.stop),
                         merged_patches[i].fixed_raw) == t for i in range(len(merged_patches))) for t in dedupe_buffer))


@contract("sqlfluff.core.linter.linted_file:LintedFile._slice_source_file_using_patches", PROP)
class slice_source_file_using_patches:
    types = {"source_patches": TList(FixPatch), "source_only_slices": TList(RawFileSlice), "raw_source_string": Text,
             "slice_buff": TList(SLICE), "source_idx": INT}
    ret = TList(SLICE)
    modifies = ["source_only_slices"]

    def requires(source_patches, source_only_slices, raw_source_string):
        return (
            all(0 <= source_patches[a].source_slice.start <= source_patches[a].source_slice.stop <= len(raw_source_string)
                for a in range(len(source_patches)))
            # sorted by start (generate_source_patches / merge_source_patches establish this)
            and all(source_patches[a].source_slice.start <= source_patches[b].source_slice.start
                    for a in range(len(source_patches)) for b in range(a + 1, len(source_patches)))
            # source-only slices: non-empty, in bounds, in order, disjoint
            and all(0 <= source_only_slices[b].source_idx and len(source_only_slices[b].raw) > 0
                    and source_only_slices[b].source_idx + len(source_only_slices[b].raw) <= len(raw_source_string)
                    for b in range(len(source_only_slices)))
            and all(source_only_slices[b].source_idx + len(source_only_slices[b].raw) <= source_only_slices[c].source_idx
                    for b in range(len(source_only_slices)) for c in range(b + 1, len(source_only_slices)))
            # no two edits share a range (merge_source_patches: m1 and m2 together)
            and all(source_patches[a].source_slice != source_patches[b].source_slice
                    for a in range(len(source_patches)) for b in range(a + 1, len(source_patches)))
            # compat (what the filter of generate_source_patches guarantees, see C10): a patch has exactly the
            # range of a source-only slice or does not reach into one
            and all((source_patches[a].source_slice.start == source_only_slices[b].source_idx
                     and source_patches[a].source_slice.stop == source_only_slices[b].source_idx + len(source_only_slices[b].raw))
                    or source_patches[a].source_slice.stop <= source_only_slices[b].source_idx
                    or source_patches[a].source_slice.start >= source_only_slices[b].source_idx + len(source_only_slices[b].raw)
                    for a in range(len(source_patches)) for b in range(len(source_only_slices))))

    def ensures(source_patches, raw_source_string, result, old):
        return (
            # tiling: the returned ranges cover [0, len) exactly once, in order
            tiles(result, len(raw_source_string))
            # no range occurs twice (so no edit can be applied twice by the range-matching builder)
            and all(result[q] != result[r] for q in range(len(result)) for r in range(q + 1, len(result))))

    def inv_1(source_patches, source_only_slices, raw_source_string, slice_buff, source_idx, old, _i):
        return common_inv(source_patches, source_only_slices, raw_source_string, slice_buff, source_idx,
                          old.source_only_slices, _i)

    def inv_2(source_patches, source_only_slices, raw_source_string, slice_buff, source_idx, old, _i1, patch):
        return (0 <= _i1 < len(source_patches) and patch == source_patches[_i1]
                and common_inv(source_patches, source_only_slices, raw_source_string, slice_buff, source_idx,
                               old.source_only_slices, _i1))


SHARDS = {"sqlfluff.core.linter.linted_file:LintedFile._slice_source_file_using_patches": 12,
          "sqlfluff.core.linter.patch:merge_source_patches": 4}
TRUSTED = []
NOT_COVERED = ["completeness of the slicer (a patch is skipped *only* when it starts inside covered text) is not claimed: "
               "the property demands that edits are never partially or doubly applied, not that none is lost"]


# ------------------------------------------------------------------ the builder
def _first_match_axiom(patches, sl, result):
    return ((result == -1 and all(patches[m].source_slice != sl for m in range(len(patches))))
            or (0 <= result < len(patches) and patches[result].source_slice == sl
                and all(patches[m].source_slice != sl for m in range(0, result))))


@spec(uninterpreted=True, axiom=_first_match_axiom)
def first_match(patches: TList(FixPatch), sl: SLICE) -> INT:
    """index of the first patch whose range is exactly sl, else -1 (defined by the axiom above)"""
    return next((j for j, p in enumerate(patches) if p.source_slice == sl), -1)


@spec
def piece(patches, src, sl):
    """what a range contributes: the text of the first patch with exactly that range, else the original text"""
    return patches[first_match(patches, sl)].fixed_raw if first_match(patches, sl) >= 0 else src[sl.start:sl.stop]


@spec(recursive=True)
def built(ranges: TList(SLICE), patches: TList(FixPatch), src: Text, k: INT) -> Text:
    return "" if k <= 0 else built(ranges, patches, src, k - 1) + piece(patches, src, ranges[k - 1])


@contract("sqlfluff.core.linter.linted_file:LintedFile._build_up_fixed_source_string", PROP)
class build_up_fixed_source_string:
    types = {"source_file_slices": TList(SLICE), "source_patches": TList(FixPatch), "raw_source_string": Text,
             "str_buff": Text}
    ret = Text

    def ensures(source_file_slices, source_patches, raw_source_string, result):
        # each returned range contributes exactly one piece, in order: a patch is applied exactly where its
        # range occurs, every other range is copied from the original
        return result == built(source_file_slices, source_patches, raw_source_string, len(source_file_slices))

    def inv_1(source_file_slices, source_patches, raw_source_string, str_buff, _i):
        return str_buff == built(source_file_slices, source_patches, raw_source_string, _i)

    def inv_2(source_file_slices, source_patches, raw_source_string, str_buff, _i1, _i2, source_slice):
        return (0 <= _i1 < len(source_file_slices) and source_slice == source_file_slices[_i1]
                and str_buff == built(source_file_slices, source_patches, raw_source_string, _i1)
                and all(source_patches[m].source_slice != source_slice for m in range(0, _i2)))

MUTANTS = [
    ("conflict_le", "sqlfluff/core/linter/patch.py", "return max(first_start, second_start) < min(first_stop, second_stop)", "return max(first_start, second_start) < min(first_stop, second_stop) - 1"),
    ("conflict_same_range_ignored", "sqlfluff/core/linter/patch.py", "        return first.fixed_raw != second.fixed_raw\n", "        return False\n"),
    ("merge_skips_conflict_check", "sqlfluff/core/linter/patch.py", "if any(_patches_conflict(existing, patch) for existing in merged_patches):", "if any(_patches_conflict(existing, patch) for existing in merged_patches[-1:]):"),
    ("merge_no_dedupe", "sqlfluff/core/linter/patch.py", "        if dedupe_tuple in dedupe_buffer:\n            continue\n\n        if any(", "        if False:\n            continue\n\n        if any("),
    ("merge_sort_by_stop", "sqlfluff/core/linter/patch.py", "key=lambda patch: (patch.source_slice.start, patch.source_slice.stop),", "key=lambda patch: (patch.source_slice.stop, patch.source_slice.start),"),
    ("slicer_no_skip", "sqlfluff/core/linter/linted_file.py", "            if patch.source_slice.start < source_idx:  # pragma: no cover", "            if False:"),
    ("slicer_gap_off", "sqlfluff/core/linter/linted_file.py", "                slice_buff.append(slice(source_idx, patch.source_slice.start))", "                slice_buff.append(slice(source_idx, patch.source_slice.start - 1))"),
    ("slicer_tail_missing", "sqlfluff/core/linter/linted_file.py", "        if source_idx < len(raw_source_string):\n            slice_buff.append", "        if source_idx < len(raw_source_string) - 1:\n            slice_buff.append"),
    ("slicer_keep_so_dup", "sqlfluff/core/linter/linted_file.py", "                # If it does, remove it so that we don't duplicate it.\n                source_only_slices.pop(0)", "                # If it does, remove it so that we don't duplicate it.\n                pass"),
    ("builder_last_match", "sqlfluff/core/linter/linted_file.py", "                    str_buff += patch.fixed_raw\n                    break", "                    str_buff += patch.fixed_raw"),
    ("builder_uses_source_str", "sqlfluff/core/linter/linted_file.py", "                    str_buff += patch.fixed_raw\n", "                    str_buff += patch.source_str\n"),
]


# ------------------------------------------------------------------ the call site (Linter.lint_parsed)
def lint_parsed_patch_flow(tier="quick", seed=0):
    """EXTRA: the region contract `Linter.lint_parsed#violations-flow` lives in contracts/c33.py (its assumed neighbours are declared
    there, and its `merge_source_patches` neighbour would shadow the VERIFIED contract of this module if both were imported into one
    process); its third postcondition is C30's call-site clause: whenever fixes were generated, the patches stored on the LintedFile
    went through merge_source_patches, whatever the number of variants.  It is discharged here by running that one function of
    the C33 module in a child process against the same source tree and counting its obligations."""
    import os, re, subprocess, sys
    import sqlfluff
    root = os.path.dirname(os.path.dirname(os.path.abspath(__file__)))
    src = os.path.dirname(os.path.dirname(os.path.abspath(sqlfluff.__file__)))
    cmd = [sys.executable, "-m", "pyvc.runner", "C33", "--fn", "Linter.lint_parsed#violations-flow", "--src", src, "-v"]
    p = subprocess.run(cmd, cwd=root, capture_output=True, text=True, env=dict(os.environ, PYVC_JOBS="4"))
    m = re.search(r"obligations=(\d+) discharged=(\d+) failed=(\d+) known=\d+ undecided=(\d+) crashes=(\d+)", p.stdout)
    fn = "sqlfluff.core.linter.linter:Linter.lint_parsed#violations-flow"
    failed, undecided = [], []
    if not m:
        undecided.append({"function": fn, "reason": "child run produced no summary: " + (p.stdout + p.stderr)[-300:]})
        return {"name": "lint_parsed-patch-flow", "obligations": 1, "discharged": 0, "failed": [], "undecided": undecided, "samples": [],
                "trusted": [], "backend": "pyvc region contract (child process)"}
    n, d, f, u, c = map(int, m.groups())
    for line in p.stdout.splitlines():
        if line.strip().startswith("FAILED"):
            oid = line.split()[1].replace("C33/", "C30/call-site/", 1)
            failed.append({"name": oid, "id": re.sub(r"/L\d+#\d+$", "", oid), "kind": "post", "status": "failed", "function": fn,
                           "detail": {"child_output": line.strip()[:400]}, "reproduced": False})
        elif line.strip().startswith(("UNDECIDED", "CRASH")):
            undecided.append({"function": fn, "reason": line.strip()[:300]})
    return {"name": "lint_parsed-patch-flow", "obligations": n, "discharged": d, "failed": failed, "undecided": undecided,
            "samples": [{"function": fn, "obligations": n, "discharged": d}],
            "trusted": ["region contract Linter.lint_parsed#violations-flow (contracts/c33.py): its neighbours lint_fix_parsed, "
                        "generate_source_patches, merge_source_patches are havocked there; merge_source_patches' meaning is THIS module's proof"],
            "backend": "pyvc region contract, z3 (child process)"}


EXTRA = list(globals().get("EXTRA", [])) + [lint_parsed_patch_flow]
MUTANTS = list(MUTANTS) + [
    ("lint_parsed_skips_merge_for_one_variant", "sqlfluff/core/linter/linter.py",
     "            if fix:\n                merged_source_patches = merge_source_patches(variant_source_patches)\n",
     "            if fix:\n                merged_source_patches = (\n                    variant_source_patches[0]\n                    if len(variant_source_patches) == 1\n                    else merge_source_patches(variant_source_patches)\n                )\n"),
]
