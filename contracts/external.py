"""Assumed (trusted, unchecked) contracts of functions outside /repo/src.  Every entry here is an
assumption of the proofs that use it and is listed in the evidence `trusted_base`; thorough mode validates
each one against the real library function on a bounded domain (pyvc.validate_externals)."""
import bisect

from pyvc.dsl import external, implies, alias_external
from pyvc.ty import INT, BOOL, StrA, StrN, Text, TList


@external("str.find")
class str_find:
    types = {"self": StrA, "sub": StrA, "start": INT}
    ret = INT

    def requires(self, sub, start=0):
        return len(sub) == 1 and start >= 0

    def ensures(self, sub, start=0, result=0):
        # single-character needle: -1 and no occurrence at or after start, or the first occurrence >= start
        return ((result == -1 or (start <= result < len(self) and self[result] == sub[0]))
                and all(self[p] != sub[0] for p in range(start, len(self) if result == -1 else result)))


@external("bisect:bisect_left")
class bisect_left_c:
    types = {"a": TList(INT), "x": INT}
    ret = INT

    def requires(a, x):
        return all(a[i] <= a[i + 1] for i in range(len(a) - 1))

    def ensures(a, x, result):
        return (0 <= result <= len(a)
                and all(a[i] < x for i in range(0, result))
                and all(a[i] >= x for i in range(result, len(a))))


alias_external(bisect.bisect_left, "bisect:bisect_left")
