"""C07 -- JinjaTemplater._rectify_templated_slices under a pyvc contract (imported by contracts/c07.py).

The unreached-code variants of the jinja templater are rendered from a MODIFIED template (some `{% if .. %}` / `{% elif .. %}`
tags replaced by `{% if True %}` / `{% if False %}`), so the source positions of their slices are positions in the modified
template.  `_rectify_templated_slices(length_deltas, sliced_template)` maps them back: the property demands that every source
slice of every variant is a slice of the ORIGINAL file (lies within it, literal text identical).

Specification (from the property text and the function's docstring, not from its body):
    length_deltas = {idx: new_len - old_len} keyed by the ORIGINAL source index of each overridden tag.
    shift(d, q)   = total length change of the overridden tags that start strictly before original position q.
    The original position q corresponds to the modified position q + shift(d, q); tag x starts at x + shift(d, x) there.
    result[i] keeps slice_type and templated_slice; its source_slice (a, b) satisfies
        a + shift(d, a) == input[i].source_slice.start      b + shift(d, b) == input[i].source_slice.stop
    and each boundary lies behind the start of a modified tag exactly when its image lies behind the start of the original tag
    (this second clause makes the image unique: inside a tag that shrank, several positions satisfy the first).
Precondition (what the function needs; no ordering of the slices, loops may revisit positions, tags need not be reached):
    keys >= 0; the modified tags keep their order (x < y => x + shift(d, x) < y + shift(d, y): new tags are not empty and original
    tags do not overlap); no slice boundary p falls in the part (m, m + delta] of a modified tag starting at m that has no
    counterpart in the original (implied by: no boundary strictly inside a modified tag, original tags not empty).

(Function body as of /repo b1b8665: loop 1 builds the modified tag positions from the sorted deltas, loop 2 maps every boundary by
 p - sum(d for pos, d in modified_tags if pos < p).)
"""
from pyvc.dsl import contract, spec, lemma, implies
from pyvc.ty import INT, BOOL, TList, TTuple, TDict

from .types import TemplatedFileSlice

PROP = "C07"
KEY = "sqlfluff.core.templaters.jinja:JinjaTemplater._rectify_templated_slices"
TAGS = TList(TTuple(INT, INT))


# ------------------------------------------------------------------ specification vocabulary
@spec(recursive=True)
def shift(d: TDict(INT, INT), q: INT) -> INT:
    """total length change (new - old) of the overridden tags whose ORIGINAL start index is < q (keys are >= 0)"""
    return 0 if q <= 0 else shift(d, q - 1) + d.get(q - 1, 0)


@spec
def no_key_in(d, a, b):
    """no overridden tag starts in the original range [a, b)"""
    return all(not (x in d) for x in range(a, b))


@spec
def tags_keep_order(d) -> BOOL:
    """the modified tags come in the order of the original ones (new tags not empty, original tags do not overlap)"""
    return all(implies(x < y, x + shift(d, x) < y + shift(d, y)) for x in d.keys() for y in d.keys())


@spec
def outside_stretch(d, p) -> BOOL:
    """position p of the modified template is not in (m, m + delta] for a modified tag starting at m"""
    return all(implies(x + shift(d, x) < p, p > x + shift(d, x) + d.get(x, 0)) for x in d.keys())


@spec
def image_of(d, p, q) -> BOOL:
    """original position q is THE image of position p of the modified template"""
    return (q + shift(d, q) == p
            and all((x + shift(d, x) < p) == (x < q) for x in d.keys()))


# ------------------------------------------------------------------ vocabulary of the proof (the code's intermediate values)
@spec(recursive=True)
def msum(tags: TAGS, n: INT, p: INT) -> INT:
    """sum(d for pos, d in tags[:n] if pos < p): the engine replaces the code's `sum(...)` by msum(tags, len(tags), p) after
    checking (obligations sum-model[msum.base / msum.step]) that msum satisfies the recurrences of that sum"""
    return 0 if n <= 0 else msum(tags, n - 1, p) + (tags[n - 1][1] if tags[n - 1][0] < p else 0)


@spec
def is_items(D, d):
    """D = sorted(d.items()): entries of the dict, strictly increasing keys, every key present"""
    return (all(D[k][0] in d and d.get(D[k][0], 0) == D[k][1] for k in range(len(D)))
            and all(D[j][0] < D[k][0] for j in range(len(D)) for k in range(j + 1, len(D)))
            and all(any(D[k][0] == x for k in range(len(D))) for x in d.keys()))


@spec
def tags_of(M, D, d, n):
    """the first n modified tags: position in the modified template, delta"""
    return all(M[k][0] == D[k][0] + shift(d, D[k][0]) and M[k][1] == D[k][1] for k in range(n))


@spec
def bound(D, n):
    """the key of D[n], or a position behind every key"""
    return D[n][0] if n < len(D) else (D[len(D) - 1][0] + 1 if len(D) > 0 else 0)


@spec
def walk_ok(d, D, M, p):
    """premises of the lemmas about msum"""
    return (all(x >= 0 for x in d.keys()) and is_items(D, d) and len(M) == len(D) and tags_of(M, D, d, len(D))
            and all(M[j][0] < M[k][0] for j in range(len(M)) for k in range(j + 1, len(M)))
            and all(implies(M[k][0] < p, p > M[k][0] + M[k][1]) for k in range(len(M))))


# NOTE on the proof: in the verification conditions of the FUNCTION (and of L_key / L_final) `shift` (and `msum`) are UNINTERPRETED
# symbols (opts abstract_specs; nothing is assumed about them): next to the key-quantified precondition the recursive definitions
# feed z3's instantiation for ever.  Every fact about them comes from an instance of a lemma below, proved against the definitions.
# ------------------------------------------------------------------ lemmas
@lemma(props=(PROP,))
def L_zero(d: TDict(INT, INT), q: INT):
    return implies(q <= 0, shift(d, q) == 0)


@lemma(measure=lambda d, a, b: b - a,
       hyps=lambda d, a, b: ((d, a, b - 1),),
       props=(PROP,))
def L_const(d: TDict(INT, INT), a: INT, b: INT):
    """shift is constant over a range without keys (induction on the length of the range)"""
    return implies(a <= b and no_key_in(d, a, b), shift(d, b) == shift(d, a))


@lemma(unfold=lambda d, x, b: L_const(d, x + 1, b), props=(PROP,))
def L_after_tag(d: TDict(INT, INT), x: INT, b: INT):
    """behind an overridden tag (and before the next one) the shift contains the tag's own delta"""
    return implies(x >= 0 and b >= x + 1 and no_key_in(d, x + 1, b), shift(d, b) == shift(d, x) + d.get(x, 0))


@lemma(measure=lambda d, D, M, n, p: n,
       hyps=lambda d, D, M, n, p: ((d, D, M, n - 1, p),),
       unfold=lambda d, D, M, n, p: (L_zero(d, 0) and L_const(d, 0, bound(D, 0))
                                     and L_after_tag(d, D[n - 1][0], bound(D, n))
                                     and L_const(d, p - msum(M, n, p), D[n - 1][0])),
       props=(PROP,))
def L_key(d: TDict(INT, INT), D: TAGS, M: TAGS, n: INT, p: INT):
    """the partial sums of the code against the shift (induction on the number of tags looked at): as long as the tags start
    before p the sum is the shift at the next key; from the first tag that does not, it is the shift at p's image"""
    return implies(walk_ok(d, D, M, p) and 0 <= n <= len(M),
                   (msum(M, n, p) == shift(d, bound(D, n)) if (n == 0 or M[n - 1][0] < p)
                    else msum(M, n, p) == shift(d, p - msum(M, n, p)))
                   and all((M[k][0] < p) == (D[k][0] < p - msum(M, n, p)) for k in range(n)))


@lemma(unfold=lambda d, D, M, p: (L_key(d, D, M, len(M), p) and L_zero(d, 0) and L_zero(d, p - msum(M, len(M), p))
                                  and L_const(d, bound(D, len(D)), p - msum(M, len(M), p))),
       props=(PROP,))
def L_final(d: TDict(INT, INT), D: TAGS, M: TAGS, p: INT):
    """what the code subtracts at position p is the shift at p's image, and the image is behind exactly the tags p is behind"""
    return implies(walk_ok(d, D, M, p),
                   msum(M, len(M), p) == shift(d, p - msum(M, len(M), p))
                   and all((M[k][0] < p) == (D[k][0] < p - msum(M, len(M), p)) for k in range(len(M))))


L_key.opts = {"abstract_specs": ["shift"]}
L_final.opts = {"abstract_specs": ["shift", "msum"]}


# ------------------------------------------------------------------ the contract
@contract(KEY, PROP)
class rectify_templated_slices:
    types = {"length_deltas": TDict(INT, INT), "sliced_template": TList(TemplatedFileSlice),
             "modified_tags": TAGS, "adjusted_slices": TList(TemplatedFileSlice),
             "carried_delta": INT, "idx": INT, "d": INT, "start": INT, "stop": INT}
    ret = TList(TemplatedFileSlice)
    # on the unchanged function every obligation is discharged in about a second; the budget below only caps the cost of a
    # COLLAPSED proof (a changed function): 4 s, then 12 s, then 40 s on a busy machine, per obligation, at most 3 undecided per shard
    opts = {"abstract_specs": ["shift", "msum"], "sum_models": [msum], "max_unknown": 3, "timeout_ms": 4000}

    def requires(length_deltas, sliced_template):
        return (all(x >= 0 for x in length_deltas.keys())
                and tags_keep_order(length_deltas)
                and all(outside_stretch(length_deltas, sliced_template[i].source_slice.start)
                        and outside_stretch(length_deltas, sliced_template[i].source_slice.stop)
                        for i in range(len(sliced_template))))

    def ensures(length_deltas, sliced_template, result):
        return (len(result) == len(sliced_template)
                and all(result[i].slice_type == sliced_template[i].slice_type
                        and result[i].templated_slice == sliced_template[i].templated_slice
                        # the positions are positions of the ORIGINAL file
                        and image_of(length_deltas, sliced_template[i].source_slice.start, result[i].source_slice.start)
                        and image_of(length_deltas, sliced_template[i].source_slice.stop, result[i].source_slice.stop)
                        for i in range(len(result))))

    def inv_1(length_deltas, modified_tags, carried_delta, _i, _iter):
        return (is_items(_iter, length_deltas) and len(modified_tags) == _i
                and tags_of(modified_tags, _iter, length_deltas, _i)
                and carried_delta == (0 if _i == 0 else (shift(length_deltas, _iter[_i][0]) if _i < len(_iter) else carried_delta)))

    def hint_inv_1(length_deltas, _i, _iter):
        return (L_zero(length_deltas, 0) and L_const(length_deltas, 0, _iter[0][0])
                and L_after_tag(length_deltas, _iter[_i][0], _iter[_i + 1][0]))

    def inv_2(length_deltas, sliced_template, modified_tags, adjusted_slices, _i, _iter, _iter1):
        return (is_items(_iter1, length_deltas) and len(modified_tags) == len(_iter1)
                and tags_of(modified_tags, _iter1, length_deltas, len(_iter1))
                and _iter == sliced_template and len(adjusted_slices) == _i
                and all(adjusted_slices[i].slice_type == _iter[i].slice_type
                        and adjusted_slices[i].templated_slice == _iter[i].templated_slice
                        and image_of(length_deltas, _iter[i].source_slice.start, adjusted_slices[i].source_slice.start)
                        and image_of(length_deltas, _iter[i].source_slice.stop, adjusted_slices[i].source_slice.stop)
                        for i in range(_i)))

    def hint_inv_2(length_deltas, modified_tags, _i, _iter, _iter1):
        return (L_final(length_deltas, _iter1, modified_tags, _iter[_i].source_slice.start)
                and L_final(length_deltas, _iter1, modified_tags, _iter[_i].source_slice.stop))


# ===================================================================================================== BOUNDED (labelled; not proofs)
def _tfs():
    from sqlfluff.core.templaters.base import TemplatedFileSlice as TFS
    return TFS


class _fast_shift:
    """The native reading of `shift` recurses once per source position through Spec.__call__: too deep for CPython on real
    templates (and slow).  Inside the bounded checks below its Python body is replaced by the iterative sum, after that sum has been
    compared with the recursive text on every dict over keys {0..5} with <= 3 entries and every position -1..8 (the contract text
    itself -- requires / ensures and the other spec functions -- is evaluated unchanged)."""

    @staticmethod
    def fast(d, q):
        return sum(v for k, v in d.items() if k < q)

    def __enter__(self):
        import itertools
        self.saved = shift.fn
        for n in range(0, 4):
            for keys in itertools.combinations(range(0, 6), n):
                for vals in itertools.product((-2, 1, 3), repeat=n):
                    d = dict(zip(keys, vals))
                    for q in range(-1, 9):
                        assert self.saved(d, q) == self.fast(d, q), ("shift: recursive text and iterative sum disagree", d, q)
        shift.fn = self.fast
        return self

    def __exit__(self, *exc):
        shift.fn = self.saved
        return False


def _real_fn():
    from sqlfluff.core.templaters.jinja import JinjaTemplater
    return JinjaTemplater.__dict__["_rectify_templated_slices"].__func__


def _layout_case(layout):
    """layout = [(gap, kind, old_len, new_len)]: an ORIGINAL file as a sequence of slices (kind 't' = an overridden tag whose
    original text has old_len characters and whose replacement has new_len; other kinds keep their length), `gap` unsliced
    characters before each.  Returns (length_deltas, slices of the modified template, slices of the original file)."""
    TFS = _tfs()
    deltas, modified, original = {}, [], []
    o = m = t = 0
    for gap, kind, old_len, new_len in layout:
        o, m = o + gap, m + gap
        if kind == "t":
            deltas[o] = new_len - old_len
            modified.append(TFS("block_start", slice(m, m + new_len), slice(t, t)))
            original.append(TFS("block_start", slice(o, o + old_len), slice(t, t)))
            o, m = o + old_len, m + new_len
        else:
            modified.append(TFS(kind, slice(m, m + old_len), slice(t, t + old_len)))
            original.append(TFS(kind, slice(o, o + old_len), slice(t, t + old_len)))
            o, m, t = o + old_len, m + old_len, t + old_len
    if len(layout) % 2:
        deltas = dict(reversed(list(deltas.items())))      # the dict's insertion order is not the key order
    return deltas, modified, original


def rectify_generated_layouts(tier, seed):
    """BOUNDED: the real _rectify_templated_slices on generated layouts (an original file cut into slices, some of them overridden
    tags with other lengths; the slices also repeated / reordered, as a trace with loops does): (1) the executable contract above
    (requires => ensures), (2) the result IS the original layout, slice by slice."""
    import time
    t0 = time.time()
    with _fast_shift():
        return _rectify_generated_layouts(tier, seed, t0)


def _rectify_generated_layouts(tier, seed, t0):
    import itertools
    import random
    import time
    c = rectify_templated_slices
    fn = _real_fn()
    rng = random.Random(f"c07-rectify-{seed}")
    plain = [(g, "literal", n, n) for g in (0, 1) for n in (0, 1, 3)]
    tags = [(g, "t", o, n) for g in (0, 2) for o, n in ((1, 1), (1, 4), (5, 2), (2, 3), (9, 4), (3, 11))]
    pieces = plain + tags
    max_exact = 4 if tier == "thorough" else 3
    n_random = 40000 if tier == "thorough" else 1500
    stats = {"evaluations": 0, "admissible": 0, "with_two_or_more_tags": 0, "reordered_or_partial": 0, "pre_false": 0}
    fails = {}

    def one(layout, order=None):
        deltas, modified, original = _layout_case(layout)
        if order is not None:
            # the trace of a variant need not visit the slices once and in order (loops), nor reach every modified tag
            modified, original = [modified[k] for k in order], [original[k] for k in order]
            stats["reordered_or_partial"] += 1
        stats["evaluations"] += 1
        try:
            pre = bool(c.requires(deltas, modified))
        except Exception:
            pre = False
        if not pre:
            stats["pre_false"] += 1
            return
        stats["admissible"] += 1
        stats["with_two_or_more_tags"] += len(deltas) >= 2
        try:
            res = fn(dict(deltas), list(modified))
        except Exception as e:
            res, err = None, repr(e)
        bad = []
        if res is None:
            bad.append(("no-raise", err))
        else:
            try:
                if not c.ensures(deltas, modified, res):
                    bad.append(("native-contract", "ensures is false"))
            except Exception as e:
                bad.append(("native-contract", f"ensures raised {e!r}"))
            if list(res) != original:
                bad.append(("original-layout-recovered", "result differs from the layout the case was generated from"))
        for cname, why in bad:
            fid = f"C07/rectify/generated-layouts/{cname}"
            cur = fails.get(fid)
            if cur is None or len(layout) < len(cur["layout"]):
                fails[fid] = {"layout": layout, "order": order, "why": why, "length_deltas": deltas,
                              "sliced_template": [(x.slice_type, x.source_slice.start, x.source_slice.stop) for x in modified],
                              "result": None if res is None else [(x.source_slice.start, x.source_slice.stop) for x in res],
                              "expected": [(x.source_slice.start, x.source_slice.stop) for x in original]}
    for n in range(0, max_exact + 1):
        for layout in itertools.product(pieces, repeat=n):
            one(layout)
            if n >= 2:
                one(layout, list(range(n - 1, -1, -1)))              # backwards
                one(layout, [0] + list(range(2, n)) + [1, 0])        # slice 1 moved, slice 0 revisited
                one(layout, list(range(1, n)))                       # the first slice (maybe a modified tag) never reached
    for _ in range(n_random):
        lay = tuple(rng.choice(pieces) if rng.random() < 0.6 else
                    (rng.choice((0, 0, 1, 5)), rng.choice(("literal", "templated", "t", "t")), rng.randint(1, 30), rng.randint(1, 30))
                    for _ in range(rng.randint(max_exact + 1, 9)))
        one(lay, None if rng.random() < 0.5 else [rng.randrange(len(lay)) for _ in range(rng.randint(0, 12))])
    failed = [{"name": fid, "id": fid, "kind": "bounded", "status": "failed", "function": KEY, "detail": d, "reproduced": True}
              for fid, d in sorted(fails.items())]
    return dict({"name": "rectify-generated-layouts",
                 "bound": f"all layouts of <= {max_exact} pieces over {len(pieces)} pieces (literal slices of length 0/1/3, overridden tags with "
                          f"(old, new) lengths (1,1) (1,4) (5,2) (2,3) (9,4) (3,11), gaps 0/1/2), each in order and in 3 other orders "
                          f"(backwards, with a revisit, without the first slice) + {n_random} seeded layouts of up to 9 pieces, half of "
                          "them as a random sequence of up to 12 of their slices",
                 "rule": "one evaluation = one call of the real function on a generated (length_deltas, sliced_template); judged by the "
                         "executable contract of contracts/c07_rectify.py and by equality with the original layout; cases that do not "
                         "satisfy `requires` are counted in pre_false and not judged",
                 "distinct_nontrivial": stats["with_two_or_more_tags"], "samples": [], "failed": failed,
                 "wall_s": round(time.time() - t0, 2)}, **stats)


def _nested_if_templates():
    """loop-free templates whose uncovered literals need one, two or three overridden if / elif tags (conditions of varied length:
    the length deltas have both signs)"""
    conds = ["flag_t", "flag_f", "y > 3", "this_is_a_rather_long_flag_name_t", "not this_is_a_rather_long_flag_name_f and y > 3", "undef"]
    for a in conds:
        for b in conds:
            yield "{% if " + a + " %}a{% else %}{% if " + b + " %}b{% else %}c{% endif %}{% endif %}\n"
            yield "select {% if " + a + " %}a{% elif " + b + " %}b{% else %}c{% endif %} from t\n"
            yield "{% if " + a + " %}{% if " + b + " %}p{% else %}q{% endif %}{% else %}r {{ x }}{% endif %}"
            yield "{%- if " + a + " -%} a {%- elif " + b + " -%} b {%- elif flag_t -%} c {%- else -%} d {%- endif -%}"
            for c3 in conds[:4]:
                yield ("{% if " + a + " %}1{% else %}{% if " + b + " %}2{% else %}{% if " + c3 + " %}3{% else %}4{% endif %}{% endif %}{% endif %} "
                       "{% if " + c3 + " %}x{% else %}y{% endif %}\n")
    # an EMPTY if-body in front of the else / elif branch that holds the uncovered code (the tracer's two ways out of the `if` tag
    # then coincide)
    for a in conds[:4]:
        for b in conds[:4]:
            yield "{% if " + a + " %}{% else %}{% if " + b + " %}A{% endif %}{% endif %}x\n"
            yield "{% if " + a + " %}{% elif " + b + " %}{% if flag_f %}A{% else %}B{% endif %}{% endif %}from t\n"


def rectify_call_sites(tier, seed):
    """BOUNDED: every REAL call of _rectify_templated_slices made by JinjaTemplater.process_with_variants over generated templates
    (a spy on the real function), with and without `for` loops: the call must satisfy `requires` (so the theorem above applies to it)
    and `ensures`; every variant of every template must satisfy contracts.c07.valid."""
    import time
    t0 = time.time()
    with _fast_shift():
        return _rectify_call_sites(tier, seed, t0)


def _rectify_call_sites(tier, seed, t0):
    import random
    import time
    from . import c07_bounded as B
    from sqlfluff.core.templaters.jinja import JinjaTemplater
    c = rectify_templated_slices
    real = JinjaTemplater.__dict__["_rectify_templated_slices"]
    fn = real.__func__
    calls = []
    cur = [None]

    def spy(length_deltas, sliced_template):
        d0, s0 = dict(length_deltas), list(sliced_template)
        try:
            res = fn(length_deltas, sliced_template)
        except Exception as e:
            calls.append((cur[0], d0, s0, None, repr(e)))
            raise
        calls.append((cur[0], d0, s0, list(res), None))
        return res
    rng = random.Random(f"c07-rectify-calls-{seed}")
    n_random = 6000 if tier == "thorough" else 500
    templates = list(_nested_if_templates()) + list(B.jinja_core_templates())
    templates += [B.jinja_template(rng, max_depth=3 if k % 2 else 2) for k in range(n_random)]
    cfg = B._cfg()
    tpl = JinjaTemplater(override_context=dict(B.JINJA_CONTEXT))
    not_rendered = 0
    invalid, n_variants_judged = {}, [0]
    JinjaTemplater._rectify_templated_slices = staticmethod(spy)
    try:
        for s in dict.fromkeys(templates):
            cur[0] = s
            try:
                variants = list(tpl.process_with_variants(in_str=s, fname="<c07-rectify>", config=cfg))
            except Exception:
                not_rendered += 1
                continue
            # the property itself (contracts.c07.valid, by conjunct) on every variant of every template of this run
            for vi, (tf, _errs) in enumerate(variants):
                if tf is None:
                    continue
                n_variants_judged[0] += 1
                for cname, holds in B.conjuncts(tf):
                    if not holds:
                        fid = f"C07/rectify/call-site/valid[{cname}]"
                        curv = invalid.get(fid)
                        if curv is None or (len(s), s) < (len(curv["witness"]), curv["witness"]):
                            invalid[fid] = dict({"witness": s, "variant": vi, "n_variants": len(variants), "conjunct": cname},
                                                **B._describe(tpl, cfg, s, cname))
    finally:
        JinjaTemplater._rectify_templated_slices = real
    stats = {"calls": len(calls), "calls_of_templates_with_loops": 0, "two_or_more_deltas": 0, "slices_not_in_source_order": 0}
    fails = {}

    def fail(fid, template, d, sl, res, why):
        curf = fails.get(fid)
        if curf is None or (len(template), template) < (len(curf["template"]), curf["template"]):
            fails[fid] = {"template": template, "why": why, "length_deltas": d,
                          "sliced_template": [(x.slice_type, x.source_slice.start, x.source_slice.stop) for x in sl],
                          "result": None if res is None else [(x.source_slice.start, x.source_slice.stop) for x in res]}
    for template, d, sl, res, err in calls:
        stats["calls_of_templates_with_loops"] += B.has_loop(template)
        stats["two_or_more_deltas"] += len(d) >= 2
        stats["slices_not_in_source_order"] += any(sl[k].source_slice.stop > sl[k + 1].source_slice.start for k in range(len(sl) - 1))
        try:
            pre = bool(c.requires(d, sl))
        except Exception:
            pre = False
        if not pre:
            # which clause of `requires` fails (so that one registered class cannot hide another)
            if not all(k >= 0 for k in d):
                why = "negative-key"
            elif not tags_keep_order(d):
                why = "tags-out-of-order"
            else:
                why = "boundary-inside-modified-tag"
            fail(f"C07/rectify/call-site/requires[{why}]", template, d, sl, res,
                 "a real call does not satisfy the precondition under which _rectify_templated_slices is proved")
            continue
        if res is None:
            fail("C07/rectify/call-site/no-raise", template, d, sl, res, err)
            continue
        try:
            ok, why = bool(c.ensures(d, sl, res)), "ensures is false on a real call that satisfies requires"
        except Exception as e:
            ok, why = False, f"ensures raised {e!r}"
        if not ok:
            fail("C07/rectify/call-site/ensures", template, d, sl, res, why)
    fails.update(invalid)
    failed = [{"name": fid, "id": fid, "kind": "bounded", "status": "failed", "function": KEY, "detail": dd, "reproduced": True}
              for fid, dd in sorted(fails.items())]
    n_tpl = len(dict.fromkeys(templates))
    return dict({"name": "rectify-call-sites",
                 "bound": f"{n_tpl} templates: nested / chained if-elif-else over 6 conditions (1-3 overridden tags, deltas of both signs, "
                          f"empty if-bodies), the deterministic core of contracts/c07_bounded.py and {n_random} seeded templates of its "
                          "grammar (depth 2-3; `for` loops included)",
                 "rule": "one evaluation = one real call of JinjaTemplater._rectify_templated_slices observed during "
                         "process_with_variants: requires and ensures of contracts/c07_rectify.py must hold; every variant of every "
                         "template must satisfy contracts.c07.valid",
                 "evaluations": len(calls), "distinct_nontrivial": stats["two_or_more_deltas"], "templates": n_tpl,
                 "templates_not_rendered": not_rendered, "variants_judged_by_valid": n_variants_judged[0],
                 "samples": [], "failed": failed, "wall_s": round(time.time() - t0, 2)}, **stats)


_F = "sqlfluff/core/templaters/jinja.py"
MUTANTS = [
    # the essence of the retired seeded change C07_A: a delta key (ORIGINAL coordinates) used as a position of the MODIFIED template
    ("rectify_positional_match", _F, "            modified_tags.append((idx + carried_delta, d))", "            modified_tags.append((idx, d))"),
    ("rectify_wrong_sign", _F, "                        stop - sum(d for pos, d in modified_tags if pos < stop),",
     "                        stop + sum(d for pos, d in modified_tags if pos < stop),"),
    ("rectify_le_instead_of_lt", _F, "                        start - sum(d for pos, d in modified_tags if pos < start),",
     "                        start - sum(d for pos, d in modified_tags if pos <= start),"),
    ("rectify_stop_shifted_like_start", _F, "                        stop - sum(d for pos, d in modified_tags if pos < stop),",
     "                        stop - sum(d for pos, d in modified_tags if pos < start),"),
    ("rectify_filter_dropped", _F, "                        stop - sum(d for pos, d in modified_tags if pos < stop),",
     "                        stop - sum(d for pos, d in modified_tags),"),
    ("rectify_deltas_not_sorted", _F, "        for idx, d in sorted(length_deltas.items(), key=lambda t: t[0]):", "        for idx, d in list(length_deltas.items()):"),
    ("rectify_carried_not_accumulated", _F, "            carried_delta += d\n", "            carried_delta = d\n"),
    ("rectify_carried_wrong_sign", _F, "            carried_delta += d\n", "            carried_delta -= d\n"),
    ("rectify_templated_slice_lost", _F, "                tfs._replace(\n                    source_slice=slice(\n                        start - sum(",
     "                tfs._replace(\n                    templated_slice=slice(tfs.templated_slice.start, tfs.templated_slice.start),\n"
     "                    source_slice=slice(\n                        start - sum("),
]

TRUSTED = [
    "builtins.sorted(list, key) (stable permutation ordered by key) and dict.items() (an enumeration of the dict without repetition, "
    "order not modelled): assumed engine models",
    "the precondition of _rectify_templated_slices (keys >= 0; modified tags keep the order of the original ones; no slice boundary in "
    "the part (m, m + delta] of a modified tag) is NOT proved of the caller _handle_unreached_code / JinjaTracer: it is checked on every "
    "real call made over the bounded template grammar (BOUNDED rectify-call-sites: holds on every observed call, loops included)",
]
NOT_COVERED = [
    "JinjaTemplater._handle_unreached_code itself (deep copies of tracers, jinja rendering, the choice of the constants that override "
    "the if / elif tags): bounded only",
]

BOUNDED = [rectify_generated_layouts, rectify_call_sites]
SHARDS = {KEY: 4}        # the function's obligations are solved by 4 workers

if __name__ == "__main__":
    import json
    import sys
    for f in BOUNDED:
        r = f(sys.argv[1] if len(sys.argv) > 1 else "quick", 0)
        print(json.dumps({k: v for k, v in r.items() if k != "failed"}, default=str)[:1500])
        for x in r["failed"]:
            print("FAILED", json.dumps(x, default=str)[:1500])
