"""C07 -- JinjaTemplater._rectify_templated_slices under a pyvc contract (imported by contracts/c07.py).

The unreached-code variants of the jinja templater are rendered from a MODIFIED template (some `{% if .. %}` / `{% elif .. %}`
tags replaced by `{% if True %}` / `{% if False %}`), so the source positions of their slices are positions in the modified
template.  `_rectify_templated_slices(length_deltas, sliced_template)` maps them back: the property demands that every source
slice of every variant is a slice of the ORIGINAL file (lies within it, literal text identical).

Specification (from the property text and the function's docstring, not from its body):
    length_deltas = {idx: new_len - old_len} keyed by the ORIGINAL source index of each overridden tag.
    shift(d, q)   = total length change of the overridden tags that start strictly before original position q.
    The original position q corresponds to the modified position q + shift(d, q).
    result[i] keeps slice_type and templated_slice; its source_slice (a, b) satisfies
        a + shift(d, a) == input[i].source_slice.start      b + shift(d, b) == input[i].source_slice.stop
    (for a slice that IS an overridden tag, b is the end of the original tag: shift(d, b) already contains the tag's own delta),
    slices stay ordered, keep their length unless they are an overridden tag (then the length changes by -delta), gaps keep their size.
"""
from pyvc.dsl import contract, spec, lemma, implies
from pyvc.ty import INT, BOOL, TList, TTuple, TDict

from .types import TemplatedFileSlice

PROP = "C07"
KEY = "sqlfluff.core.templaters.jinja:JinjaTemplater._rectify_templated_slices"


# ------------------------------------------------------------------ specification vocabulary
@spec(recursive=True)
def shift(d: TDict(INT, INT), q: INT) -> INT:
    """total length change (new - old) of the overridden tags whose ORIGINAL start index is < q (keys are >= 0)"""
    return 0 if q <= 0 else shift(d, q - 1) + d.get(q - 1, 0)


@spec
def no_key_in(d, a, b):
    """no overridden tag starts in the original range [a, b)"""
    return all(not (x in d) for x in range(a, b))


@spec
def ordered(sf):
    """source slices are well-formed and in order (pairwise, not only adjacent)"""
    return (all(sf[i].source_slice.start <= sf[i].source_slice.stop for i in range(len(sf)))
            and all(sf[i].source_slice.stop <= sf[j].source_slice.start for i in range(len(sf)) for j in range(i + 1, len(sf))))


@spec
def gaps_kept(rs, sf, n):
    """the gap between consecutive slices (0 when they are contiguous) is the same in both lists, for the first n slices
    (written over pairs (i, j = i + 1): no `i + 1` index term, which would make the quantifier instantiate itself for ever)"""
    return all(implies(j == i + 1, rs[j].source_slice.start - rs[i].source_slice.stop
                       == sf[j].source_slice.start - sf[i].source_slice.stop)
               for i in range(n) for j in range(i + 1, n))


@spec
def tag_hit(d, sf, x, i):
    """slice i of the modified template IS the overridden tag whose original index is x: it starts at the tag's modified position,
    the new tag and the original tag are not empty, and no other overridden tag starts inside the original tag"""
    return (sf[i].source_slice.start == x + shift(d, x)
            and sf[i].source_slice.stop - sf[i].source_slice.start >= 1
            and sf[i].source_slice.stop - sf[i].source_slice.start - d.get(x, 0) >= 1
            and no_key_in(d, x + 1, x + sf[i].source_slice.stop - sf[i].source_slice.start - d.get(x, 0)))


@spec
def every_tag_hit_once(d, sf) -> BOOL:
    """what the caller establishes for a template without loops: each overridden tag is one slice of the modified template's trace,
    and nothing else (no zero-length slice) starts at the tag's position"""
    return (all(any(tag_hit(d, sf, x, i) for i in range(len(sf))) for x in d.keys())
            and all(implies(sf[j].source_slice.start == x + shift(d, x), sf[j].source_slice.stop > sf[j].source_slice.start)
                    for x in d.keys() for j in range(len(sf))))


# NOTE on the proof: `every_tag_hit_once` quantifies over the keys of the dict and mentions shift(d, key).  Next to the recursive
# definition of `shift` this feeds z3's instantiation for ever (each unfolding of `shift` tests membership of one more position,
# which instantiates the precondition at that position, which mentions `shift` again), and left open among the hypotheses of the
# loop body it makes even the trivial ordering obligations unstable.  So the verification conditions of the FUNCTION see both
# `shift` and `every_tag_hit_once` as UNINTERPRETED symbols (opts abstract_specs; no axiom is assumed about them): every fact
# about them comes from an instance of one of the lemmas below, which are proved against the definitions (L_next_tag opens the
# precondition and uses L_const for `shift`).
# ------------------------------------------------------------------ lemmas
@lemma(props=(PROP,))
def L_zero(d: TDict(INT, INT), q: INT):
    return implies(q <= 0, shift(d, q) == 0)


@lemma(measure=lambda d, a, b: b - a,
       hyps=lambda d, a, b: ((d, a, b - 1),),
       props=(PROP,))
def L_const(d: TDict(INT, INT), a: INT, b: INT):
    """shift is constant over a range without keys (induction on the length of the range)"""
    return implies(a <= b and no_key_in(d, a, b), shift(d, b) == shift(d, a))


@lemma(unfold=lambda d, x, b: L_const(d, x + 1, b), props=(PROP,))
def L_after_tag(d: TDict(INT, INT), x: INT, b: INT):
    """behind an overridden tag (and before the next one) the shift contains the tag's own delta"""
    return implies(x >= 0 and b >= x + 1 and no_key_in(d, x + 1, b), shift(d, b) == shift(d, x) + d.get(x, 0))


@lemma(unfold=lambda d, sf, i, c, cur, x: L_const(d, cur, x), props=(PROP,))
def L_next_tag(d: TDict(INT, INT), sf: TList(TemplatedFileSlice), i: INT, c: INT, cur: INT, x: INT):
    """the walk is in step with the tags: slices 0..i-1 are done, `cur` is the original position reached, c = -shift(d, cur) the
    carried delta, x the first overridden tag at or behind cur.  Then the next slice does not start behind x (in original
    coordinates), and either it IS the tag x or it ends before x."""
    return implies(all(k >= 0 for k in d.keys()) and ordered(sf) and every_tag_hit_once(d, sf)
                   and 0 <= i < len(sf) and cur == (0 if i == 0 else sf[i - 1].source_slice.stop + c)
                   and c == 0 - shift(d, cur) and x in d and x >= cur and no_key_in(d, cur, x),
                   x >= sf[i].source_slice.start + c
                   and (tag_hit(d, sf, x, i) if x == sf[i].source_slice.start + c else x >= sf[i].source_slice.stop + c))


L_next_tag.opts = {"abstract_specs": ["shift"]}     # needs L_const(d, cur, x) only (given by `unfold`), not the definition


# ------------------------------------------------------------------ the contract
@contract(KEY, PROP)
class rectify_templated_slices:
    types = {"length_deltas": TDict(INT, INT), "sliced_template": TList(TemplatedFileSlice),
             "delta_stack": TList(TTuple(INT, INT)), "adjusted_slices": TList(TemplatedFileSlice),
             "carried_delta": INT, "idx": INT, "d": INT}
    ret = TList(TemplatedFileSlice)
    # on the unchanged function every obligation is discharged in well under a second; the budget below only caps the cost of a
    # COLLAPSED proof (a changed function): 4 s, then 12 s, then 40 s on a busy machine, per obligation, at most 3 undecided per shard
    opts = {"abstract_specs": ["shift", "every_tag_hit_once"], "max_unknown": 3, "timeout_ms": 4000}

    def requires(length_deltas, sliced_template):
        return (all(x >= 0 for x in length_deltas.keys())
                and ordered(sliced_template)
                and all(sliced_template[i].source_slice.start >= 0 for i in range(len(sliced_template)))
                and every_tag_hit_once(length_deltas, sliced_template))

    def ensures(length_deltas, sliced_template, result):
        return (len(result) == len(sliced_template)
                and all(result[i].slice_type == sliced_template[i].slice_type
                        and result[i].templated_slice == sliced_template[i].templated_slice
                        # the positions are positions of the ORIGINAL file
                        and result[i].source_slice.start + shift(length_deltas, result[i].source_slice.start)
                        == sliced_template[i].source_slice.start
                        and result[i].source_slice.stop + shift(length_deltas, result[i].source_slice.stop)
                        == sliced_template[i].source_slice.stop
                        # an overridden tag gets its original length back; every other slice keeps its length
                        and (result[i].source_slice.stop - result[i].source_slice.start
                             == sliced_template[i].source_slice.stop - sliced_template[i].source_slice.start
                             - length_deltas.get(result[i].source_slice.start, 0))
                        for i in range(len(result)))
                and ordered(result)
                # gaps between consecutive slices keep their size (contiguity is preserved)
                and gaps_kept(result, sliced_template, len(result)))

    def inv_1(length_deltas, sliced_template, delta_stack, adjusted_slices, carried_delta, _i, _iter):
        cur = 0 if _i == 0 else _iter[_i - 1].source_slice.stop + carried_delta
        n = len(delta_stack)
        return (_iter == sliced_template and len(adjusted_slices) == _i
                and carried_delta == (0 if _i == 0 else 0 - shift(length_deltas, cur))
                # the stack: items of the dict, strictly increasing keys
                and all(delta_stack[a][0] in length_deltas and length_deltas.get(delta_stack[a][0], 0) == delta_stack[a][1]
                        for a in range(n))
                and all(delta_stack[a][0] < delta_stack[b][0] for a in range(n) for b in range(a + 1, n))
                # every key of the dict at or after the current original position is on the stack
                and implies(n > 0, delta_stack[0][0] >= cur)
                and all(x < cur or (n > 0 and x >= delta_stack[0][0]) for x in length_deltas.keys())
                and all(implies(b == a + 1, not (delta_stack[a][0] < x < delta_stack[b][0]))
                        for x in length_deltas.keys() for a in range(n) for b in range(a + 1, n))
                and all(implies(n > 0, x <= delta_stack[n - 1][0]) for x in length_deltas.keys())
                # the postcondition for the slices processed so far
                and implies(_i > 0, adjusted_slices[_i - 1].source_slice.stop == cur)
                and all(adjusted_slices[i].slice_type == _iter[i].slice_type
                        and adjusted_slices[i].templated_slice == _iter[i].templated_slice
                        and adjusted_slices[i].source_slice.start + shift(length_deltas, adjusted_slices[i].source_slice.start)
                        == _iter[i].source_slice.start
                        and adjusted_slices[i].source_slice.stop + shift(length_deltas, adjusted_slices[i].source_slice.stop)
                        == _iter[i].source_slice.stop
                        and (adjusted_slices[i].source_slice.stop - adjusted_slices[i].source_slice.start
                             == _iter[i].source_slice.stop - _iter[i].source_slice.start
                             - length_deltas.get(adjusted_slices[i].source_slice.start, 0))
                        for i in range(_i))
                and ordered(adjusted_slices)
                and gaps_kept(adjusted_slices, _iter, _i))

    def hint_inv_1(length_deltas, delta_stack, carried_delta, _i, _iter):
        """lemma instances at the loop head (cur = the original position reached): shift is constant from cur to the start and to
        the stop of the next slice when no tag starts there; the next tag on the stack against the next slice; the shift behind it"""
        return (L_zero(length_deltas, 0)
                and L_const(length_deltas, (0 if _i == 0 else _iter[_i - 1].source_slice.stop + carried_delta),
                            _iter[_i].source_slice.start + carried_delta)
                and L_const(length_deltas, (0 if _i == 0 else _iter[_i - 1].source_slice.stop + carried_delta),
                            _iter[_i].source_slice.stop + carried_delta)
                and implies(len(delta_stack) > 0,
                            L_next_tag(length_deltas, _iter, _i, carried_delta,
                                       (0 if _i == 0 else _iter[_i - 1].source_slice.stop + carried_delta), delta_stack[0][0]))
                and implies(len(delta_stack) > 0,
                            L_after_tag(length_deltas, delta_stack[0][0],
                                        _iter[_i].source_slice.stop + carried_delta - delta_stack[0][1])))


# ===================================================================================================== BOUNDED (labelled; not proofs)
def _tfs():
    from sqlfluff.core.templaters.base import TemplatedFileSlice as TFS
    return TFS


class _fast_shift:
    """The native reading of `shift` recurses once per source position through Spec.__call__: too deep for CPython on real
    templates (and slow).  Inside the bounded checks below its Python body is replaced by the iterative sum, after that sum has been
    compared with the recursive text on every dict over keys {0..5} with <= 3 entries and every position -1..8 (the contract text
    itself -- requires / ensures and the other spec functions -- is evaluated unchanged)."""

    @staticmethod
    def fast(d, q):
        return sum(v for k, v in d.items() if k < q)

    def __enter__(self):
        import itertools
        self.saved = shift.fn
        for n in range(0, 4):
            for keys in itertools.combinations(range(0, 6), n):
                for vals in itertools.product((-2, 1, 3), repeat=n):
                    d = dict(zip(keys, vals))
                    for q in range(-1, 9):
                        assert self.saved(d, q) == self.fast(d, q), ("shift: recursive text and iterative sum disagree", d, q)
        shift.fn = self.fast
        return self

    def __exit__(self, *exc):
        shift.fn = self.saved
        return False


def _real_fn():
    from sqlfluff.core.templaters.jinja import JinjaTemplater
    return JinjaTemplater.__dict__["_rectify_templated_slices"].__func__


def _layout_case(layout):
    """layout = [(gap, kind, old_len, new_len)]: an ORIGINAL file as a sequence of slices (kind 't' = an overridden tag whose
    original text has old_len characters and whose replacement has new_len; other kinds keep their length), `gap` unsliced
    characters before each.  Returns (length_deltas, slices of the modified template, slices of the original file)."""
    TFS = _tfs()
    deltas, modified, original = {}, [], []
    o = m = t = 0
    for gap, kind, old_len, new_len in layout:
        o, m = o + gap, m + gap
        if kind == "t":
            deltas[o] = new_len - old_len
            modified.append(TFS("block_start", slice(m, m + new_len), slice(t, t)))
            original.append(TFS("block_start", slice(o, o + old_len), slice(t, t)))
            o, m = o + old_len, m + new_len
        else:
            modified.append(TFS(kind, slice(m, m + old_len), slice(t, t + old_len)))
            original.append(TFS(kind, slice(o, o + old_len), slice(t, t + old_len)))
            o, m, t = o + old_len, m + old_len, t + old_len
    if len(layout) % 2:
        deltas = dict(reversed(list(deltas.items())))      # the dict's insertion order is not the key order
    return deltas, modified, original


def rectify_generated_layouts(tier, seed):
    """BOUNDED: the real _rectify_templated_slices on generated layouts (an original file cut into slices, some of them overridden
    tags with other lengths): (1) the executable contract above (requires => ensures), (2) the result IS the original layout."""
    import itertools
    import random
    import time
    t0 = time.time()
    with _fast_shift():
        return _rectify_generated_layouts(tier, seed, t0)


def _rectify_generated_layouts(tier, seed, t0):
    import itertools
    import random
    import time
    c = rectify_templated_slices
    fn = _real_fn()
    rng = random.Random(f"c07-rectify-{seed}")
    plain = [(g, "literal", n, n) for g in (0, 1) for n in (0, 1, 3)]
    tags = [(g, "t", o, n) for g in (0, 2) for o, n in ((1, 1), (1, 4), (5, 2), (2, 3), (9, 4), (3, 11))]
    pieces = plain + tags
    max_exact = 4 if tier == "thorough" else 3
    n_random = 40000 if tier == "thorough" else 1500
    stats = {"evaluations": 0, "admissible": 0, "with_two_or_more_tags": 0, "pre_false": 0}
    fails = {}

    def one(layout):
        deltas, modified, original = _layout_case(layout)
        stats["evaluations"] += 1
        try:
            pre = bool(c.requires(deltas, modified))
        except Exception:
            pre = False
        if not pre:
            stats["pre_false"] += 1     # e.g. a zero-length slice right at a tag's position
            return
        stats["admissible"] += 1
        stats["with_two_or_more_tags"] += len(deltas) >= 2
        try:
            res = fn(dict(deltas), list(modified))
        except Exception as e:
            res, err = None, repr(e)
        bad = []
        if res is None:
            bad.append(("no-raise", err))
        else:
            try:
                if not c.ensures(deltas, modified, res):
                    bad.append(("native-contract", "ensures is false"))
            except Exception as e:
                bad.append(("native-contract", f"ensures raised {e!r}"))
            if list(res) != original:
                bad.append(("original-layout-recovered", "result differs from the layout the case was generated from"))
        for cname, why in bad:
            fid = f"C07/rectify/generated-layouts/{cname}"
            cur = fails.get(fid)
            if cur is None or len(layout) < len(cur["layout"]):
                fails[fid] = {"layout": layout, "why": why, "length_deltas": deltas,
                              "sliced_template": [(x.slice_type, x.source_slice.start, x.source_slice.stop) for x in modified],
                              "result": None if res is None else [(x.source_slice.start, x.source_slice.stop) for x in res],
                              "expected": [(x.source_slice.start, x.source_slice.stop) for x in original]}
    for n in range(0, max_exact + 1):
        for layout in itertools.product(pieces, repeat=n):
            one(layout)
    for _ in range(n_random):
        one(tuple(rng.choice(pieces) if rng.random() < 0.6 else
                  (rng.choice((0, 0, 1, 5)), rng.choice(("literal", "templated", "t", "t")), rng.randint(1, 30), rng.randint(1, 30))
                  for _ in range(rng.randint(max_exact + 1, 9))))
    failed = [{"name": fid, "id": fid, "kind": "bounded", "status": "failed", "function": KEY, "detail": d, "reproduced": True}
              for fid, d in sorted(fails.items())]
    return dict({"name": "rectify-generated-layouts",
                 "bound": f"all layouts of <= {max_exact} pieces over {len(pieces)} pieces (literal slices of length 0/1/3, overridden tags with "
                          f"(old, new) lengths (1,1) (1,4) (5,2) (2,3) (9,4) (3,11), gaps 0/1/2) + {n_random} seeded layouts of up to 9 pieces",
                 "rule": "one evaluation = one call of the real function on a generated (length_deltas, sliced_template); judged by the "
                         "executable contract of contracts/c07_rectify.py and by equality with the original layout; layouts that do not "
                         "satisfy `requires` (a zero-length slice at a tag's position) are counted in pre_false and not judged",
                 "distinct_nontrivial": stats["with_two_or_more_tags"], "samples": [], "failed": failed,
                 "wall_s": round(time.time() - t0, 2)}, **stats)


def _nested_if_templates():
    """loop-free templates whose uncovered literals need one, two or three overridden if / elif tags (conditions of varied length:
    the length deltas have both signs)"""
    conds = ["flag_t", "flag_f", "y > 3", "this_is_a_rather_long_flag_name_t", "not this_is_a_rather_long_flag_name_f and y > 3", "undef"]
    for a in conds:
        for b in conds:
            yield "{% if " + a + " %}a{% else %}{% if " + b + " %}b{% else %}c{% endif %}{% endif %}\n"
            yield "select {% if " + a + " %}a{% elif " + b + " %}b{% else %}c{% endif %} from t\n"
            yield "{% if " + a + " %}{% if " + b + " %}p{% else %}q{% endif %}{% else %}r {{ x }}{% endif %}"
            yield "{%- if " + a + " -%} a {%- elif " + b + " -%} b {%- elif flag_t -%} c {%- else -%} d {%- endif -%}"
            for c3 in conds[:4]:
                yield ("{% if " + a + " %}1{% else %}{% if " + b + " %}2{% else %}{% if " + c3 + " %}3{% else %}4{% endif %}{% endif %}{% endif %} "
                       "{% if " + c3 + " %}x{% else %}y{% endif %}\n")
    # an EMPTY if-body in front of the else / elif branch that holds the uncovered code (the tracer's two ways out of the `if` tag
    # then coincide)
    for a in conds[:4]:
        for b in conds[:4]:
            yield "{% if " + a + " %}{% else %}{% if " + b + " %}A{% endif %}{% endif %}x\n"
            yield "{% if " + a + " %}{% elif " + b + " %}{% if flag_f %}A{% else %}B{% endif %}{% endif %}from t\n"


def rectify_call_sites(tier, seed):
    """BOUNDED: every REAL call of _rectify_templated_slices made by JinjaTemplater.process_with_variants over generated templates
    (a spy on the real function): for templates WITHOUT a `for` loop the call must satisfy `requires` (so the theorem above applies
    to it) and `ensures`; for templates with loops the fraction of calls that satisfy `requires` is reported (they revisit slices:
    the known finding C07/jinja/valid[literal-text-equal])."""
    import random
    import time
    from . import c07_bounded as B
    from sqlfluff.core.templaters.jinja import JinjaTemplater
    t0 = time.time()
    with _fast_shift():
        return _rectify_call_sites(tier, seed, t0)


def _rectify_call_sites(tier, seed, t0):
    import random
    import time
    from . import c07_bounded as B
    from sqlfluff.core.templaters.jinja import JinjaTemplater
    c = rectify_templated_slices
    real = JinjaTemplater.__dict__["_rectify_templated_slices"]
    fn = real.__func__
    calls = []
    cur = [None]

    def spy(length_deltas, sliced_template):
        d0, s0 = dict(length_deltas), list(sliced_template)
        try:
            res = fn(length_deltas, sliced_template)
        except Exception as e:
            calls.append((cur[0], d0, s0, None, repr(e)))
            raise
        calls.append((cur[0], d0, s0, list(res), None))
        return res
    rng = random.Random(f"c07-rectify-calls-{seed}")
    n_random = 6000 if tier == "thorough" else 500
    templates = list(_nested_if_templates()) + list(B.jinja_core_templates())
    templates += [B.jinja_template(rng, max_depth=3 if k % 2 else 2) for k in range(n_random)]
    cfg = B._cfg()
    tpl = JinjaTemplater(override_context=dict(B.JINJA_CONTEXT))
    not_rendered = 0
    invalid, n_variants_judged = {}, [0]
    JinjaTemplater._rectify_templated_slices = staticmethod(spy)
    try:
        for s in dict.fromkeys(templates):
            cur[0] = s
            try:
                variants = list(tpl.process_with_variants(in_str=s, fname="<c07-rectify>", config=cfg))
            except Exception:
                not_rendered += 1
                continue
            if not B.has_loop(s):
                # the property itself (contracts.c07.valid, by conjunct) on every variant of a loop-free template of this run
                for vi, (tf, _errs) in enumerate(variants):
                    if tf is None:
                        continue
                    n_variants_judged[0] += 1
                    for cname, holds in B.conjuncts(tf):
                        if not holds:
                            fid = f"C07/rectify/call-site/valid[{cname}][template-without-loop]"
                            curv = invalid.get(fid)
                            if curv is None or (len(s), s) < (len(curv["witness"]), curv["witness"]):
                                invalid[fid] = dict({"witness": s, "variant": vi, "n_variants": len(variants), "conjunct": cname},
                                                    **B._describe(tpl, cfg, s, cname))
    finally:
        JinjaTemplater._rectify_templated_slices = real
    stats = {"without-loop": {"calls": 0, "requires_holds": 0, "two_or_more_deltas": 0},
             "with-loop": {"calls": 0, "requires_holds": 0, "two_or_more_deltas": 0}}
    fails, classes = {}, {}

    def fail(fid, template, d, sl, res, why):
        curf = fails.get(fid)
        if curf is None or (len(template), template) < (len(curf["template"]), curf["template"]):
            fails[fid] = {"template": template, "why": why, "length_deltas": d,
                          "sliced_template": [(x.slice_type, x.source_slice.start, x.source_slice.stop) for x in sl],
                          "result": None if res is None else [(x.source_slice.start, x.source_slice.stop) for x in res]}
    for template, d, sl, res, err in calls:
        part = "with-loop" if B.has_loop(template) else "without-loop"
        st = stats[part]
        st["calls"] += 1
        st["two_or_more_deltas"] += len(d) >= 2
        try:
            pre = bool(c.requires(d, sl))
        except Exception as e:
            pre = False
        if not pre:
            if part == "without-loop":
                # which clause of `requires` fails (so that one registered class cannot hide another)
                if not (all(k >= 0 for k in d) and ordered(sl) and all(x.source_slice.start >= 0 for x in sl)):
                    why = "slices-not-ordered"
                elif any(all(x.source_slice.start != k + shift(d, k) for x in sl) for k in d):
                    why = "overridden-tag-not-traced"       # a key of length_deltas whose tag no slice of the trace starts at
                else:
                    why = "other"
                classes[why] = classes.get(why, 0) + 1
                fail(f"C07/rectify/call-site/requires[template-without-loop][{why}]", template, d, sl, res,
                     "a real call does not satisfy the precondition under which _rectify_templated_slices is proved")
            continue
        st["requires_holds"] += 1
        if res is None:
            fail(f"C07/rectify/call-site/no-raise[template-{part}]", template, d, sl, res, err)
            continue
        try:
            ok, why = bool(c.ensures(d, sl, res)), "ensures is false on a real call that satisfies requires"
        except Exception as e:
            ok, why = False, f"ensures raised {e!r}"
        if not ok:
            fail(f"C07/rectify/call-site/ensures[template-{part}]", template, d, sl, res, why)
    fails.update(invalid)
    failed = [{"name": fid, "id": fid, "kind": "bounded", "status": "failed", "function": KEY, "detail": dd, "reproduced": True}
              for fid, dd in sorted(fails.items())]
    frac = {k: (round(v["requires_holds"] / v["calls"], 4) if v["calls"] else None) for k, v in stats.items()}
    n_tpl = len(dict.fromkeys(templates))
    return {"name": "rectify-call-sites",
            "bound": f"{n_tpl} templates: nested / chained if-elif-else over 6 conditions (1-3 overridden tags, deltas of both signs), the "
                     f"deterministic core of contracts/c07_bounded.py and {n_random} seeded templates of its grammar (depth 2-3)",
            "rule": "one evaluation = one real call of JinjaTemplater._rectify_templated_slices observed during process_with_variants; "
                    "loop-free templates: requires and ensures of contracts/c07_rectify.py must hold, and every variant of the template "
                    "must satisfy contracts.c07.valid; templates with `for`: ensures is judged only where requires holds, the fraction "
                    "is reported",
            "evaluations": len(calls), "distinct_nontrivial": stats["without-loop"]["two_or_more_deltas"], "templates": n_tpl,
            "templates_not_rendered": not_rendered, "variants_of_loop_free_templates_judged_by_valid": n_variants_judged[0], "calls": stats, "requires_failure_classes_without_loop": classes, "fraction_of_calls_satisfying_requires": frac,
            "samples": [], "failed": failed, "wall_s": round(time.time() - t0, 2)}


_F = "sqlfluff/core/templaters/jinja.py"
MUTANTS = [
    # the essence of seeded C07_A: the delta key (ORIGINAL coordinates) is compared with the position in the MODIFIED template
    ("rectify_positional_match", _F, "                if idx == tfs.source_slice.start + carried_delta:", "                if idx == tfs.source_slice.start:"),
    ("rectify_plus_d", _F, "                                tfs.source_slice.stop + carried_delta - d,", "                                tfs.source_slice.stop + carried_delta + d,"),
    ("rectify_delta_on_start_too", _F, "                                tfs.source_slice.start + carried_delta,\n                                tfs.source_slice.stop + carried_delta - d,",
     "                                tfs.source_slice.start + carried_delta - d,\n                                tfs.source_slice.stop + carried_delta - d,"),
    ("rectify_pop_skipped", _F, "                    delta_stack.pop(0)\n", "                    pass\n"),
    ("rectify_pop_wrong_end", _F, "                    delta_stack.pop(0)\n", "                    delta_stack.pop()\n"),
    ("rectify_stack_not_sorted", _F, "        delta_stack = sorted(length_deltas.items(), key=lambda t: t[0])", "        delta_stack = list(length_deltas.items())"),
    ("rectify_carried_not_updated", _F, "                    carried_delta -= d\n", "                    pass\n"),
    ("rectify_carried_wrong_sign", _F, "                    carried_delta -= d\n", "                    carried_delta += d\n"),
    ("rectify_templated_slice_lost", _F, "            # No delta match. Just shift evenly.\n            adjusted_slices.append(\n                tfs._replace(\n",
     "            # No delta match. Just shift evenly.\n            adjusted_slices.append(\n                tfs._replace(\n                    templated_slice=slice(tfs.templated_slice.start, tfs.templated_slice.start),\n"),
]

TRUSTED = [
    "builtins.sorted(list, key) (stable permutation ordered by key) and dict.items() (an enumeration of the dict without repetition, "
    "order not modelled): assumed engine models",
    "the precondition of _rectify_templated_slices (ordered slices; every overridden tag is exactly one slice of the modified "
    "template's trace) is NOT proved of the caller _handle_unreached_code / JinjaTracer: it is checked on every real call made over "
    "the bounded template grammar (BOUNDED rectify-call-sites).  For templates without `for` it holds on every observed call except "
    "one class, a genuine defect of the caller: an `if` / `elif` tag with an EMPTY body in front of the branch that holds the "
    "uncovered code is overridden with the wrong constant (`options[0] == branch + 1` cannot tell the body from the next tag), the "
    "variant never reaches the other overridden tags, their deltas stay on the stack and every later slice is mapped to the wrong "
    "source text (ids C07/rectify/call-site/requires[template-without-loop][overridden-tag-not-traced] and "
    "C07/rectify/call-site/valid[literal-text-equal][template-without-loop])",
]
NOT_COVERED = [
    "_rectify_templated_slices on templates with `for` loops: the trace revisits slices, the precondition fails on part of the real "
    "calls (fraction reported by BOUNDED rectify-call-sites) and the function's result is then not a map into the original file "
    "(known finding C07/jinja/valid[literal-text-equal])",
    "JinjaTemplater._handle_unreached_code itself (deep copies of tracers, jinja rendering): bounded only",
]

BOUNDED = [rectify_generated_layouts, rectify_call_sites]
SHARDS = {KEY: 4}        # the function's obligations are solved by 4 workers

if __name__ == "__main__":
    import json
    import sys
    for f in BOUNDED:
        r = f(sys.argv[1] if len(sys.argv) > 1 else "quick", 0)
        print(json.dumps({k: v for k, v in r.items() if k != "failed"}, default=str)[:1500])
        for x in r["failed"]:
            print("FAILED", json.dumps(x, default=str)[:1500])
