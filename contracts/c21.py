"""C21 -- rule selection is exact (proved for the selection kernel) and only selected rules run and report (rule loop).

    "The rules that run are exactly those matched by the configured selection minus those matched by the exclusion
     list, where matching covers codes, names, groups, aliases and globs, and only those rules report violations."
    (second sentence of C21 -- a rule's violations do not depend on the other enabled rules -- is decided only as far as it
     can be stated per call of the rule loop: see NOT_COVERED)

Code under contract
    sqlfluff.core.rules.base:   RuleSet._expand_rule_refs, RuleSet.rule_reference_map, RuleSet.get_rulepack
    sqlfluff.core.linter.linter: Linter.get_rulepack, Linter.lint_fix_parsed (rule loop), Linter.lint_parsed

What is decided how
  A. pyvc (SMT) proofs over the real source -- contracts/c21_select.py:
     1. RuleSet._expand_rule_refs (whole function): the expanded set is exactly the union over the selectors of what each stands
        for (the reference itself if it is a key of the map, else every key it matches as a glob);
     2. RuleSet.rule_reference_map (whole function): keys = codes U names U groups U aliases, values under the precedence
        codes > names > groups > aliases, map[code] == {code}, values are codes;
     3. RuleSet.get_rulepack#selection (region contract): the instantiated code list == selected(rules, default all) minus
        selected(exclude_rules), in the order of the sorted register; no path of the range raises (unknown references only warn);
     4. Linter.lint_fix_parsed#rule-loop (region contract): only members of rule_pack.rules are crawled, every member at least
        once (exactly once when linting), the violations appended come from crawls of members only, nothing found is dropped.
  B. EXTRA: 9 syntactic data-flow obligations over the real AST (who may call crawl, where violations come from, where rule
     packs come from, + the glue between the region contracts and the statements around them).
  C. BOUNDED (labelled, not proofs): [0] the native reading of contracts 1 and 2 on the real functions (random maps, the real
     register, synthetic registers); [1] the real get_rulepack against an oracle written from the property text over a pool of
     25 selectors; [2] lints under a crawl spy.
The level stays `other`: parts B and C are not proofs, and the region contracts assume what precedes their ranges.
"""
import ast
import contextlib
import fnmatch
import inspect
import itertools
import logging
import os
import random
import time
from unittest import mock

from pyvc.dsl import CONTRACTS
from pyvc import replay as _replay

# the pyvc contracts (vocabulary, types, proofs) live in the helper module; importing it registers them
from . import c21_select as _sel
from .c21_select import (K_EXPAND, K_REFMAP, BASE, fnmatch_filter, rule_reference_map)  # noqa: F401

PROP = "C21"
LEVEL = "other"
NATIVE_TRIES = {"quick": 0, "thorough": 0}      # the native searches are run (and counted) by BOUNDED[0]
# the two long proofs are split over 2 workers each (6 worker processes in all)
SHARDS = {"sqlfluff.core.linter.linter:Linter.lint_fix_parsed#rule-loop": 2, K_REFMAP: 2}


def _build_ruleset(rng, gen):
    """synthetic register: 0-4 manifests over small pools chosen so that a string can be a code and a name, a name and
    a group, a group and an alias, ... of different rules; names are made unique (requires)"""
    from sqlfluff.core.rules.base import RuleSet as RS, RuleManifest as RM
    rs = RS("synthetic", {})
    codes = rng.sample(["A1", "B2", "C3", "D4"], rng.randint(0, 4))
    names = rng.sample(["", "", "n.x", "n.y", "A1", "g1", "L1"], len(codes)) if rng.random() < 0.8 else \
        [rng.choice(["", "n.x", "n.y", "A1", "g1"]) for _ in codes]          # (sometimes duplicates: filtered by requires)
    for code, name in zip(codes, names):
        groups = tuple(rng.sample(["all", "g1", "g2", "n.x", "B2", "L2"], rng.randint(0, 3)))
        aliases = tuple(rng.sample(["L1", "L2", "g1", "n.y", "A1", "C3", "all"], rng.randint(0, 3)))
        rs._register[code] = RM(code, name, "synthetic rule", groups, aliases, None)
    return rs


_replay.BUILDERS["RuleSet"] = _build_ruleset


# ------------------------------------------------------------------ oracle for 3. and 4. (from the property text)
class Oracle:
    """Meaning of a selection, computed from the registered manifests only.

    A rule answers to its code, its name, its groups and its aliases.  A string that is a reference of several kinds
    stands for the strongest kind only (codes > names > groups > aliases).  A selector that is a reference selects the
    rules it stands for; any other selector is a glob over all references and selects what the matched references
    stand for; a selector matching nothing selects nothing.  Selection = (selected by `rules`, or every rule when
    `rules` is not given) minus (selected by `exclude_rules`), reported in code order."""

    def __init__(self, manifest_list):
        self.M = list(manifest_list)
        self.codes = sorted(m.code for m in self.M)
        self.refs = set(self.codes)
        for m in self.M:
            if m.name:
                self.refs.add(m.name)
            self.refs.update(m.groups)
            self.refs.update(m.aliases)
        self._memo = {}

    def stands_for(self, ref):
        M = self.M
        if any(m.code == ref for m in M):
            return {ref}
        for pick in (lambda m: bool(m.name) and m.name == ref, lambda m: ref in m.groups, lambda m: ref in m.aliases):
            got = {m.code for m in M if pick(m)}
            if got:
                return got
        return set()

    def selector(self, s):
        if s not in self._memo:
            if s in self.refs:
                self._memo[s] = (frozenset(self.stands_for(s)), True)
            else:
                out, matched = set(), False
                for ref in self.refs:
                    if fnmatch.fnmatch(ref, s):
                        matched = True
                        out |= self.stands_for(ref)
                self._memo[s] = (frozenset(out), matched)
        return self._memo[s]

    def selected(self, allow, deny):
        allow = [s for s in allow if s.strip()]          # a comma separated option made of blanks configures no selector
        deny = [s for s in deny if s.strip()]
        a = set(self.codes) if not allow else set().union(*[self.selector(s)[0] for s in allow])
        d = set().union(*[self.selector(s)[0] for s in deny]) if deny else set()
        return [c for c in self.codes if c in a and c not in d]

    def unknown(self, sels):
        return [s for s in sels if s.strip() and not self.selector(s)[1]]


class _Capture(logging.Handler):
    def __init__(self):
        super().__init__(logging.DEBUG)
        self.records = []

    def emit(self, record):
        self.records.append(record)


@contextlib.contextmanager
def _rules_log():
    """collect the records of the `sqlfluff.rules` logger (the 'unknown rule reference' warnings) and keep them off stderr"""
    lg = logging.getLogger("sqlfluff.rules")
    h = _Capture()
    old = (lg.level, lg.propagate)
    lg.addHandler(h)
    lg.setLevel(logging.WARNING)
    lg.propagate = False
    try:
        yield h
    finally:
        lg.removeHandler(h)
        lg.setLevel(old[0])
        lg.propagate = old[1]


def _fail(cid, kind, function, detail, reproduced, **kw):
    nm = f"{PROP}/{cid}"
    return dict({"name": nm, "id": nm, "kind": kind, "status": "failed", "function": function, "detail": detail,
                 "reproduced": reproduced}, **kw)


# ------------------------------------------------------------------ BOUNDED[0]: native reading of contracts 1 and 2
def native_contracts(tier, seed):
    t0 = time.time()
    from sqlfluff.core.rules import get_ruleset
    tries = 6000 if tier == "quick" else 60000
    failed, samples, parts = [], [], {}
    ev = dn = 0
    with _rules_log():
        # 1. _expand_rule_refs on random maps over the alphabet {a, b, *, ?}
        s1 = _replay.search(CONTRACTS[K_EXPAND], seed, tries)
        # 2. rule_reference_map: the real register first, then synthetic registers
        real = get_ruleset()
        s2 = _replay.search(CONTRACTS[K_REFMAP], seed, tries // 3, first_args={"self": real})
        # the real register satisfies the precondition (otherwise the first candidate was silently skipped)
        real_pre = bool(rule_reference_map.requires(real))
        # what happens outside `requires`: two rules with one name (observation, see NOT_COVERED)
        from sqlfluff.core.rules.base import RuleSet as RS, RuleManifest as RM
        dup = RS("dup", {})
        dup._register["A1"] = RM("A1", "same.name", "", ("all",), (), None)
        dup._register["B2"] = RM("B2", "same.name", "", ("all",), (), None)
        dup_obs = sorted(dup.rule_reference_map().get("same.name", ()))
    for key, s in ((K_EXPAND, s1), (K_REFMAP, s2)):
        parts[key.split(".")[-1]] = {k: s.get(k) for k in ("tried", "admissible", "distinct", "errors", "skipped")}
        ev += s.get("admissible", 0)
        dn += s.get("distinct", 0)
        samples.extend(s.get("samples", [])[:2])
        if s.get("failure"):
            failed.append(_fail(f"{key.replace(':', '.')}/native-contract-check", "bounded-native", key,
                                {"input": s["failure"]["args"], "clause": s["failure"]["detail"]}, True,
                                replay=s, backend="CPython (bounded search)"))
        elif s.get("errors") or s.get("skipped") or s.get("admissible", 0) < 100:
            failed.append(_fail(f"{key.replace(':', '.')}/native-contract-check-vacuous", "bounded-native", key,
                                {"search": {k: v for k, v in s.items() if k != "samples"}}, False))
    if not real_pre:
        failed.append(_fail("rule_reference_map/real-register-satisfies-requires", "bounded-native", K_REFMAP,
                            {"problem": "two bundled rules share a code or a non-empty name",
                             "names": sorted(m.name for m in real._register.values())}, True))
    # assumed contract of fnmatch.filter against the library
    rng = random.Random(seed + 1)
    nf = 2000 if tier == "quick" else 20000
    pool = ["", "a", "ab", "b", "a.b", "A", "*", "a*", "?", "[ab]", "[!a]b", "*.b", "a?", "[", "L001"]
    for _ in range(nf):
        names = [rng.choice(pool) for _ in range(rng.randint(0, 4))]
        pat = rng.choice(pool)
        res = fnmatch.filter(names, pat)
        ev += 1
        if not fnmatch_filter.ensures(names, pat, res):
            failed.append(_fail("external/fnmatch.filter-assumed-contract", "bounded-native", "fnmatch:filter",
                                {"names": names, "pat": pat, "result": res}, True))
            break
    return {"name": "C21-native-contracts", "bound": f"{tries} random (glob_list, reference_map) over the alphabet 'ab*?' (<=2 selectors, <=3 keys); "
            f"the real register + {tries // 3} synthetic registers (<=4 rules, colliding codes/names/groups/aliases); {nf} fnmatch.filter calls (tier {tier})",
            "rule": "pyvc.replay.search: inputs drawn from the declared types, filtered by `requires`, the REAL function is called and "
                    "`ensures` (the same text the SMT path would compile) is evaluated on its result; distinct = distinct argument "
                    "tuples that passed `requires`",
            "evaluations": ev, "distinct_nontrivial": dn, "samples": samples, "parts": parts,
            "real_register_satisfies_requires": real_pre,
            "observation_outside_requires": {"register": "A1 and B2 both named 'same.name'", "rule_reference_map()['same.name']": dup_obs,
                                             "note": "only the last registered rule answers to a shared name (dict comprehension name_map); "
                                                     "unreachable with the bundled rules, reachable with a plugin that reuses a name"},
            "wall_s": round(time.time() - t0, 2), "failed": failed}


# ------------------------------------------------------------------ BOUNDED[1]: 3. get_rulepack selection is exact
POOL = {
    "code": ["LT01", "CP01", "AL01", "ST05"],
    "name": ["layout.spacing", "capitalisation.keywords", "aliasing.table"],
    "group": ["core", "layout", "all", "aliasing"],
    "alias": ["L001", "L010", "L011"],
    "glob": ["L*", "CP0?", "*keywords*", "AL0[12]", "layout.*", "*.spacing", "L00?", "*"],
    "junk": ["nonexistent", "lt01", "LT"],
}


def _check_pool(oracle):
    M = oracle.M
    cls = {"code": lambda s: any(m.code == s for m in M), "name": lambda s: any(m.name == s for m in M),
           "group": lambda s: any(s in m.groups for m in M), "alias": lambda s: any(s in m.aliases for m in M),
           "glob": lambda s: s not in oracle.refs and oracle.selector(s)[1],
           "junk": lambda s: s not in oracle.refs and not oracle.selector(s)[1]}
    return [f"{k}:{s}" for k, ss in POOL.items() for s in ss if not cls[k](s)]


def _pack_codes(pack, register):
    """codes of the instantiated rules; each must be an instance of the class registered under its code"""
    out = []
    for r in pack.rules:
        if r.code not in register or not isinstance(r, register[r.code].rule_class):
            return None
        out.append(r.code)
    return out


def selection_exact(tier, seed):
    t0 = time.time()
    from sqlfluff.core import FluffConfig, Linter
    from sqlfluff.core.rules import get_ruleset
    rs = get_ruleset()
    oracle = Oracle(rs._register.values())
    stale = _check_pool(oracle)
    if stale:
        raise RuntimeError(f"selector pool no longer matches the registered rules: {stale}")
    sels = [s for ss in POOL.values() for s in ss]
    # () = option absent (the packaged default config then supplies `rules = all`, `exclude_rules = None`);
    # ("",) = option explicitly empty: the only way to reach get_rulepack's own default `allowlist = all codes`
    lists = [(), ("",)] + [(s,) for s in sels] + list(itertools.combinations(sels, 2))
    pairs_total = len(lists) ** 2
    rng = random.Random(seed)
    if tier == "thorough":
        pairs = itertools.product(range(len(lists)), repeat=2)
        n_full = 3000
    else:
        pairs = [(rng.randrange(len(lists)), rng.randrange(len(lists))) for _ in range(2400)]
        # every single selector alone on each side against the absent and the explicitly empty option is always included
        pairs += [(i, j) for i in range(len(sels) + 2) for j in (0, 1)] + [(j, i) for i in range(len(sels) + 2) for j in (0, 1)]
        n_full = 150
    full_every = max(1, (pairs_total if tier == "thorough" else len(pairs)) // n_full)
    # the parsed form of each list, produced by the REAL FluffConfig constructor from the comma separated option
    parsed = {}

    def parsed_lists(which, tup):
        if (which, tup) not in parsed:
            ov = {"dialect": "ansi"}
            if tup:
                ov[which] = ",".join(tup)
            cfg = FluffConfig(overrides=ov)
            parsed[(which, tup)] = list(cfg.get("rule_allowlist" if which == "rules" else "rule_denylist"))
        return parsed[(which, tup)]

    work = FluffConfig(overrides={"dialect": "ansi"})
    other = FluffConfig(overrides={"dialect": "ansi", "rules": "LT01"})      # the linter's own config must NOT be used
    failed, samples = [], []
    ev = n_fullpath = 0
    distinct = set()

    def report(cid, a, d, detail):
        prev = [f for f in failed if f["id"] == f"{PROP}/{cid}"]
        rec = {"rules": ",".join(a), "exclude_rules": ",".join(d)}
        if prev:
            more = prev[0]["detail"].setdefault("further failing inputs", [])
            if len(more) < 8:
                more.append(rec)
            prev[0]["detail"]["failing inputs (count)"] = prev[0]["detail"].get("failing inputs (count)", 1) + 1
            return
        failed.append(_fail(cid, "bounded-exhaustive", BASE + "get_rulepack", dict(rec, **detail), True,
                            backend="evaluation of the real RuleSet.get_rulepack"))

    with _rules_log() as log:
        for n, (ia, idd) in enumerate(pairs):
            a, d = lists[ia], lists[idd]
            expected = oracle.selected(a, d)
            # fast path: the two private lists exactly as the real constructor parses them, set on one config object
            work._configs["core"]["rule_allowlist"] = list(parsed_lists("rules", a))
            work._configs["core"]["rule_denylist"] = list(parsed_lists("exclude_rules", d))
            log.records.clear()
            pack = rs.get_rulepack(work)
            got = _pack_codes(pack, rs._register)
            ev += 1
            if got != expected:
                report("bounded/get_rulepack-selection-exact", a, d,
                       {"expected (selection minus exclusion, code order)": expected, "rule pack": got,
                        "not selected but in the pack": sorted(set(got or []) - set(expected)),
                        "selected but missing": sorted(set(expected) - set(got or [])),
                        "same set, other order": got is not None and sorted(got) == expected})
            msgs = [r.getMessage() for r in log.records]
            for side, lst, text in (("allowlist", a, "Tried to allowlist unknown rule references"),
                                    ("denylist", d, "Tried to denylist unknown rules references")):
                want = oracle.unknown(lst)
                have = [m for m in msgs if m.startswith(text)]
                if bool(want) != bool(have) or (want and not all(repr(w) in have[0] for w in want)):
                    report(f"bounded/get_rulepack-unknown-selector-warning[{side}]", a, d,
                           {"selectors matching no reference": want, "warnings logged": have})
            if 0 < len(expected) < len(oracle.codes):
                distinct.add((ia, idd))
                if len(samples) < 4 and n % 7 == 0:
                    samples.append({"rules": ",".join(a), "exclude_rules": ",".join(d), "expected = rule pack": got == expected,
                                    "selection": expected[:6] + (["..."] if len(expected) > 6 else []), "size": len(expected)})
            if n % full_every == 0:
                # full path: real constructor with both options, through Linter.get_rulepack(config=...) of a linter
                # whose own config selects something else
                ov = {"dialect": "ansi"}
                if a:
                    ov["rules"] = ",".join(a)
                if d:
                    ov["exclude_rules"] = ",".join(d)
                cfg = FluffConfig(overrides=ov)
                got2 = _pack_codes(Linter(config=other).get_rulepack(config=cfg), rs._register)
                got3 = _pack_codes(Linter(config=cfg).get_rulepack(), rs._register)
                n_fullpath += 1
                ev += 2
                if got2 != expected or got3 != expected:
                    report("bounded/Linter.get_rulepack-selection-exact", a, d,
                           {"expected": expected, "Linter(other).get_rulepack(config=cfg)": got2, "Linter(cfg).get_rulepack()": got3})
    return {"name": "C21-get_rulepack-selection-exact",
            "bound": f"pairs (rules, exclude_rules) of <=2-element selector lists over a pool of {len(sels)} selectors "
                     f"({', '.join(f'{k}: {len(v)}' for k, v in POOL.items())}) plus the absent and the explicitly empty option: {len(lists)} lists, {pairs_total} pairs; "
                     + ("all pairs" if tier == "thorough" else "seeded sample of 2400 pairs + every single selector on each side against the absent / explicitly empty option")
                     + f"; {n_fullpath} of them also through FluffConfig(overrides=rules/exclude_rules) + Linter.get_rulepack",
            "rule": "each evaluation calls the real RuleSet.get_rulepack on a config whose rule_allowlist/rule_denylist are the lists the real "
                    "FluffConfig constructor parses from the comma separated options, and compares [r.code for r in pack.rules] (each r an "
                    "instance of the class registered under its code) with Oracle.selected: the property's formula computed from the "
                    "registered manifests (code/name/group/alias/glob, precedence codes>names>groups>aliases), which calls neither "
                    "rule_reference_map nor _expand_rule_refs; the 'unknown reference' warning must be logged exactly for selectors "
                    "matching nothing; non-trivial = the expected selection is neither empty nor all rules; distinct = distinct pairs",
            "evaluations": ev, "distinct_nontrivial": len(distinct), "samples": samples, "exhaustive_over_pool": tier == "thorough",
            "registered_rules": len(oracle.codes), "references": len(oracle.refs), "wall_s": round(time.time() - t0, 2), "failed": failed}


# ------------------------------------------------------------------ BOUNDED[2]: only selected rules run and report
MESSY_SQL = ("SELECT a.x,b.y as Y , COUNT(*),  a.*  from tbl a JOIN other as b on a.id=b.id\n"
             "where a.x = 1 AND b.y IN (select z FROM t3 ) and  a.q = NULL   \n"
             "group by 1,b.y ORDER BY a.x desc, 2;\n"
             "select DISTINCT(c), 'd' as \"e\" , f AS F , CASE WHEN g THEN TRUE ELSE FALSE END, coalesce(h, 0) h2, IFNULL(i, 1) from u as u\n"
             "UNION\n"
             "SELECT foo.c, e, F, 1, 2, 3 FROM (SELECT * FROM v) AS foo inner join w using(c) WHERE e != 1 ;\n\n\n")
MESSY_SHORT = MESSY_SQL.split(";\n")[0] + ";\n"            # first statement only: used for the (slow) fix=True runs
SQLS = [("messy", "raw", MESSY_SQL),
        ("messy+unparsable", "raw", MESSY_SQL + "selec nonsense foo bar;\n"),          # PRS, tree exists, rules run
        ("unclosed-bracket", "raw", MESSY_SQL + "select 1 from (((\n"),                 # fatal PRS: no tree, no rule can run
        ("templating-error", "jinja", "select {{ undefined_thing }} , a  from t\n{% if %}")]   # fatal TMP: no tree
NO_TREE = ("unclosed-bracket", "templating-error")
NON_RULE_CODES = {"PRS", "TMP", "LXR"}


def dynamic_only_selected(tier, seed):
    t0 = time.time()
    import sqlfluff
    from sqlfluff.core import FluffConfig, Linter
    from sqlfluff.core.rules import get_ruleset
    from sqlfluff.core.rules.base import BaseRule
    rs = get_ruleset()
    oracle = Oracle(rs._register.values())
    sels = [s for ss in POOL.values() for s in ss] + ["AM0*", "ambiguous", "convention", "structure", "references", "RF02", "CV*", "ST0[2678]"]
    rng = random.Random(seed + 2)
    n_runs = 18 if tier == "quick" else 400
    crawled = []
    real_crawl = BaseRule.crawl

    def spy(self, *a, **k):
        crawled.append(self.code)
        return real_crawl(self, *a, **k)

    failed, samples, runs = [], [], []
    distinct = set()

    def bad(cid, fn, detail):
        prev = [f for f in failed if f["id"] == f"{PROP}/{cid}"]
        if prev:
            prev[0]["detail"].setdefault("further failing inputs", []).append({k: detail[k] for k in ("rules", "exclude_rules", "sql", "mode")})
            return
        failed.append(_fail(cid, "bounded-dynamic", fn, detail, True, backend="real Linter.lint_string under a crawl spy"))

    with _rules_log(), mock.patch.object(BaseRule, "crawl", spy):
        # control: with every rule enabled the messy text makes many rules report (so that "no unselected code" is not vacuous)
        crawled.clear()
        lf = Linter(config=FluffConfig(overrides={"dialect": "ansi"})).lint_string(MESSY_SQL)
        fires_all = sorted({v.rule_code() for v in lf.violations} - NON_RULE_CODES)
        control_ok = len(fires_all) >= 15 and sorted(set(crawled)) == oracle.codes
        for n in range(n_runs):
            a = tuple(rng.sample(sels, rng.choice([0, 1, 1, 2, 2, 3]))) if n % 7 != 3 else ("",)      # ("",): `rules` explicitly empty
            d = tuple(rng.sample(sels, rng.choice([0, 0, 1, 1, 2])))
            label, templater, sql = SQLS[0] if n % 4 else SQLS[1 + (n // 4) % 3]
            mode = ("lint", "fix", "api", "lint")[n % 4 if n % 8 else 1] if templater == "raw" else "lint"
            if mode == "fix" and label == "messy":
                label, sql = "messy-short", MESSY_SHORT
            expected = oracle.selected(a, d)
            ov = {"dialect": "ansi", "templater": templater}
            if a:
                ov["rules"] = ",".join(a)
            if d:
                ov["exclude_rules"] = ",".join(d)
            crawled.clear()
            if mode == "api":
                recs = sqlfluff.lint(sql, dialect="ansi", rules=list(a) or None, exclude_rules=list(d) or None)
                codes = sorted({r["code"] for r in recs})
            else:
                lf = Linter(config=FluffConfig(overrides=ov)).lint_string(sql, fix=(mode == "fix"))
                codes = sorted({v.rule_code() for v in lf.violations})
            ran = sorted(set(crawled))
            rec = {"rules": ",".join(a), "exclude_rules": ",".join(d), "sql": label, "mode": mode}
            runs.append(rec)
            stray = sorted(set(codes) - set(expected) - NON_RULE_CODES)
            if stray:
                bad("dynamic/only-selected-rules-report", "sqlfluff.core.linter.linter:Linter.lint_fix_parsed",
                    dict(rec, **{"reported codes outside the selection": stray, "selection": expected, "reported": codes}))
            parse_fatal = label in NO_TREE
            if (ran != expected and not parse_fatal) or (parse_fatal and not set(ran) <= set(expected)):
                bad("dynamic/rules-run-are-exactly-the-selected", "sqlfluff.core.linter.linter:Linter.lint_fix_parsed",
                    dict(rec, **{"crawl entered for": ran, "selection": expected,
                                 "ran but not selected": sorted(set(ran) - set(expected)), "selected but not run": sorted(set(expected) - set(ran))}))
            rule_codes = sorted(set(codes) - NON_RULE_CODES)
            if rule_codes and len(expected) < len(oracle.codes):
                distinct.add((a, d, label, mode))
                if len(samples) < 4:
                    samples.append(dict(rec, selected=len(expected), rules_run=len(ran), reported=codes))
    if not control_ok:
        failed.append(_fail("dynamic/control", "bounded-dynamic", "control", {"rules reporting with everything enabled": fires_all,
                                                                               "crawl spy saw": len(set(crawled))}, False))
    return {"name": "C21-dynamic-only-selected-rules-run-and-report",
            "bound": f"{n_runs} lints of {len(SQLS) + 1} fixed SQL texts under random selections (0-3 selectors for rules, 0-2 for exclude_rules, pool of {len(sels)}); tier {tier}",
            "rule": "each run = the real Linter.lint_string (lint / fix=True) or sqlfluff.lint (api) under a random selection with BaseRule.crawl "
                    "wrapped by a recording spy; violation = a reported code outside Oracle.selected + {PRS, TMP, LXR}, or the set of rules whose crawl "
                    f"was entered differs from Oracle.selected; control: with all rules enabled {len(fires_all)} distinct rules report on the messy "
                    "text; non-trivial = a proper sub-selection under which at least one rule violation is reported; distinct = distinct "
                    "(rules, exclude_rules, text, mode)",
            "evaluations": len(runs), "distinct_nontrivial": len(distinct), "samples": samples, "rules_reporting_when_all_enabled": fires_all,
            "wall_s": round(time.time() - t0, 2), "failed": failed}


# ------------------------------------------------------------------ EXTRA: syntactic data-flow obligations
RULEPACK_CONSUMERS = ("lint_fix_parsed", "lint_parsed", "lint_rendered")
WORDS = ("crawl", "_eval") + RULEPACK_CONSUMERS


class _Fn:
    """one function of the real source with the helpers the clauses need"""

    def __init__(self, node, relfile, qual):
        self.node, self.relfile, self.qual = node, relfile, qual
        self.parent = {}
        for p in ast.walk(node):
            for ch in ast.iter_child_nodes(p):
                self.parent[ch] = p
        a = node.args
        self.params = [x.arg for x in a.posonlyargs + a.args + a.kwonlyargs]

    def where(self, n):
        return f"{self.relfile}:{getattr(n, 'lineno', '?')}  {ast.unparse(n)[:110]}"

    def bindings(self, name):
        """every site that (re)binds the function-level local `name`: [(kind, stmt, value-or-None, position-in-tuple-or-None)]"""
        out = []
        for n in ast.walk(self.node):
            if isinstance(n, ast.Assign):
                for t in n.targets:
                    if isinstance(t, ast.Name) and t.id == name:
                        out.append(("assign", n, n.value, None))
                    elif isinstance(t, (ast.Tuple, ast.List)):
                        for i, e in enumerate(t.elts):
                            if isinstance(e, ast.Name) and e.id == name:
                                out.append(("unpack", n, n.value, i))
                            elif any(isinstance(x, ast.Name) and x.id == name for x in ast.walk(e)):
                                out.append(("other", n, None, None))
                    elif isinstance(t, ast.Starred) and any(isinstance(x, ast.Name) and x.id == name for x in ast.walk(t)):
                        out.append(("other", n, None, None))
            elif isinstance(n, ast.AnnAssign) and isinstance(n.target, ast.Name) and n.target.id == name:
                if n.value is not None:
                    out.append(("assign", n, n.value, None))
            elif isinstance(n, ast.AugAssign) and isinstance(n.target, ast.Name) and n.target.id == name:
                out.append(("aug", n, n.value, None))
            elif isinstance(n, (ast.For, ast.AsyncFor)):
                if isinstance(n.target, ast.Name) and n.target.id == name:
                    out.append(("for", n, n.iter, None))
                elif any(isinstance(x, ast.Name) and x.id == name for x in ast.walk(n.target)):
                    out.append(("other", n, None, None))
            elif isinstance(n, (ast.With, ast.AsyncWith)):
                for it in n.items:
                    if it.optional_vars is not None and any(isinstance(x, ast.Name) and x.id == name for x in ast.walk(it.optional_vars)):
                        out.append(("other", n, None, None))
            elif isinstance(n, ast.NamedExpr) and n.target.id == name:
                out.append(("other", n, None, None))
            elif isinstance(n, ast.ExceptHandler) and n.name == name:
                out.append(("other", n, None, None))
            elif isinstance(n, (ast.Import, ast.ImportFrom)) and any((al.asname or al.name.split(".")[0]) == name for al in n.names):
                out.append(("other", n, None, None))
            elif isinstance(n, (ast.Global, ast.Nonlocal)) and name in n.names:
                out.append(("other", n, None, None))
            elif isinstance(n, ast.Delete) and any(isinstance(x, ast.Name) and x.id == name for t in n.targets for x in ast.walk(t)):
                out.append(("other", n, None, None))
            elif isinstance(n, (ast.FunctionDef, ast.AsyncFunctionDef, ast.ClassDef)) and n is not self.node and n.name == name:
                out.append(("other", n, None, None))
        return out

    def mutating_calls(self, name):
        return [n for n in ast.walk(self.node) if isinstance(n, ast.Call) and isinstance(n.func, ast.Attribute)
                and isinstance(n.func.value, ast.Name) and n.func.value.id == name
                and n.func.attr in ("append", "extend", "insert", "remove", "pop", "clear", "sort", "reverse", "__iadd__", "__setitem__")]

    def enclosing(self, n, kinds):
        p = self.parent.get(n)
        while p is not None:
            if isinstance(p, kinds):
                yield p
            p = self.parent.get(p)

    def is_param(self, name):
        return name in self.params and not self.bindings(name)


def _is_rulepack_rules(e, fn):
    return (isinstance(e, ast.Attribute) and e.attr == "rules" and isinstance(e.value, ast.Name) and e.value.id == "rule_pack"
            and fn.is_param("rule_pack"))


def _derives(e, fn, seen=()):
    """-> None when expression e denotes rule_pack.rules or a list obtained from it by filtering / wrapping in tqdm
    only; otherwise a reason string"""
    if _is_rulepack_rules(e, fn):
        return None
    if isinstance(e, ast.Name):
        if e.id in seen:
            return None
        bs = fn.bindings(e.id)
        if not bs:
            return f"`{e.id}` is never assigned ({'a parameter' if e.id in fn.params else 'not a local'})"
        for kind, stmt, val, _ in bs:
            if kind != "assign":
                return f"`{e.id}` is bound by something other than a plain assignment: {fn.where(stmt)}"
            why = _derives(val, fn, seen + (e.id,))
            if why:
                return why
        return None
    if isinstance(e, ast.ListComp):
        g = e.generators
        if (len(g) == 1 and isinstance(g[0].target, ast.Name) and isinstance(e.elt, ast.Name) and e.elt.id == g[0].target.id
                and not g[0].is_async):
            return _derives(g[0].iter, fn, seen)
        return f"comprehension is not a pure filter: {fn.where(e)}"
    if isinstance(e, ast.Call) and isinstance(e.func, ast.Name) and e.func.id == "tqdm" and len(e.args) == 1:
        return _derives(e.args[0], fn, seen)
    return f"not rule_pack.rules nor a filter of it: {fn.where(e)}"


def _load_package():
    import sqlfluff
    pkg = os.path.dirname(os.path.abspath(sqlfluff.__file__))
    mods, n_files = {}, 0
    for d, dirs, files in os.walk(pkg):
        dirs[:] = sorted(x for x in dirs if x != "__pycache__")
        for f in sorted(files):
            if f.endswith(".py"):
                p = os.path.join(d, f)
                with open(p, encoding="utf8") as fh:
                    text = fh.read()
                n_files += 1
                # an attribute / name of the AST occurs literally in the text: files without any of the words cannot matter
                if any(w in text for w in WORDS):
                    mods[os.path.relpath(p, pkg)] = ast.parse(text, p)
    return pkg, mods, n_files


def _functions(tree, relfile):
    """qualified name -> _Fn for every def (methods as Class.name; nested defs belong to the outer function)"""
    out = {}

    def visit(body, prefix):
        for n in body:
            if isinstance(n, (ast.FunctionDef, ast.AsyncFunctionDef)):
                out[prefix + n.name] = _Fn(n, relfile, prefix + n.name)
            elif isinstance(n, ast.ClassDef):
                visit(n.body, prefix + n.name + ".")
    visit(tree.body, "")
    return out


def _enclosing_qual(funcs, node):
    for q, f in funcs.items():
        if node in f.parent or node is f.node:
            return q
    return "<module>"


def dataflow_check(tier, seed):
    t0 = time.time()
    pkg, mods, n_files = _load_package()
    LINTER = os.path.join("core", "linter", "linter.py")
    RBASE = os.path.join("core", "rules", "base.py")
    CRAWLERS = os.path.join("core", "rules", "crawlers.py")
    fmap = {rel: _functions(tree, rel) for rel, tree in mods.items()}
    n_ob = ok = 0
    failed, undecided, samples = [], [], []
    BACKEND = "syntactic data-flow (python ast of the real source)"

    def clause(cid, fails, stale=None, sample=None):
        nonlocal n_ob, ok
        n_ob += 1
        nm = f"dataflow/{cid}"
        if fails:
            for i, (fn, detail) in enumerate(fails[:4]):
                f = _fail(nm + (f"[{i}]" if i else ""), "dataflow", fn, detail, False, backend=BACKEND)
                failed.append(f)
        elif stale:
            undecided.append({"function": f"{PROP}/{nm}", "obligation": f"{PROP}/{nm}", "reason": ["stale-declaration"] + list(stale)})
        else:
            ok += 1
            samples.append(dict({"obligation": f"{PROP}/{nm}", "backend": BACKEND}, **(sample or {})))

    L = fmap.get(LINTER, {})
    lfp = L.get("Linter.lint_fix_parsed")
    LFP = "sqlfluff.core.linter.linter:Linter.lint_fix_parsed"

    # ---- (1) crawl is only ever called on the loop variable of a loop over (a filter of) rule_pack.rules
    fails, stale, sites = [], [], []
    crawl_calls = []
    if lfp is None:
        stale.append("Linter.lint_fix_parsed not found")
    else:
        crawl_calls = [n for n in ast.walk(lfp.node) if isinstance(n, ast.Call) and isinstance(n.func, ast.Attribute) and n.func.attr == "crawl"]
        if not crawl_calls:
            stale.append("no .crawl( call in lint_fix_parsed")
        if not lfp.is_param("rule_pack"):
            fails.append((LFP, {"problem": "`rule_pack` is not a parameter of lint_fix_parsed or is re-bound in its body",
                                "bindings": [lfp.where(b[1]) for b in lfp.bindings("rule_pack")]}))
        for c in crawl_calls:
            recv = c.func.value
            if not isinstance(recv, ast.Name):
                fails.append((LFP, {"crawl called on something that is not a loop variable": lfp.where(c)}))
                continue
            bs = lfp.bindings(recv.id)
            loops = [b for b in bs if b[0] == "for"]
            if len(bs) != 1 or len(loops) != 1:
                fails.append((LFP, {"crawl receiver": recv.id, "problem": "not bound by exactly one for-loop",
                                    "bindings": [lfp.where(b[1]) for b in bs], "call": lfp.where(c)}))
                continue
            loop = loops[0][1]
            if loop not in list(lfp.enclosing(c, (ast.For,))) or not any(c is x for s in loop.body for x in ast.walk(s)):
                fails.append((LFP, {"crawl call is outside the body of the loop that binds its receiver": lfp.where(c), "loop": lfp.where(loop)}))
                continue
            why = _derives(loop.iter, lfp)
            if why:
                fails.append((LFP, {"rule crawled that does not come from rule_pack.rules": lfp.where(c),
                                    "loop": f"{lfp.relfile}:{loop.lineno}  for {recv.id} in {ast.unparse(loop.iter)}", "because": why}))
            sites.append(f"{lfp.relfile}:{c.lineno}  {recv.id}.crawl(...)  in  for {recv.id} in {ast.unparse(loop.iter)}")
    clause("crawl-only-rulepack", fails, stale, {"crawl call sites": sites})

    # ---- (2) whole package: no other call site of a rule's crawl / _eval
    fails, n_sites = [], 0
    for rel, tree in mods.items():
        for n in ast.walk(tree):
            if not (isinstance(n, ast.Call) and isinstance(n.func, ast.Attribute) and n.func.attr in ("crawl", "_eval")):
                continue
            n_sites += 1
            q = _enclosing_qual(fmap[rel], n)
            recv = ast.unparse(n.func.value)
            if n.func.attr == "crawl":
                allowed = ((rel == LINTER and q == "Linter.lint_fix_parsed")                      # clause (1)
                           or (rel == RBASE and q == "BaseRule.crawl" and recv == "self.crawl_behaviour")   # the segment crawler of the rule itself
                           or (rel == CRAWLERS and recv == "self"))
            else:
                allowed = ((rel == RBASE and q == "BaseRule.crawl" and recv == "self")
                           or (recv == "super()" and q.endswith("._eval")))                          # a rule delegating to its own base class
            if not allowed:
                fails.append((f"sqlfluff/{rel}:{q}", {"undeclared call site of a rule's " + n.func.attr: f"sqlfluff/{rel}:{n.lineno}  {ast.unparse(n)[:120]}", "in": q}))
        for n in ast.walk(tree):                                                  # entry points fetched by name
            if isinstance(n, ast.Call) and isinstance(n.func, ast.Name) and n.func.id == "getattr" and len(n.args) >= 2 \
                    and isinstance(n.args[1], ast.Constant) and n.args[1].value in ("crawl", "_eval"):
                fails.append((f"sqlfluff/{rel}", {"getattr by name of a rule entry point": f"sqlfluff/{rel}:{n.lineno}  {ast.unparse(n)[:120]}"}))
    called = {id(c.func) for tree in mods.values() for c in ast.walk(tree) if isinstance(c, ast.Call)}
    for rel, tree in mods.items():
        for n in ast.walk(tree):
            if isinstance(n, ast.Attribute) and n.attr in ("crawl", "_eval") and isinstance(n.ctx, ast.Load) and id(n) not in called:
                fails.append((f"sqlfluff/{rel}", {"rule entry point mentioned as a value (not called)": f"sqlfluff/{rel}:{n.lineno}  {ast.unparse(n)[:120]}"}))
    clause("crawl-call-sites-in-package", fails, None if n_sites >= 3 else [f"only {n_sites} crawl/_eval call sites found"],
           {"modules read": n_files, "modules mentioning crawl/_eval/lint_*": len(mods), "call sites of .crawl/._eval": n_sites})

    # ---- (3) the violations returned by lint_fix_parsed come from those crawl calls or from the ignore mask only
    fails, stale = [], []
    VN = "initial_linting_errors"
    srcs = []
    if lfp is None:
        stale.append("Linter.lint_fix_parsed not found")
    else:
        def source_of(name):
            """a local that holds violations: where may it come from"""
            got = []
            bs = lfp.bindings(name)
            if not bs:
                return [f"`{name}` has no binding"]
            for kind, stmt, val, pos in bs:
                if kind == "unpack" and isinstance(val, ast.Call) and isinstance(val.func, ast.Attribute):
                    if val.func.attr == "crawl" and val in crawl_calls and pos == 0:
                        got.append("crawl")
                        continue
                    if val.func.attr == "from_tree" and ast.unparse(val.func.value) == "IgnoreMask" and pos == 1:
                        got.append("ignore-mask")
                        continue
                got.append("?" + lfp.where(stmt))
            return got
        for kind, stmt, val, _ in lfp.bindings(VN):
            if kind == "assign" and isinstance(val, ast.List) and not val.elts:
                srcs.append("[]")
            elif kind == "aug" and isinstance(stmt.op, ast.Add) and isinstance(val, ast.Name):
                s = source_of(val.id)
                srcs.extend(f"+= {val.id} <- {x}" for x in s)
                for x in s:
                    if x.startswith("?") or x.startswith("`"):
                        fails.append((LFP, {"violations added from an undeclared source": lfp.where(stmt), "source": x}))
            elif kind == "assign" and isinstance(val, ast.Call) and ast.unparse(val) == f"cls.remove_templated_errors({VN})":
                srcs.append("= cls.remove_templated_errors(self)  (filter, clause remove_templated_errors-is-a-filter)")
            else:
                fails.append((LFP, {"undeclared binding of the returned violation list": lfp.where(stmt)}))
        for m in lfp.mutating_calls(VN):
            fails.append((LFP, {"in-place mutation of the returned violation list": lfp.where(m)}))
        rets = [n for n in ast.walk(lfp.node) if isinstance(n, ast.Return) and not any(isinstance(p, (ast.FunctionDef, ast.Lambda)) and p is not lfp.node for p in lfp.enclosing(n, (ast.FunctionDef, ast.Lambda)))]
        for r in rets:
            if not (isinstance(r.value, ast.Tuple) and len(r.value.elts) == 4 and isinstance(r.value.elts[1], ast.Name) and r.value.elts[1].id == VN):
                fails.append((LFP, {"return does not return the checked violation list in position 1": lfp.where(r)}))
        if not rets or not any(s.endswith("crawl") for s in srcs):
            stale.append("no return / no `+= <crawl result>` found")
    clause("violations-only-from-rulepack-crawl-or-ignore-mask", fails, stale, {"bindings of initial_linting_errors": srcs})

    # ---- (3b) remove_templated_errors only filters
    rte = L.get("Linter.remove_templated_errors")
    fails, stale = [], []
    if rte is None:
        stale.append("Linter.remove_templated_errors not found")
    else:
        RT = "sqlfluff.core.linter.linter:Linter.remove_templated_errors"
        p0 = rte.params[0] if rte.params else None
        rets = [n for n in ast.walk(rte.node) if isinstance(n, ast.Return)]
        rn = rets[0].value.id if len(rets) == 1 and isinstance(rets[0].value, ast.Name) else None
        if rn is None:
            fails.append((RT, {"problem": "not a single `return <name>`"}))
        else:
            bs = rte.bindings(rn)
            if not (len(bs) == 1 and bs[0][0] == "assign" and isinstance(bs[0][2], ast.List) and not bs[0][2].elts):
                fails.append((RT, {"result list is not initialised once with []": [rte.where(b[1]) for b in bs]}))
            for m in rte.mutating_calls(rn):
                ok_m = False
                if m.func.attr == "append" and len(m.args) == 1 and isinstance(m.args[0], ast.Name):
                    eb = rte.bindings(m.args[0].id)
                    ok_m = (len(eb) == 1 and eb[0][0] == "for" and isinstance(eb[0][2], ast.Name) and eb[0][2].id == p0 and rte.is_param(p0)
                            and eb[0][1] in list(rte.enclosing(m, (ast.For,))))
                if not ok_m:
                    fails.append((RT, {"result gets something that is not an element of the input list": rte.where(m)}))
            if not rte.mutating_calls(rn):
                stale.append("no append found")
    clause("remove_templated_errors-is-a-filter", fails, stale)

    # ---- (4) lint_parsed: violations = templating + parse/lex + lint_fix_parsed(rule_pack) + ignore-mask comments
    lp = L.get("Linter.lint_parsed")
    LP = "sqlfluff.core.linter.linter:Linter.lint_parsed"
    fails, stale, srcs = [], [], []
    if lp is None:
        stale.append("Linter.lint_parsed not found")
    else:
        lfp_calls = [n for n in ast.walk(lp.node) if isinstance(n, ast.Call) and isinstance(n.func, ast.Attribute) and n.func.attr == "lint_fix_parsed"]

        def vsource(val):
            txt = ast.unparse(val)
            if txt == "list(parsed.templating_violations)":
                return "templating"
            if txt == "root_variant.violations()":
                return "parse/lex of the root variant"
            if isinstance(val, ast.ListComp) and txt == "[violation for variant in parsed.parsed_variants for violation in variant.violations()]":
                return "parse/lex of all variants"
            if isinstance(val, ast.Name):
                bs = lp.bindings(val.id)
                kinds = set()
                for kind, stmt, v, pos in bs:
                    if kind == "unpack" and v in lfp_calls and pos == 1:
                        kinds.add("lint_fix_parsed")
                    elif (kind == "unpack" and isinstance(v, ast.Call) and ast.unparse(v.func) == "IgnoreMask.from_source_with_dialect" and pos == 1):
                        kinds.add("ignore-mask")
                    else:
                        kinds.add("?")
                if bs and "?" not in kinds and len(kinds) == 1:
                    return kinds.pop()
            return None
        for kind, stmt, val, _ in lp.bindings("violations"):
            s = vsource(val) if kind in ("assign", "aug") and (kind == "assign" or isinstance(stmt.op, ast.Add)) else None
            if s is None:
                fails.append((LP, {"violations extended from an undeclared source": lp.where(stmt)}))
            else:
                srcs.append(f"{'=' if kind == 'assign' else '+='} {s}  ({lp.relfile}:{stmt.lineno})")
        for m in lp.mutating_calls("violations"):
            fails.append((LP, {"in-place mutation of the violation list": lp.where(m)}))
        if not lfp_calls or not any("lint_fix_parsed" in s for s in srcs):
            stale.append("no lint_fix_parsed call feeding `violations`")
    clause("lint_parsed-violation-sources", fails, stale, {"bindings of violations": srcs})

    # ---- (5) every rule pack handed to the linting functions comes from get_rulepack(config=...) or is the caller's own parameter
    fails, uses = [], []
    pos_of = {}
    for nm in RULEPACK_CONSUMERS:
        f = L.get("Linter." + nm)
        if f is not None and "rule_pack" in f.params:
            pos_of[nm] = f.params.index("rule_pack") - 1          # without cls/self
    stale = [f"Linter.{nm} with a rule_pack parameter not found" for nm in RULEPACK_CONSUMERS if nm not in pos_of]
    for rel, tree in mods.items():
        funcs = fmap[rel]
        for n in ast.walk(tree):
            if not isinstance(n, ast.Call):
                continue
            target, args, kws = None, n.args, n.keywords
            if isinstance(n.func, ast.Attribute) and n.func.attr in pos_of:
                target = n.func.attr
            elif ast.unparse(n.func) in ("functools.partial", "partial") and n.args and isinstance(n.args[0], ast.Attribute) and n.args[0].attr in pos_of:
                target, args = n.args[0].attr, n.args[1:]
            if target is None:
                continue
            q = _enclosing_qual(funcs, n)
            fn = funcs.get(q)
            site = f"sqlfluff/{rel}:{n.lineno}  {q} -> {target}"
            arg = next((k.value for k in kws if k.arg == "rule_pack"), None)
            if arg is None and len(args) > pos_of[target] and not any(isinstance(x, ast.Starred) for x in args):
                arg = args[pos_of[target]]
            if fn is None or arg is None or not isinstance(arg, ast.Name):
                fails.append((f"sqlfluff/{rel}:{q}", {"cannot resolve the rule_pack argument": site, "argument": ast.unparse(arg) if arg is not None else None}))
                continue
            if fn.is_param(arg.id) and arg.id == "rule_pack":
                uses.append(site + "  [own parameter]")
                continue
            bs = fn.bindings(arg.id)
            good = bool(bs) and all(kind == "assign" and isinstance(v, ast.Call) and isinstance(v.func, ast.Attribute) and v.func.attr == "get_rulepack"
                                    and not v.args and [k.arg for k in v.keywords] == ["config"] for kind, _, v, _ in bs)
            if not good:
                fails.append((f"sqlfluff/{rel}:{q}", {"rule pack does not come from <linter>.get_rulepack(config=...)": site,
                                                     "bindings": [fn.where(b[1]) for b in bs]}))
            else:
                uses.append(site + f"  [{ast.unparse(bs[0][2])}]")
    called = {id(c.func) for tree in mods.values() for c in ast.walk(tree) if isinstance(c, ast.Call)}
    partial0 = {id(c.args[0]) for tree in mods.values() for c in ast.walk(tree)
                if isinstance(c, ast.Call) and ast.unparse(c.func) in ("functools.partial", "partial") and c.args}
    for rel, tree in mods.items():
        for n in ast.walk(tree):
            if isinstance(n, ast.Attribute) and n.attr in pos_of and isinstance(n.ctx, ast.Load) and id(n) not in called and id(n) not in partial0:
                fails.append((f"sqlfluff/{rel}", {"linting function mentioned as a value": f"sqlfluff/{rel}:{n.lineno}  {ast.unparse(n)}"}))
    clause("rulepack-comes-from-get_rulepack", fails, stale or (None if len(uses) >= 6 else [f"only {len(uses)} call sites found"]), {"call sites": uses})

    # ---- (6) Linter.get_rulepack returns get_ruleset().get_rulepack(config = the given config, else the linter's)
    g = L.get("Linter.get_rulepack")
    GK = "sqlfluff.core.linter.linter:Linter.get_rulepack"
    fails, stale = [], []
    if g is None:
        stale.append("Linter.get_rulepack not found")
    else:
        rets = [n for n in ast.walk(g.node) if isinstance(n, ast.Return)]
        okr = False
        if len(rets) == 1 and isinstance(rets[0].value, ast.Call):
            c = rets[0].value
            if (isinstance(c.func, ast.Attribute) and c.func.attr == "get_rulepack" and isinstance(c.func.value, ast.Name) and not c.args
                    and [k.arg for k in c.keywords] == ["config"] and isinstance(c.keywords[0].value, ast.Name)):
                rb = g.bindings(c.func.value.id)
                cb = g.bindings(c.keywords[0].value.id)
                okr = (len(rb) == 1 and rb[0][0] == "assign" and ast.unparse(rb[0][2]) == "get_ruleset()"
                       and len(cb) == 1 and cb[0][0] == "assign" and ast.unparse(cb[0][2]) == "config or self.config" and g.is_param("config"))
        if not okr:
            fails.append((GK, {"Linter.get_rulepack is not `return get_ruleset().get_rulepack(config=config or self.config)`":
                               [g.where(r) for r in rets], "body": ast.unparse(g.node)[:600]}))
    clause("Linter.get_rulepack-delegates-with-the-given-config", fails, stale)

    # ---- (7) glue of the pyvc region contract RuleSet.get_rulepack#selection: the two locals its precondition speaks about are bound,
    #          once, before the range, by exactly the expressions the precondition names, and nothing writes them; the rule objects of
    #          the returned pack are instantiated from the proved code list, one per code, in its order
    R = fmap.get(RBASE, {})
    grp = R.get("RuleSet.get_rulepack")
    GRP = "sqlfluff.core.rules.base:RuleSet.get_rulepack"
    fails, stale = [], []
    if grp is None:
        stale.append("RuleSet.get_rulepack not found")
    else:
        top = list(grp.node.body)
        start = [i for i, st_ in enumerate(top) if ast.unparse(st_).startswith("allowlist = config.get('rule_allowlist')")]
        if len(start) != 1:
            stale.append("statement `allowlist = config.get(\"rule_allowlist\") ...` not found at the top level of get_rulepack")
        else:
            for name, want in (("valid_codes", "set(self._register.keys())"), ("reference_map", "self.rule_reference_map()")):
                bs = grp.bindings(name)
                okb = (len(bs) == 1 and bs[0][0] == "assign" and ast.unparse(bs[0][2]) == want and bs[0][1] in top[:start[0]])
                if not okb:
                    fails.append((GRP, {f"`{name}` is not bound exactly once, before the selection statements, by `{want}`": [grp.where(b[1]) for b in bs]}))
                for m in grp.mutating_calls(name):
                    fails.append((GRP, {f"in-place mutation of `{name}`": grp.where(m)}))
                for n in ast.walk(grp.node):
                    if isinstance(n, (ast.Subscript, ast.Attribute)) and isinstance(n.ctx, (ast.Store, ast.Del)) and isinstance(n.value, ast.Name) and n.value.id == name:
                        fails.append((GRP, {f"store into `{name}`": grp.where(n)}))
            for n in ast.walk(grp.node):
                if isinstance(n, ast.Attribute) and n.attr == "_register" and isinstance(n.ctx, (ast.Store, ast.Del)):
                    fails.append((GRP, {"the register is re-bound inside get_rulepack": grp.where(n)}))
            # keylist: bound by the two statements of the verified range only; the pack is built from it
            kb = grp.bindings("keylist")
            if not (len(kb) == 2 and all(k == "assign" and b in top[start[0]:] for k, b, _, _ in kb)):
                fails.append((GRP, {"`keylist` is not bound by exactly the two statements of the verified range": [grp.where(b[1]) for b in kb]}))
            ib = grp.bindings("instantiated_rules")
            loops = [n for n in top if isinstance(n, ast.For) and ast.unparse(n.target) == "code" and ast.unparse(n.iter) == "keylist"]
            muts = grp.mutating_calls("instantiated_rules")
            okp = (len(ib) == 1 and ib[0][0] == "assign" and ast.unparse(ib[0][2]) == "[]" and len(loops) == 1 and len(muts) == 1
                   and muts[0].func.attr == "append" and ast.unparse(muts[0].args[0]) == "rule_class(**kwargs)"
                   and any(muts[0] is x for x in ast.walk(loops[0]))
                   and [ast.unparse(b[2]) for b in grp.bindings("rule_class")] == ["self._register[code].rule_class"]
                   and not any(isinstance(x, (ast.Break, ast.Continue)) for x in ast.walk(loops[0])))
            if not okp:
                fails.append((GRP, {"the pack is not built as `for code in keylist: ... instantiated_rules.append(rule_class(**kwargs))` with "
                                    "rule_class = self._register[code].rule_class": [grp.where(m) for m in muts] + [grp.where(b[1]) for b in ib]}))
            rets = [n for n in ast.walk(grp.node) if isinstance(n, ast.Return)]
            if not (len(rets) == 1 and ast.unparse(rets[0].value) == "RulePack(instantiated_rules, reference_map)"):
                fails.append((GRP, {"get_rulepack does not return RulePack(instantiated_rules, reference_map)": [grp.where(r) for r in rets]}))
    clause("get_rulepack-region-inputs-and-pack-construction", fails, stale)

    # ---- (8) glue of the pyvc region contract Linter.lint_fix_parsed#rule-loop: loop_limit is what its precondition assumes
    fails, stale = [], []
    if lfp is None:
        stale.append("Linter.lint_fix_parsed not found")
    else:
        bs = lfp.bindings("loop_limit")
        if not (len(bs) == 1 and bs[0][0] == "assign" and ast.unparse(bs[0][2]) == "config.get('runaway_limit') if fix else 1"):
            fails.append((LFP, {"`loop_limit` is not bound once by `config.get(\"runaway_limit\") if fix else 1`": [lfp.where(b[1]) for b in bs]}))
        for nm in ("fix", "rule_pack"):
            if not lfp.is_param(nm):
                fails.append((LFP, {f"`{nm}` is not a parameter or is re-bound": [lfp.where(b[1]) for b in lfp.bindings(nm)]}))
    clause("lint_fix_parsed-loop-limit", fails, stale)

    return {"name": "C21-dataflow", "obligations": n_ob, "discharged": ok, "failed": failed, "undecided": undecided,
            "samples": samples[:1] + samples[2:3] + samples[5:6], "backend": BACKEND,
            "trusted": ["CPython ast.parse / ast.unparse of the real source (re-read from disk on every run, --src honoured)",
                        "tqdm(iterable, ...) iterates exactly the elements of `iterable`, in order",
                        "python scoping: comprehension variables do not leak; a name bound only by the statements listed has only those values "
                        f"(modules read: {n_files}, parsed because they mention one of {WORDS}: {len(mods)}, {time.time() - t0:.1f}s)"]}


EXTRA = [dataflow_check]
BOUNDED = [native_contracts, selection_exact, dynamic_only_selected]
RULE = ("obligations/discharged = the pyvc proof obligations of the four contracts of contracts/c21_select.py + 9 syntactic data-flow clauses; "
        "bounded_stand_ins[*].rule: [0] native reading of the contracts of _expand_rule_refs / rule_reference_map, [1] get_rulepack against the "
        "property's formula over pairs of selector lists, [2] lints under a crawl spy")

TRUSTED = [
    "glob semantics is fnmatch's: `glob(pat, name)` is uninterpreted in the proofs; assumed contract of fnmatch.filter(names, pat): the result holds "
    "exactly the members of `names` that match, none left out (compared with the library on random inputs on every run, BOUNDED[0]); that a reference "
    "given literally selects itself comes from the exact-reference branch, not from glob semantics",
    "engine models used by the proofs: dict.keys() as the key set, dict.values() / list(<set>) as an enumeration in an arbitrary order, sorted(<set>) "
    "as a repetition-free enumeration that is a function of the set (the order itself is not modelled: `in sorted-register order` is proved as "
    "`in the relative order of sorted(register keys)`), dict comprehensions (a key's value comes from SOME element with that key), {**a, **b}, "
    "defaultdict(set) with in-place `d[k].add(x)`, set union / intersection",
    "rule_reference_map precondition: the register stores each manifest under its own code (RuleSet.register does) and rule names are unique "
    "(true of the bundled rules: checked on every run by BOUNDED[0]; NOT enforced by register())",
    "region contract get_rulepack#selection: FluffConfig.get('rule_allowlist' / 'rule_denylist') returns the parsed selector list or None and "
    "does not change between calls; its precondition (valid_codes = the register's keys, reference_map[code] contains code) is what the two "
    "statements before the range establish -- EXTRA clause get_rulepack-region-inputs-and-pack-construction checks the bindings syntactically, "
    "the second fact is rule_reference_map's proved postcondition; the range starts AT the statement reading rule_allowlist, so an edit of that "
    "very line is reported stale, not verified; rule instantiation after the range is checked syntactically (one rule_class(**kwargs) per code of "
    "the proved list) and dynamically (BOUNDED[1]), not proved",
    "region contract lint_fix_parsed#rule-loop: assumed contract of BaseRule.crawl (every violation it returns is a lint error whose `rule` is the "
    "crawling rule object -- to_linting_error(self) / SQLLintError(rule=self); it does not write rule_pack.rules); the members of a pack are "
    "distinct objects (get_rulepack instantiates one per code); loop_limit >= 1 and == 1 when not fixing (config validation refuses "
    "runaway_limit < 1; EXTRA clause lint_fix_parsed-loop-limit checks the binding); tqdm(iterable) iterates exactly `iterable`; "
    "compute_anchor_edit_info / apply_fixes / time.monotonic / the two logging helpers have no effect on the rule pack, the ghost crawl counters or "
    "the violation list; `crawls` / `found` are ghost fields written only by the crawl contract; `origin(e)` (SQLLintError.rule) is never re-assigned",
    "the oracle (class Oracle) of the bounded parts is the reading of the property text: codes, names, groups, aliases with precedence codes > names > "
    "groups > aliases for a string that is several of these; a selector that is not itself a reference is a glob over ALL references (including aliases)",
    "FluffConfig parses `rules` and `exclude_rules` independently of each other (the exhaustive bounded path sets the two parsed lists on one config "
    "object; a sub-sample goes through the real constructor with both options and through Linter.get_rulepack)",
]
NOT_COVERED = [
    "second sentence of C21 -- the violations a rule reports do not depend on which other rules are enabled -- is NOT decided beyond the rule loop: "
    "proved there is that each member of the pack is crawled (once when linting) with the same tree / config / mask arguments whatever the other "
    "members are, and that what it returns is appended untouched; that BaseRule.crawl / the ~70 rule _eval bodies are functions of those arguments "
    "alone (no shared memory, caches or class state) is a frame property over code not under contract; no check here compares a rule's output "
    "alone with its output among other rules",
    "refutation: a broken proof of these contracts comes back `unknown` (quantifiers over strings), not `sat`; a concrete failing input comes from "
    "the bounded parts (native contract search, selector pool, crawl spy)",
    "FluffConfig._handle_comma_separated_values (how the option text becomes the selector list) is exercised by BOUNDED[1] only",
    "rule instantiation and configuration validation in get_rulepack (_validate_config_options, per-rule kwargs, description formatting): only checked "
    "syntactically (EXTRA) and in so far as each pack member is an instance of the class registered under its code (BOUNDED[1])",
    "the `unknown rule reference` warnings themselves (logger calls are dropped from the verified text): BOUNDED[1] checks them",
    "two rules with the same name (possible only with plugin rules; register() does not refuse it): rule_reference_map keeps one of them only, so "
    "selecting by that name does not run the other -- excluded by `requires` (names unique), recorded as observation_outside_requires in the evidence",
    "user rules registered through Linter(user_rules=...), plugin-provided rule sets, and selectors containing glob characters that are also exact references",
    "the fix-mode pass structure beyond `every member is crawled at least once` (which rules are re-run in which pass, loop detection, the post phase)",
    "noqa handling (Linter.allowed_rule_ref_map, IgnoreMask) decides which reported violations are *shown*; it is C20's subject. lint_parsed's "
    "merging of the variants' violations (seeded change C21_B) is covered by EXTRA clause lint_parsed-violation-sources and BOUNDED[2], not by pyvc",
    "the NOQA (unused noqa) warning code and the '????' code of bare SQLBaseError are not rule codes and are not produced by the texts linted here",
]
EXPLANATION = (
    "C21 decided in three layers. (A) pyvc proofs on the real source (contracts/c21_select.py; counted in obligations/discharged): "
    "RuleSet._expand_rule_refs -- result == union over the selectors of (map[r] if r is a key, else union of map[k] over the keys k with glob(r, k)), "
    "as two inclusions, both loops with invariants; RuleSet.rule_reference_map -- keys are exactly the codes, non-empty names, groups and aliases "
    "of the registered rules, each value is exactly the set of codes the reference stands for under codes > names > groups > aliases (one "
    "obligation per kind and direction), values are codes, map[code] == {code} (dict comprehensions, defaultdict loops and ** merges executed "
    "symbolically); RuleSet.get_rulepack#selection (statement range from the read of rule_allowlist to the filtered keylist) -- the code list "
    "== [c in sorted register | (rules not given or some rules selector stands for c) and no exclude_rules selector stands for c], using the "
    "proved contract of _expand_rule_refs modularly, no raising path; Linter.lint_fix_parsed#rule-loop (the `for phase` loop nest, lint and fix "
    "mode, 7 loops) -- with ghost crawl counters: objects outside rule_pack.rules are never crawled, every member is crawled at least once and "
    "exactly once when linting, the violation list keeps its prefix and every appended violation has a member of the pack as origin, and when "
    "linting everything a member's crawl returned is in the list. (B) 9 syntactic data-flow clauses over the real AST of every module (EXTRA), "
    "incl. the glue of the two region contracts. (C) bounded stand-ins: [0] the proved contract texts of 1 and 2 executed natively on the real "
    "functions (random maps over 'ab*?', the real register, synthetic colliding registers) + fnmatch.filter against its assumed contract; [1] the "
    "real get_rulepack on pairs of <=2-element selector lists over 25 selectors against an oracle from the property text (all 106929 pairs in the "
    "thorough tier) incl. the unknown-reference warnings and the FluffConfig / Linter.get_rulepack path; [2] lints under a crawl spy: rules run == "
    "selected, every reported code selected or PRS/TMP/LXR. NOT decided: that a rule's crawl is independent of the other enabled rules (frame over "
    "the rule bodies). Level `other`: region contracts assume their surroundings, glob semantics is fnmatch's, B and C are not proofs.")

_L = "sqlfluff/core/linter/linter.py"
_B = "sqlfluff/core/rules/base.py"
# The first block: mutants that break a pyvc proof obligation (obligation ids in the comments; a broken proof of these contracts comes
# back `unknown`, the concrete failing input -- exit 1 -- comes from the bounded parts).  The second block (older) is decided by the
# bounded / syntactic parts, several of them ALSO break a pyvc obligation (noted).
MUTANTS = [
    # --- RuleSet._expand_rule_refs   (C21/sqlfluff.core.rules.base.RuleSet._expand_rule_refs/inv-preserve[1.*] ...)
    ("expand_first_match_only", _B, "                for matched in matched_refs:\n                    expanded_rule_set.update(reference_map[matched])\n",
     "                for matched in matched_refs:\n                    expanded_rule_set.update(reference_map[matched])\n                    break\n"),   # inv-preserve[1.2]/pF
    ("expand_direct_reference_replaces", _B, "                expanded_rule_set.update(reference_map[r])\n", "                expanded_rule_set = set(reference_map[r])\n"),   # inv-preserve[1.2]/pT
    ("expand_glob_keeps_reference_names", _B, "                    expanded_rule_set.update(reference_map[matched])\n", "                    expanded_rule_set.add(matched)\n"),
    # --- RuleSet.get_rulepack#selection   (post[ensures.1..3])
    ("select_deny_wins_only_for_codes", _B, "r for r in keylist if r in expanded_allowlist and r not in expanded_denylist", "r for r in keylist if r in expanded_allowlist and r not in denylist"),
    ("select_reversed_order", _B, "        keylist = sorted(self._register.keys())\n", "        keylist = sorted(self._register.keys(), reverse=True)\n"),   # BOUNDED[1] only: the engine's sorted() ignores reverse= (reported)
    ("select_denylist_expanded_from_allowlist", _B, "        expanded_denylist = self._expand_rule_refs(denylist, reference_map)\n",
     "        expanded_denylist = self._expand_rule_refs(allowlist, reference_map) if not denylist else self._expand_rule_refs(denylist, reference_map)\n"),
    ("pack_built_from_register_not_keylist", _B, "        for code in keylist:\n            kwargs = {}\n", "        for code in sorted(self._register.keys()):\n            kwargs = {}\n"),   # EXTRA glue clause (7) + bounded
    # --- Linter.lint_fix_parsed#rule-loop   (inv-entry[3.*] / inv-preserve[3.*])
    ("loop_first_pass_skips_unfixable", _L, "                        and not is_first_linter_pass()\n", ""),                           # inv-preserve[3.12]
    ("loop_first_pass_phase_rules_only", _L, "                if is_first_linter_pass():\n                    # In order to compute",
     "                if False:\n                    # In order to compute"),                                                            # inv-entry[3.10], [3.11]
    ("loop_found_errors_replace_earlier", _L, "                        initial_linting_errors += linting_errors\n", "                        initial_linting_errors = linting_errors\n"),   # inv-preserve[3.3], [3.4], [3.14]
    ("loop_skips_first_rule", _L, "                    progress_bar_crawler.set_description(f\"rule {crawler.code}\")\n",
     "                    if crawler is rule_pack.rules[0]:\n                        continue\n"
     "                    progress_bar_crawler.set_description(f\"rule {crawler.code}\")\n"),                                      # inv-preserve[3.*]
    ("loop_lint_crawls_twice", _L, "                    if is_first_linter_pass():\n                        initial_linting_errors += linting_errors\n",
     "                    if is_first_linter_pass():\n                        initial_linting_errors += linting_errors\n                    if not fix:\n"
     "                        crawler.crawl(tree, dialect=config.get(\"dialect_obj\"), fix=fix, templated_file=templated_file, ignore_mask=ignore_mask, fname=fname, config=config)\n"),   # inv-preserve[3.13], [3.14]
    ("loop_errors_dropped_when_linting", _L, "                    if is_first_linter_pass():\n                        initial_linting_errors += linting_errors\n",
     "                    if is_first_linter_pass() and fix:\n                        initial_linting_errors += linting_errors\n"),     # inv-preserve[3.14]
    # --- RuleSet.rule_reference_map   (inv-entry[1.*] = the codes / names checkpoint, inv-preserve[2.*] / [4.*] = the group / alias loops)
    ("refmap_aliases_dropped", _B, "        return {**alias_map, **reference_map}\n", "        return reference_map\n"),
    ("refmap_alias_maps_to_itself", _B, "                    alias_map[alias].add(manifest.code)\n", "                    alias_map[alias].add(alias)\n"),
    # --- older block (of these, pyvc obligations also break for: exclude_ignored, explicit_select_beats_exclude, exclude_only_with_select
    #     [post[ensures.1] of get_rulepack#selection], sorted_removed [post[ensures.3]], glob_even_for_exact_reference [inv-entry[2.4]],
    #     first_selector_only [post[ensures.2]] of _expand_rule_refs, name_over_code [inv-entry[1.4]], group_keeps_last_rule [inv-preserve[2.3]],
    #     names_not_selectable [inv-entry[1.5-1.7]] of rule_reference_map; default_selection_core_only edits the region's anchor line: stale)
    ("exclude_ignored", "sqlfluff/core/rules/base.py",
     "r for r in keylist if r in expanded_allowlist and r not in expanded_denylist", "r for r in keylist if r in expanded_allowlist"),
    ("explicit_select_beats_exclude", "sqlfluff/core/rules/base.py",
     "r for r in keylist if r in expanded_allowlist and r not in expanded_denylist",
     "r for r in keylist if r in expanded_allowlist and (r not in expanded_denylist or r in allowlist)"),
    ("exclude_only_with_select", "sqlfluff/core/rules/base.py",
     'denylist = config.get("rule_denylist") or []', 'denylist = (config.get("rule_denylist") or []) if config.get("rule_allowlist") else []'),
    ("default_selection_core_only", "sqlfluff/core/rules/base.py",
     'allowlist = config.get("rule_allowlist") or list(valid_codes)', 'allowlist = config.get("rule_allowlist") or list(reference_map["core"])'),
    ("glob_on_codes_only", "sqlfluff/core/rules/base.py",
     "matched_refs = fnmatch.filter(reference_map.keys(), r)",
     "matched_refs = fnmatch.filter([k for k in reference_map.keys() if reference_map[k] == {k}], r)"),
    ("unknown_selects_everything", "sqlfluff/core/rules/base.py",
     "matched_refs = fnmatch.filter(reference_map.keys(), r)",
     "matched_refs = fnmatch.filter(reference_map.keys(), r) or list(reference_map.keys())"),
    ("glob_even_for_exact_reference", "sqlfluff/core/rules/base.py",
     "            if r in reference_map:\n                expanded_rule_set.update(reference_map[r])", "            if False:\n                pass"),
    ("first_selector_only", "sqlfluff/core/rules/base.py", "        for r in glob_list:\n", "        for r in glob_list[:1]:\n"),
    ("name_over_code", "sqlfluff/core/rules/base.py", "reference_map = {**name_map, **reference_map}", "reference_map = {**reference_map, **name_map}"),
    ("alias_over_everything", "sqlfluff/core/rules/base.py", "        return {**alias_map, **reference_map}",
     "        return {**reference_map, **{a: {m.code} for m in self._register.values() for a in m.aliases}}"),
    ("group_keeps_last_rule", "sqlfluff/core/rules/base.py", "group_map[group].add(manifest.code)", "group_map[group] = {manifest.code}"),
    ("names_not_selectable", "sqlfluff/core/rules/base.py", "            if manifest.name\n", "            if manifest.name and False\n"),
    ("sorted_removed", "sqlfluff/core/rules/base.py", "keylist = sorted(self._register.keys())", "keylist = list(self._register.keys())"),
    ("no_unknown_warning", "sqlfluff/core/rules/base.py", "if any(allowlisted_unknown_rule_codes):", "if False:"),
    ("linter_ignores_file_config", "sqlfluff/core/linter/linter.py", "cfg = config or self.config", "cfg = self.config"),
    ("first_pass_runs_all_rules", "sqlfluff/core/linter/linter.py",
     "                    rules_this_phase = rule_pack.rules\n                progress_bar_crawler",
     "                    rules_this_phase = get_ruleset().get_rulepack(FluffConfig(overrides={'dialect': 'ansi'})).rules\n                progress_bar_crawler"),
    ("post_phase_from_full_ruleset", "sqlfluff/core/linter/linter.py",
     "                    rule for rule in rule_pack.rules if rule.lint_phase == phase",
     "                    rule for rule in get_ruleset().get_rulepack(FluffConfig(overrides={'dialect': 'ansi'})).rules if rule.lint_phase == phase"),
    ("extra_violations_appended", "sqlfluff/core/linter/linter.py",
     "                    if is_first_linter_pass():\n                        initial_linting_errors += linting_errors",
     "                    if is_first_linter_pass():\n                        initial_linting_errors += linting_errors\n"
     "                        initial_linting_errors.extend(get_ruleset().get_rulepack(FluffConfig(overrides={'dialect': 'ansi', 'rules': 'LT12'})).rules[0].crawl("
     "tree, dialect=config.get('dialect_obj'), fix=False, templated_file=templated_file, ignore_mask=ignore_mask, fname=fname, config=config)[0])"),
]
