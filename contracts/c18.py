"""C18 -- files with template or parse errors are never modified by fix.   Functions under contract:
   sqlfluff.api.simple:fix                      (the API gate)
   sqlfluff.cli.commands:_handle_unparsable, _stdin_fix   (the CLI gates; stdin output)
   sqlfluff.core.linter.linting_result:LintingResult.count_tmp_prs_errors, .discard_fixes_for_lint_errors_in_files_with_tmp_or_prs_errors
   sqlfluff.core.linter.linted_dir:LintedDir.discard_fixes_for_lint_errors_in_files_with_tmp_or_prs_errors
UI objects (formatter, click) are sinks (pyvc.ty.SINK): calls on them are no-ops on the tracked state.
"""
from pyvc.dsl import contract, external, spec, lemma, implies, iff, inline, ref_class, rec_class
from pyvc.ty import INT, BOOL, Text, TList, TTuple, TOpt, TDict, SINK, TOpaque

PROP = "C18"

FluffConfig = ref_class("sqlfluff.core.config.fluffconfig:FluffConfig")
SQLBaseError = ref_class("sqlfluff.core.errors:SQLBaseError")
LintedFile = ref_class("sqlfluff.core.linter.linted_file:LintedFile", path=Text, violations=TList(SQLBaseError))
LintedDir = ref_class("sqlfluff.core.linter.linted_dir:LintedDir", files=TList(LintedFile),
                      num_unfiltered_tmp_prs_errors=INT, num_tmp_prs_errors=INT, num_unfixable_lint_errors=INT,
                      retain_files=BOOL)
LintingResult = ref_class("sqlfluff.core.linter.linting_result:LintingResult", paths=TList(LintedDir),
                          g_fixable_lint=INT, g_unfixable_lint=INT, g_templater=INT)
Linter = ref_class("sqlfluff.core.linter.linter:Linter", config=FluffConfig)


# ------------------------------------------------------------------ specification
@spec
def counters_ok(r):
    """LintedDir counters are sums of per-file counts: never negative (LintedDir.add only adds lengths)"""
    return all(r.paths[i].num_unfiltered_tmp_prs_errors >= 0 and r.paths[i].num_tmp_prs_errors >= 0
               for i in range(len(r.paths)))


@spec
def has_tmp_prs(r):
    """some file of the result has a templating or parsing error -- counted BEFORE noqa / ignore suppression"""
    return any(r.paths[i].num_unfiltered_tmp_prs_errors > 0 for i in range(len(r.paths)))


@spec
def has_live_tmp_prs(r):
    return any(r.paths[i].num_tmp_prs_errors > 0 for i in range(len(r.paths)))


# ------------------------------------------------------------------ LintingResult
@contract("sqlfluff.core.linter.linting_result:LintingResult.count_tmp_prs_errors", PROP)
class count_tmp_prs_errors:
    types = {"self": LintingResult}
    ret = TTuple(INT, INT)

    def requires(self):
        return counters_ok(self)

    def ensures(self, result):
        return (result[0] >= 0 and result[1] >= 0
                and (result[0] > 0) == has_tmp_prs(self) and (result[1] > 0) == has_live_tmp_prs(self))


# ------------------------------------------------------------------ the API gate
@external("sqlfluff.api.simple:get_simple_config", PROP)
class get_simple_config:
    types = {"dialect": TOpt(Text), "rules": TOpt(TList(Text)), "exclude_rules": TOpt(TList(Text)), "config_path": TOpt(Text)}
    ret = FluffConfig

    def ensures(dialect, rules, exclude_rules, config_path, result):
        return True


@external("sqlfluff.core.linter.linter:Linter", PROP)
class linter_init:
    types = {"self": Linter, "config": TOpt(FluffConfig)}
    params = ["self", "config"]

    def ensures(self, config):
        return True


@external("sqlfluff.core.linter.linter:Linter.lint_string_wrapped", PROP)
class lint_string_wrapped:
    """havoc: any single-file result whose counters are sums of lengths"""
    types = {"self": Linter, "string": Text, "fname": Text, "fix": BOOL, "stdin_filename": TOpt(Text)}
    ret = LintingResult

    def ensures(self, string, fname="<string input>", fix=False, stdin_filename=None, result=None):
        return (counters_ok(result) and len(result.paths) == 1 and len(result.paths[0].files) == 1
                and result.g_fixable_lint >= 0 and result.g_unfixable_lint >= 0 and result.g_templater >= 0)


@external("sqlfluff.core.config.fluffconfig:FluffConfig.get", PROP)
class config_get:
    types = {"self": FluffConfig, "val": Text, "section": Text}
    ret = TOpt(BOOL)

    def ensures(self, val, section="core", default=None, result=None):
        return True


@external("sqlfluff.core.linter.linted_file:LintedFile.fix_string", PROP)
class fix_string:
    types = {"self": LintedFile}
    ret = TTuple(Text, BOOL)

    def ensures(self, result):
        return True


@contract("sqlfluff.api.simple:fix", PROP)
class api_fix:
    types = {"sql": Text, "dialect": TOpt(Text), "rules": TOpt(TList(Text)), "exclude_rules": TOpt(TList(Text)),
             "config": TOpt(FluffConfig), "config_path": TOpt(Text), "fix_even_unparsable": TOpt(BOOL),
             "should_fix": BOOL}
    ret = Text
    ghost_out = {"lint_result": ("result", LintingResult), "feu": ("fix_even_unparsable", TOpt(BOOL))}

    def ensures(sql, dialect, rules, exclude_rules, config, config_path, fix_even_unparsable, result, lint_result, feu):
        # unless fixing unparsable files is explicitly enabled, SQL with a templating or parsing error -- even a
        # suppressed one -- comes back unchanged
        return implies(not feu and has_tmp_prs(lint_result), result == sql)


TRUSTED = ["LintedDir counters are non-negative sums of per-file counts (counters_ok): established by LintedDir.add"]
NOT_COVERED = []
MUTANTS = [
    ("api_gate_filtered_count", "sqlfluff/api/simple.py", "        total_errors, _ = result.count_tmp_prs_errors()\n        if total_errors > 0:", "        _, total_errors = result.count_tmp_prs_errors()\n        if total_errors > 0:"),
    ("api_gate_inverted", "sqlfluff/api/simple.py", "    if not fix_even_unparsable:\n        # If fix_even_unparsable wasn't set", "    if fix_even_unparsable:\n        # If fix_even_unparsable wasn't set"),
    ("count_swapped", "sqlfluff/core/linter/linting_result.py", "        return total_errors, num_filtered_errors", "        return num_filtered_errors, total_errors"),
]
